(* Props/C03.v — back-pressure releases: no lost wake-up.
   ONLY statements, each closed by `exact <lemma>`, with Print Assumptions. *)
From Coq Require Import List ZArith NArith Bool.
From AN Require Import Model.Srv Proofs.SrvInv Proofs.SrvTheorems Proofs.SrvFault Proofs.SrvPauseB Proofs.SrvStrand.
Import ListNotations.

(* In every state reachable by a fault-free script, for every limit L >= 1 (including 1):
   - a worker that the accept loop has flagged unavailable and that has no WorkerAvailable notice of its own in
     the waker queue has exactly L connections in progress (so the flag is never stale once notices are
     processed: no wake-up is lost);
   - a worker with spare capacity is flagged available, or exactly one notice for it is queued (and the mio
     waker has been fired for it: Model/Srv.v `wake`);
   - a flagged worker has spare capacity. *)
Theorem C03_no_lost_wakeup : forall (L : Z) W kinds os,
  (1 <= L)%Z -> 1 <= W <= 512 ->
  forallb nf_op os = true -> forallb (tok_ok (length kinds)) os = true ->
  let st := run L (init W kinds) os in
  forall g w, nth_error (ws st) g = Some w ->
    (getb (av st) (N.of_nat g) = false -> nwakes (N.of_nat g) (wq st) = 0 ->
       (Z.of_nat (length (w_queue w)) + Z.of_nat (length (w_picked w)) = L)%Z) /\
    ((Z.of_nat (length (w_queue w)) + Z.of_nat (length (w_picked w)) < L)%Z ->
       getb (av st) (N.of_nat g) = true \/ nwakes (N.of_nat g) (wq st) = 1) /\
    (getb (av st) (N.of_nat g) = true ->
       (Z.of_nat (length (w_queue w)) + Z.of_nat (length (w_picked w)) < L)%Z).
Proof. exact no_lost_wakeup. Qed.

(* non-vacuity, limit 1: the only connection of worker 0 finishes; the notice is queued (one), the next
   turn re-arms the worker and the waiting client is dispatched to it *)
Example C03_example :
  let os1 := [E (Connect 0 1); E (Connect 0 2); Turn []; E (Pick 0); E (Finish 0 1)] in
  let st1 := run 1 (init 1 [false]) os1 in
  let st2 := run 1 st1 [Turn []] in
  (getb (av st1) 0, nwakes 0 (wq st1), map (fun w => length (w_queue w)) (ws st1)) = (false, 1, [0]) /\
  (map (fun w => map c_id (w_queue w)) (ws st2)) = [[2%N]].
Proof. vm_compute. split; reflexivity. Qed.

(* "... a connection waiting on any listener is eventually dispatched", for EVERY script — worker deaths and replacements
   at any point, anything scheduled inside the send/inc gap, commands, injected errors (only a spurious WouldBlock from
   accept() with clients queued is excluded: nwb_op): in every reachable state the loop has not failed, a non-empty waker
   queue has its waker edge pending (so the blocking poll returns), and whenever the loop runs, is not paused and some worker
   is flagged available, every listener with a non-empty backlog is registered with an unreported readiness edge (the next
   poll reports it) or in back-off with the poll timeout armed (<= 510 ms, deadline <= 500 ms away). *)
Theorem C03_no_strand_all : forall (L : Z) W kinds os,
  1 <= W <= 512 -> forallb wf_op os = true -> forallb (tok_ok (length kinds)) os = true -> forallb nwb_op os = true ->
  let st := run L (init W kinds) os in
  err st = None /\
  (stopped st = false ->
   (wq st <> [] -> wpend st = true) /\
   forall tok l, nth_error (lsts st) tok = Some l ->
     paused st = false -> available (av st) = true -> l_backlog l <> [] -> l_inject l = [] ->
       (l_reg l = true /\ l_edge l = true) \/
       (exists d t, l_to l = Some d /\ (d <= now st + 500)%N /\ ptimeout st = Some t /\ (t <= 510)%N)).
Proof. exact no_strand_all. Qed.

(* "... a saturated worker receives connections again as soon as one of its connections finishes": from ANY reachable state
   (faults included) whose waker queue holds a release notice (or a replacement handle, or any command but an unmatched
   Resume), one handle_waker call with nothing else running in between ends with the queue drained (or the loop stopped)
   and, unless it is stopped/paused, with no worker flagged available any more — all saturated — or with EVERY listener's
   backlog empty (listeners in back-off or with an injected error pending excepted). *)
Theorem C03_release_drains : forall (L : Z) W kinds os,
  forallb nwb_op os = true ->
  let st := run L (init W kinds) os in
  live st = true -> existsb settles (wq st) = true ->
  let st' := step L st (HandleWaker []) in
  err st' = None ->
  (stopped st' = true \/ wq st' = []) /\
  (stopped st' = false -> paused st' = false -> available (av st') = true ->
   forall tok l, nth_error (lsts st') tok = Some l -> l_backlog l = [] \/ l_inject l <> [] \/ l_to l <> None).
Proof. exact notice_drains. Qed.

(* non-vacuity of C03_release_drains, limit 1, one worker, three clients: the first is in progress, two wait in the
   backlog; its completion queues the notice; handle_waker dispatches client 2 (the worker is saturated again: client 3
   stays, no worker is flagged) *)
Example C03_release_example :
  let os := [E (Connect 0 1); E (Connect 0 2); E (Connect 0 3); Turn []; E (Pick 0); E (Finish 0 1)] in
  let st := run 1 (init 1 [false]) os in
  let st' := step 1 st (HandleWaker []) in
  forallb nwb_op os = true /\ live st = true /\ existsb settles (wq st) = true /\ err st' = None /\
  (map (fun w => map c_id (w_queue w)) (ws st'), map l_backlog (lsts st'), available (av st'), wq st') =
  ([[2%N]], [[3%N]], false, []).
Proof. vm_compute. repeat split; reflexivity. Qed.

Print Assumptions C03_no_lost_wakeup.
Print Assumptions C03_no_strand_all.
Print Assumptions C03_release_drains.
