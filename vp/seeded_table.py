#!/usr/bin/env python3
"""Regenerates notes/seeded.md: one row per seeded change under seeded/ (what it changes, what it needs, which checks catch it)."""
import json
import os

ROOT = os.path.dirname(os.path.dirname(os.path.abspath(__file__)))
rows = []
for d in sorted(os.listdir(os.path.join(ROOT, "seeded"))):
    p = os.path.join(ROOT, "seeded", d)
    try:
        m = json.load(open(os.path.join(p, "meta.json")))
    except Exception:  # noqa: BLE001
        continue
    r = json.load(open(os.path.join(p, "result.json"))) if os.path.exists(os.path.join(p, "result.json")) else {}
    files = sorted({l[6:] for l in open(os.path.join(p, "patch.diff")) if l.startswith("+++ b/")})
    files = [f.strip() for f in files]
    res = []
    for pid in sorted(r):
        v = r[pid]
        if v["exit"] == 0:
            res.append("%s: no alarm" % pid)
            continue
        kinds = []
        for x in v.get("replays", []):
            k = "%s/%s" % (x.get("stream") or "proof", "input" if not x.get("no_failing_input_found") else "correspondence only")
            if k not in kinds:
                kinds.append(k)
        case = next(((x.get("case") or "").split(";exp=")[0] for x in v.get("replays", []) if x.get("case")), "")
        res.append("%s: VIOLATION (%s)%s" % (pid, ", ".join(kinds), (" e.g. `%s`" % case[:90]) if case else ""))
    what = (m.get("what_changed") or "").replace("\n", " ").replace("|", "\\|")
    needs = (m.get("needs_to_manifest") or "").replace("\n", " ").replace("|", "\\|")
    rows.append("| `%s` | %s | %s | %s | %s | %s |" % (d, m.get("property", "?"), ", ".join(files), what[:260] + ("…" if len(what) > 260 else ""),
                                                  needs[:200] + ("…" if len(needs) > 200 else ""), "<br>".join(res)))
out = ["# Seeded changes (written independently by sub-agents from the property text only; confirmed: suite passes, demo fails with / passes without)",
       "",
       "Each was evaluated with `python3 vp/seeded_eval.py seeded/<name> <ids>` (scratch worktree bind-mounted over /repo in a private mount",
       "namespace; quick tier). `stream/input` = the check found a concrete failing input on the implementation (replay file);",
       "`correspondence only` = model and code disagree but no failing input of the property predicate was found (`no-failing-input-found`).",
       "",
       "| name | property | files changed | change | needs | result |", "|---|---|---|---|---|---|"] + rows
open(os.path.join(ROOT, "notes", "seeded.md"), "w").write("\n".join(out) + "\n")
print("%d seeded changes" % len(rows))
