//! Correspondence harness for local-channel (C16), actix-utils Counter and local-waker (C17).
//! One case per stdin line, one trace per stdout line; text formats are documented in
//! ocaml/local/driver.ml and must stay identical on both sides.
use std::{
    fmt::Write as _,
    io::{self, BufRead, Write},
    pin::Pin,
    sync::{
        atomic::{AtomicUsize, Ordering},
        Arc,
    },
    task::{Context, Poll, Wake, Waker},
};

use actix_utils::counter::{Counter, CounterGuard};
use futures_core::Stream;
use local_channel::mpsc::{channel, Receiver, Sender};
use local_waker::LocalWaker;

// ---- counting wakers with identities -------------------------------------------------------
const NWAKERS: usize = 8;
static WAKES: [AtomicUsize; NWAKERS] = [
    AtomicUsize::new(0),
    AtomicUsize::new(0),
    AtomicUsize::new(0),
    AtomicUsize::new(0),
    AtomicUsize::new(0),
    AtomicUsize::new(0),
    AtomicUsize::new(0),
    AtomicUsize::new(0),
];

struct CountingWaker(usize);
impl Wake for CountingWaker {
    fn wake(self: Arc<Self>) {
        WAKES[self.0].fetch_add(1, Ordering::Relaxed);
    }
    fn wake_by_ref(self: &Arc<Self>) {
        WAKES[self.0].fetch_add(1, Ordering::Relaxed);
    }
}

struct Wakers {
    w: Vec<Waker>,
    snap: [usize; NWAKERS],
}
impl Wakers {
    fn new() -> Self {
        Wakers {
            w: (0..NWAKERS)
                .map(|i| Waker::from(Arc::new(CountingWaker(i))))
                .collect(),
            snap: [0; NWAKERS],
        }
    }
    fn get(&self, i: usize) -> &Waker {
        &self.w[i % NWAKERS]
    }
    /// remember the wake counts (start of an op)
    fn mark(&mut self) {
        for i in 0..NWAKERS {
            self.snap[i] = WAKES[i].load(Ordering::Relaxed);
        }
    }
    /// append "^<id>" for every wake since `mark` (ascending id, repeated per wake)
    fn wakes_since(&self, out: &mut String) {
        for i in 0..NWAKERS {
            let n = WAKES[i].load(Ordering::Relaxed) - self.snap[i];
            for _ in 0..n {
                write!(out, "^{}", i).unwrap();
            }
        }
    }
    /// which of our wakers is `w` (Waker::will_wake compares data pointer and vtable)
    fn id_of(&self, w: &Waker) -> Option<usize> {
        (0..NWAKERS).find(|&i| self.w[i].will_wake(w))
    }
}

fn num(t: &str) -> usize {
    t[1..].parse().unwrap_or_else(|_| panic!("bad token {t}"))
}

// ---- C16: local_channel::mpsc ----------------------------------------------------------------
/// runs the ops, appends one observation token per op (separated by ' ') to `out`;
/// `tok_end(out, start)` is called after every token with the token's start offset.
fn run16(toks: &[&str], wk: &mut Wakers, out: &mut String, tok_end: impl FnMut(&str)) {
    run16v(toks, wk, out, tok_end, false)
}

/// `sink` = the other public entry points: every send goes through `Sink` (poll_ready, start_send, poll_flush), every drop of a
/// sender is preceded by `Sink::poll_close` (which must not close anything), every receive is one poll of a fresh `recv()` future
fn run16v(toks: &[&str], wk: &mut Wakers, out: &mut String, mut tok_end: impl FnMut(&str), sink: bool) {
    use futures_sink::Sink;
    use std::future::Future;
    let (tx, rx) = channel::<u64>();
    // a second channel: in `sink` mode every other sender is not dropped but re-pointed to it with `Clone::clone_from`, which for
    // the channel under test is the same as dropping it
    let (scratch_tx, _scratch_rx) = channel::<u64>();
    let mut senders: Vec<Option<Sender<u64>>> = vec![Some(tx)];
    let mut rx: Option<Receiver<u64>> = Some(rx);
    for (k, t) in toks.iter().enumerate() {
        if k > 0 {
            out.push(' ');
        }
        let start = out.len();
        wk.mark();
        if k % 4 == 2 {
            // what a log line does: a sender and the receiver are formatted with {:?} — looking at a channel changes nothing
            let _ = format!("{:?} {:?}", senders.iter().flatten().next(), rx);
        }
        let b = t.as_bytes()[0];
        match b {
            b's' | b'c' | b'd' | b'x' => {
                let (i, v) = if b == b's' {
                    let (i, v) = t[1..].split_once('.').expect("s<i>.<v>");
                    (i.parse::<usize>().unwrap(), v.parse::<u64>().unwrap())
                } else {
                    (num(t), 0)
                };
                if i >= senders.len() || senders[i].is_none() {
                    out.push('!');
                } else {
                    match b {
                        b's' => {
                            let r = if sink {
                                let w = wk.get(0).clone();
                                let mut cx = Context::from_waker(&w);
                                let tx = senders[i].as_mut().unwrap();
                                let ready = matches!(Pin::new(&mut *tx).poll_ready(&mut cx), Poll::Ready(Ok(())));
                                let r = Pin::new(&mut *tx).start_send(v);
                                // the message is in the channel and the receiver woken by start_send itself: only every third
                                // send is followed by a flush (which must then find nothing to do), so a wake-up that is left
                                // to the flush shows
                                let flushed = k % 3 != 0 || matches!(Pin::new(&mut *tx).poll_flush(&mut cx), Poll::Ready(Ok(())));
                                if !ready || !flushed {
                                    out.push_str("?sink-not-ready-or-not-flushed:");
                                }
                                r
                            } else {
                                senders[i].as_ref().unwrap().send(v)
                            };
                            match r {
                                Ok(()) => out.push_str("ok"),
                                Err(e) => {
                                    assert_eq!(e.into_inner(), v, "SendError returns the message");
                                    out.push_str("er")
                                }
                            }
                        }
                        b'c' => {
                            let s = senders[i].as_ref().unwrap().clone();
                            senders.push(Some(s));
                            out.push('-');
                        }
                        b'd' => {
                            if sink {
                                let w = wk.get(0).clone();
                                let mut cx = Context::from_waker(&w);
                                if !matches!(Pin::new(senders[i].as_mut().unwrap()).poll_close(&mut cx), Poll::Ready(Ok(()))) {
                                    out.push_str("?poll-close:");
                                }
                            }
                            if sink && k % 2 == 0 {
                                if let Some(sd) = senders[i].as_mut() {
                                    sd.clone_from(&scratch_tx);
                                }
                            }
                            // every third drop happens while the thread unwinds from a panic (the sender is owned by a closure
                            // that panics): still the drop of a sender
                            let sd = senders[i].take();
                            if k % 3 == 1 {
                                let _ = std::panic::catch_unwind(std::panic::AssertUnwindSafe(move || {
                                    let _owned = sd;
                                    panic!("unwinding past a sender");
                                }));
                            } else {
                                drop(sd);
                            }
                            out.push('-');
                        }
                        _ => {
                            senders[i].as_mut().unwrap().close();
                            out.push('-');
                        }
                    }
                }
            }
            b'p' => match rx.as_mut() {
                None => out.push('!'),
                Some(r) => {
                    let w = wk.get(num(t)).clone();
                    let mut cx = Context::from_waker(&w);
                    let res = if sink {
                        let mut fut = Box::pin(r.recv());
                        fut.as_mut().poll(&mut cx)
                    } else {
                        Pin::new(r).poll_next(&mut cx)
                    };
                    match res {
                        Poll::Pending => out.push('P'),
                        Poll::Ready(None) => out.push('N'),
                        Poll::Ready(Some(v)) => write!(out, "I{}", v).unwrap(),
                    }
                }
            },
            b'f' => match rx.as_ref() {
                None => out.push('!'),
                Some(r) => {
                    senders.push(Some(r.sender()));
                    out.push('-');
                }
            },
            b'r' => match rx.take() {
                None => out.push('!'),
                Some(r) => {
                    if k % 2 == 1 {
                        let _ = std::panic::catch_unwind(std::panic::AssertUnwindSafe(move || {
                            let _owned = r;
                            panic!("unwinding past the receiver");
                        }));
                    } else {
                        drop(r);
                    }
                    out.push('-');
                }
            },
            _ => panic!("bad op {t}"),
        }
        wk.wakes_since(out);
        let s = out[start..].to_string();
        tok_end(&s);
    }
}

fn c16sink(line: &str, wk: &mut Wakers) -> String {
    let toks: Vec<&str> = line.split_whitespace().collect();
    let mut out = String::new();
    run16v(&toks, wk, &mut out, |_| {}, true);
    out
}

fn c16(line: &str, wk: &mut Wakers) -> String {
    let toks: Vec<&str> = line.split_whitespace().collect();
    let mut out = String::new();
    run16(&toks, wk, &mut out, |_| {});
    out
}

// ---- digest shared with the OCaml driver -----------------------------------------------------
const MASK: u64 = (1 << 62) - 1;
const H0: u64 = 0x2bf29ce484222325;
fn hbyte(h: u64, b: u8) -> u64 {
    let x = (h ^ b as u64).wrapping_mul(1099511628211) & MASK;
    x ^ (x >> 31)
}
fn hstr(h: u64, s: &str) -> u64 {
    let mut r = h;
    for b in s.bytes() {
        r = hbyte(r, b);
    }
    hbyte(r, 32)
}

const MAX_SENDERS: usize = 3;

#[derive(Clone)]
struct Track16 {
    alive: Vec<bool>,
    rx: bool,
    k: u64,
}
fn ops16(t: &Track16) -> Vec<String> {
    let n = t.alive.iter().filter(|b| **b).count();
    let mut v = Vec::new();
    for (i, b) in t.alive.iter().enumerate() {
        if *b {
            v.push(format!("s{}.{}", i, t.k));
            if n < MAX_SENDERS {
                v.push(format!("c{}", i));
            }
            v.push(format!("d{}", i));
            v.push(format!("x{}", i));
        }
    }
    if t.rx {
        v.push("p0".into());
        v.push("p1".into());
        if n < MAX_SENDERS {
            v.push("f".into());
        }
        v.push("r".into());
    }
    v
}
fn track16(t: &mut Track16, op: &str) {
    match op.as_bytes()[0] {
        b's' => t.k += 1,
        b'c' | b'f' => t.alive.push(true),
        b'd' => t.alive[num(op)] = false,
        b'r' => t.rx = false,
        _ => {}
    }
}
fn nontriv16(s: &str) -> bool {
    s.contains('^') || s == "er" || s == "N"
}

struct Sweep {
    cnt: u64,
    nt: u64,
    sum: u64,
}

fn sweep16(line: &str, wk: &mut Wakers) -> String {
    let (l, prefix) = line.split_once('|').expect("L|prefix");
    let maxlen: usize = l.trim().parse().unwrap();
    let mut ops: Vec<String> = prefix.split_whitespace().map(|s| s.to_string()).collect();
    let mut tr = Track16 { alive: vec![true], rx: true, k: 1 };
    for o in &ops {
        track16(&mut tr, o);
    }
    let mut sw = Sweep { cnt: 0, nt: 0, sum: 0 };
    fn go(ops: &mut Vec<String>, tr: &Track16, maxlen: usize, wk: &mut Wakers, sw: &mut Sweep, buf: &mut String) {
        // the real code cannot be cloned mid-run: every node re-runs its sequence from scratch
        buf.clear();
        let toks: Vec<&str> = ops.iter().map(|s| s.as_str()).collect();
        let mut h = H0;
        let mut isnt = false;
        run16(&toks, wk, buf, |s| {
            h = hstr(h, s);
            isnt = isnt || nontriv16(s);
        });
        sw.cnt += 1;
        if isnt {
            sw.nt += 1;
        }
        sw.sum = (sw.sum + h) & MASK;
        if ops.len() < maxlen {
            for o in ops16(tr) {
                let mut t2 = tr.clone();
                track16(&mut t2, &o);
                ops.push(o);
                go(ops, &t2, maxlen, wk, sw, buf);
                ops.pop();
            }
        }
    }
    let mut buf = String::new();
    go(&mut ops, &tr, maxlen, wk, &mut sw, &mut buf);
    format!("n={} nt={} h={:x}", sw.cnt, sw.nt, sw.sum)
}

// ---- C17: actix_utils::counter::Counter ------------------------------------------------------
fn run17(cap: usize, toks: &[&str], wk: &mut Wakers, out: &mut String, mut tok_end: impl FnMut(&str)) {
    // ops go through the newest clone, total() is read through the oldest handle
    let mut handles: Vec<Counter> = vec![Counter::new(cap)];
    let mut guards: Vec<Option<CounterGuard>> = Vec::new();
    for (k, t) in toks.iter().enumerate() {
        if k > 0 {
            out.push(' ');
        }
        let start = out.len();
        wk.mark();
        let mut wakes = String::new();
        match t.as_bytes()[0] {
            b'a' => {
                guards.push(Some(handles.last().unwrap().get()));
                out.push('-');
            }
            b'd' => {
                let g = num(t);
                if g >= guards.len() || guards[g].is_none() {
                    out.push('!');
                } else {
                    drop(guards[g].take());
                    out.push('-');
                }
            }
            b'u' => {
                // the guard is dropped while its thread is unwinding from a panic (what happens to a guard held by a task
                // or a service call that panics): still a guard drop as far as C17 is concerned
                let g = num(t);
                if g >= guards.len() || guards[g].is_none() {
                    out.push('!');
                } else {
                    let guard = guards[g].take();
                    let _ = std::panic::catch_unwind(std::panic::AssertUnwindSafe(move || {
                        let _held = guard;
                        panic!("unwinding past a live guard");
                    }));
                    out.push('-');
                }
            }
            b'v' => {
                let w = wk.get(num(t)).clone();
                let cx = Context::from_waker(&w);
                out.push(if handles.last().unwrap().available(&cx) { 'T' } else { 'F' });
            }
            b'k' => {
                let c = handles.last().unwrap().clone();
                handles.push(c);
                out.push('-');
            }
            b'w' => {
                // format the newest handle and a live guard with {:?} (what a log line does): looking at a counter changes nothing
                let _ = format!("{:?} {:?}", handles.last().unwrap(), guards.iter().flatten().next());
                out.push('-');
            }
            b'h' => {
                // drop the newest cloned handle (the one the ops went through); the first handle always stays
                if handles.len() > 1 {
                    drop(handles.pop());
                }
                out.push('-');
            }
            _ => panic!("bad op {t}"),
        }
        wk.wakes_since(&mut wakes);
        out.push_str(&wakes);
        let (a, b) = (handles[0].total(), handles.last().unwrap().total());
        if a == b {
            write!(out, "/{}", a).unwrap();
        } else {
            write!(out, "/{}<>{}", a, b).unwrap();
        }
        let s = out[start..].to_string();
        tok_end(&s);
    }
}

fn split_cap(line: &str) -> (usize, &str) {
    let (c, rest) = line.split_once('|').expect("cap|ops");
    (c.trim().parse().unwrap(), rest)
}

fn c17(line: &str, wk: &mut Wakers) -> String {
    let (cap, rest) = split_cap(line);
    let toks: Vec<&str> = rest.split_whitespace().collect();
    let mut out = String::new();
    run17(cap, &toks, wk, &mut out, |_| {});
    out
}

fn ops17(alive: &[bool]) -> Vec<String> {
    let mut v = vec!["a".to_string()];
    for (i, b) in alive.iter().enumerate() {
        if *b {
            v.push(format!("d{}", i));
        }
    }
    v.push("v0".into());
    v.push("v1".into());
    v.push("k".into());
    v
}
fn track17(alive: &mut Vec<bool>, op: &str) {
    match op.as_bytes()[0] {
        b'a' => alive.push(true),
        b'd' => alive[num(op)] = false,
        _ => {}
    }
}
fn nontriv17(s: &str) -> bool {
    s.contains('^') || s.starts_with('F')
}

fn sweep17(line: &str, wk: &mut Wakers) -> String {
    let mut it = line.splitn(3, '|');
    let cap: usize = it.next().unwrap().trim().parse().unwrap();
    let maxlen: usize = it.next().expect("cap|L|prefix").trim().parse().unwrap();
    let prefix = it.next().expect("cap|L|prefix");
    let mut ops: Vec<String> = prefix.split_whitespace().map(|s| s.to_string()).collect();
    let mut alive = Vec::new();
    for o in &ops {
        track17(&mut alive, o);
    }
    let mut sw = Sweep { cnt: 0, nt: 0, sum: 0 };
    fn go(cap: usize, ops: &mut Vec<String>, alive: &[bool], maxlen: usize, wk: &mut Wakers, sw: &mut Sweep, buf: &mut String) {
        buf.clear();
        let toks: Vec<&str> = ops.iter().map(|s| s.as_str()).collect();
        let mut h = H0;
        let mut isnt = false;
        run17(cap, &toks, wk, buf, |s| {
            h = hstr(h, s);
            isnt = isnt || nontriv17(s);
        });
        sw.cnt += 1;
        if isnt {
            sw.nt += 1;
        }
        sw.sum = (sw.sum + h) & MASK;
        if ops.len() < maxlen {
            for o in ops17(alive) {
                let mut a2 = alive.to_vec();
                track17(&mut a2, &o);
                ops.push(o);
                go(cap, ops, &a2, maxlen, wk, sw, buf);
                ops.pop();
            }
        }
    }
    let mut buf = String::new();
    go(cap, &mut ops, &alive, maxlen, wk, &mut sw, &mut buf);
    format!("n={} nt={} h={:x}", sw.cnt, sw.nt, sw.sum)
}

// ---- C17: local_waker::LocalWaker ------------------------------------------------------------
fn lw(line: &str, wk: &mut Wakers) -> String {
    let l = LocalWaker::new();
    let mut out = String::new();
    for (k, t) in line.split_whitespace().enumerate() {
        if k > 0 {
            out.push(' ');
        }
        wk.mark();
        match t.as_bytes()[0] {
            b'r' => {
                let was = l.register(wk.get(num(t)));
                out.push_str(if was { "R1" } else { "R0" });
            }
            b'w' => {
                l.wake();
                out.push('W');
            }
            b't' => match l.take() {
                None => out.push_str("T-"),
                Some(w) => match wk.id_of(&w) {
                    Some(i) => write!(out, "T{}", i).unwrap(),
                    None => out.push_str("T?"),
                },
            },
            _ => panic!("bad op {t}"),
        }
        wk.wakes_since(&mut out);
    }
    out
}

fn main() {
    let mode = std::env::args().nth(1).expect("mode");
    let f: fn(&str, &mut Wakers) -> String = match mode.as_str() {
        "c16" => c16,
        "c16sink" => c16sink,
        "sweep16" => sweep16,
        "c17" => c17,
        "sweep17" => sweep17,
        "lw" => lw,
        m => panic!("unknown mode {m}"),
    };
    std::panic::set_hook(Box::new(|_| {}));
    let stdin = io::stdin();
    let stdout = io::stdout();
    let mut out = io::BufWriter::new(stdout.lock());
    for line in stdin.lock().lines() {
        let line = line.unwrap();
        let r = std::panic::catch_unwind(|| {
            let mut wk = Wakers::new();
            f(&line, &mut wk)
        })
        .unwrap_or_else(|_| "PANIC".to_string());
        writeln!(out, "{}", r).unwrap();
    }
}
