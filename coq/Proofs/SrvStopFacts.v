(* Proofs/SrvStopFacts.v — invariants of Model/SrvStop.v (server level of C06). *)
From AN Require Import Model.SrvStop.
Import ListNotations.

Ltac inv H := inversion H; subst; clear H.

(* ======================================================================================== *)
(* join_all                                                                                  *)
(* ======================================================================================== *)

Definition ack_result (a : wack) : jres :=
  match a with WPending => None | WAcked b => Some (Some b) | WDropped => Some None end.

Lemma join_poll_length : forall res aks i res' o,
  join_poll i res aks = (res', o) -> length res' = length res.
Proof.
  induction res as [|r rt IH]; intros aks i res' o H; cbn [join_poll] in H.
  - inv H. reflexivity.
  - destruct aks as [|a at_]; [inv H; reflexivity|].
    destruct (join_poll (S i) rt at_) as [rt' o'] eqn:E. apply IH in E.
    destruct r; [|destruct a]; inv H; cbn [length]; now rewrite E.
Qed.

(* an input that holds its result keeps it; a Future takes the worker's acknowledgement *)
Lemma join_poll_res : forall res aks i res' o,
  join_poll i res aks = (res', o) ->
  forall j r a, nth_error res j = Some r -> nth_error aks j = Some a ->
  nth_error res' j = Some (match r with Some x => Some x | None => ack_result a end).
Proof.
  induction res as [|r0 rt IH]; intros aks i res' o H j r a Hr Ha.
  - destruct j; discriminate.
  - destruct aks as [|a0 at_]; [destruct j; discriminate|]. cbn [join_poll] in H.
    destruct (join_poll (S i) rt at_) as [rt' o'] eqn:E.
    destruct j as [|j]; cbn [nth_error] in *.
    + inv Hr. inv Ha. destruct r; [|destruct a]; inv H; reflexivity.
    + assert (K : nth_error rt' j = Some (match r with Some x => Some x | None => ack_result a end)).
      { eapply IH; eauto. }
      destruct r0; [|destruct a0]; inv H; exact K.
Qed.

(* only inputs that are still Futures are polled ("never after completion"), each reports the
   readiness of its own worker's acknowledgement *)
Lemma join_poll_polled : forall res aks i res' o,
  join_poll i res aks = (res', o) ->
  forall m rdy, In (OJoinPolled m rdy) o ->
  exists j a, m = i + j /\ nth_error res j = Some None /\ nth_error aks j = Some a
              /\ rdy = match a with WPending => false | _ => true end.
Proof.
  induction res as [|r0 rt IH]; intros aks i res' o H m rdy Hin; cbn [join_poll] in H.
  - inv H. contradiction.
  - destruct aks as [|a0 at_]; [inv H; contradiction|].
    destruct (join_poll (S i) rt at_) as [rt' o'] eqn:E.
    assert (T : In (OJoinPolled m rdy) o' ->
                exists j a, m = i + j /\ nth_error (r0 :: rt) j = Some None
                            /\ nth_error (a0 :: at_) j = Some a
                            /\ rdy = match a with WPending => false | _ => true end).
    { intros X. destruct (IH _ _ _ _ E _ _ X) as (j & a & -> & H1 & H2 & H3).
      exists (S j), a. repeat split; auto. lia. }
    destruct r0 as [x|].
    + inv H. auto.
    + destruct a0; inv H;
        (destruct Hin as [Hin|Hin];
         [inv Hin; exists 0; eexists; repeat split; try reflexivity; lia | auto]).
Qed.

(* join_results: ready iff every input holds a result; results in input order *)
Lemma join_results_some : forall res l,
  join_results res = Some l <-> res = map Some l.
Proof.
  induction res as [|r rt IH]; intros l; cbn [join_results].
  - split; intros H.
    + inv H. reflexivity.
    + destruct l; [reflexivity|discriminate].
  - destruct r as [x|].
    + destruct (join_results rt) as [l'|] eqn:E.
      * split; intros H.
        -- inv H. cbn. f_equal. now apply IH.
        -- destruct l as [|y l2]; [discriminate|]. cbn in H. inv H.
           f_equal. f_equal. symmetry. assert (X : Some l' = Some l2) by (apply IH; reflexivity).
           now inv X.
      * split; intros H; [discriminate|].
        destruct l as [|y l2]; [discriminate|]. cbn in H. inv H.
        assert (X : None = Some l2) by (apply IH; reflexivity). discriminate.
    + split; intros H; [discriminate|]. destruct l; discriminate.
Qed.

Lemma join_results_none : forall res,
  join_results res = None <-> In None res.
Proof.
  induction res as [|r rt IH]; cbn [join_results].
  - split; [discriminate|contradiction].
  - destruct r as [x|].
    + destruct (join_results rt) as [l'|] eqn:E.
      * split; [discriminate|]. intros [X|X]; [discriminate|]. apply IH in X. discriminate.
      * split; auto. intros _. right. now apply IH.
    + split; auto. intros _. now left.
Qed.

(* ======================================================================================== *)
(* the order of the stop sequence, as an invariant                                           *)
(* ======================================================================================== *)

Definition is_core (e : sobs) : bool :=
  match e with
  | OWakeStop | OWorkerStop _ _ | OJoinDone _ | OJoinAccept | OCompletion _ | OSystemStop | OServerDone => true
  | _ => false
  end.

Definition erase (e : sobs) : sobs := match e with OJoinDone _ => OJoinDone [] | x => x end.

Definition core (tr : list sobs) : list sobs := map erase (filter is_core tr).

Definition stop_events (W : nat) (c : stopcmd) : list sobs :=
  OWakeStop :: map (fun i => OWorkerStop i (sc_graceful c)) (seq 0 W).
Definition joined (c : stopcmd) : list sobs := if sc_graceful c then [OJoinDone []] else [].
Definition compl (c : stopcmd) : list sobs :=
  match sc_completion c with Some n => [OCompletion n] | None => [] end.
Definition sysstop (cf : scfg) (c : stopcmd) : list sobs :=
  if s_system_exit cf || sc_force c then [OSystemStop] else [].

(* what has happened so far, as a function of the control state: wake the accept loop with Stop,
   one stop per worker handle (in order), join_all done (iff graceful), accept thread joined,
   completion signalled, System::stop (iff requested), command loop ended *)
Definition shape (cf : scfg) (x : sctl) : list sobs :=
  let W := s_workers cf in
  match x with
  | SIdle => []
  | SJoinAll c _ => stop_events W c
  | SJoinAccept c => stop_events W c ++ joined c
  | SSleep c => stop_events W c ++ joined c ++ OJoinAccept :: compl c
  | SDone c => stop_events W c ++ joined c ++ OJoinAccept :: compl c ++ sysstop cf c ++ [OServerDone]
  end.

Definition cur_cmd (x : sctl) : option stopcmd :=
  match x with SJoinAll c _ | SJoinAccept c => Some c | _ => None end.

Definition owes (s : sst) (n : nat) : Prop :=
  (exists c, In (CStop c) (cmdq s) /\ sc_completion c = Some n)
  \/ (exists c, cur_cmd (ctl s) = Some c /\ sc_completion c = Some n).

Definition past_join (x : sctl) (c : stopcmd) : Prop := x = SJoinAccept c \/ x = SSleep c \/ x = SDone c.

Record SInv (cf : scfg) (s : sst) (tr : list sobs) : Prop := mkSInv {
  si_shape : core tr = shape cf (ctl s);
  si_acks : ctl s <> SIdle -> length (acks s) = s_workers cf;
  si_join : forall c res, ctl s = SJoinAll c res ->
      sc_graceful c = true /\ length res = s_workers cf
      /\ (forall j x, nth_error res j = Some (Some x) ->
            exists a, nth_error (acks s) j = Some a /\ a <> WPending);
  si_waited : forall c, past_join (ctl s) c -> sc_graceful c = true ->
      Forall (fun a => a <> WPending) (acks s);
  si_accept : forall c, ctl s = SSleep c \/ ctl s = SDone c -> accept_exited s = true;
  si_sleep : forall c, ctl s = SSleep c -> s_system_exit cf || sc_force c = true;
  si_resolved : forall n, n < next_stop s -> In (OResolved n) tr \/ owes s n;
  si_done : forall c, ctl s = SDone c -> cmdq s = [];
  si_ids : forall c n, In (CStop c) (cmdq s) \/ cur_cmd (ctl s) = Some c ->
      sc_completion c = Some n -> n < next_stop s }.

Lemma core_app : forall a b, core (a ++ b) = core a ++ core b.
Proof. intros. unfold core. now rewrite filter_app, map_app. Qed.

Lemma core_stop_events : forall W c, core (stop_events W c) = stop_events W c.
Proof.
  intros W c. unfold stop_events, core. cbn [filter is_core map erase]. f_equal.
  induction (seq 0 W) as [|i t IH]; cbn; auto. now rewrite IH.
Qed.

Lemma core_dropped : forall q, core (dropped_obs q) = [].
Proof.
  induction q as [|x t IH]; auto. unfold dropped_obs in *. cbn [flat_map].
  rewrite core_app, IH, app_nil_r. destruct x as [c|]; auto. destruct (sc_completion c); reflexivity.
Qed.

Lemma core_completion : forall c, core (completion_obs c) = compl c.
Proof. intros c. unfold completion_obs, compl. destruct (sc_completion c); reflexivity. Qed.

Lemma core_polled : forall res aks i res' o, join_poll i res aks = (res', o) -> core o = [].
Proof.
  induction res as [|r rt IH]; intros aks i res' o H; cbn [join_poll] in H.
  - inv H. reflexivity.
  - destruct aks as [|a at_]; [inv H; reflexivity|].
    destruct (join_poll (S i) rt at_) as [rt' o'] eqn:E. apply IH in E.
    destruct r; [|destruct a]; inv H; auto.
Qed.

Lemma dropped_resolves : forall q c n, In (CStop c) q -> sc_completion c = Some n ->
  In (OResolved n) (dropped_obs q).
Proof.
  intros q c n Hin Hc. unfold dropped_obs. apply in_flat_map. exists (CStop c). split; auto.
  rewrite Hc. now left.
Qed.

Lemma set_nth_length : forall A (l : list A) i x, length (set_nth i x l) = length l.
Proof. induction l; destruct i; cbn; auto. Qed.

Lemma nth_error_set_nth : forall A (l : list A) i j x,
  nth_error (set_nth i x l) j = if Nat.eqb i j then (match nth_error l j with Some _ => Some x | None => None end) else nth_error l j.
Proof.
  induction l as [|y t IH]; intros i j x.
  - destruct i, j; cbn; try reflexivity; destruct (Nat.eqb i j); reflexivity.
  - destruct i, j; cbn; auto.
Qed.

Lemma resolve_ack_length : forall i x l, length (resolve_ack i x l) = length l.
Proof.
  intros. unfold resolve_ack. destruct (nth_error l i) as [[| |]|]; auto. apply set_nth_length.
Qed.

(* an acknowledgement, once given, stays *)
Lemma resolve_ack_keeps : forall i x l j a, x <> WPending ->
  nth_error l j = Some a -> a <> WPending ->
  exists a', nth_error (resolve_ack i x l) j = Some a' /\ a' <> WPending.
Proof.
  intros i x l j a Hx Hn Ha. unfold resolve_ack.
  destruct (nth_error l i) as [[| |]|] eqn:E; eauto.
  rewrite nth_error_set_nth. destruct (Nat.eqb i j) eqn:Eij.
  - rewrite Hn. eauto.
  - eauto.
Qed.

Lemma resolve_ack_Forall : forall i x l, x <> WPending ->
  Forall (fun a => a <> WPending) l -> Forall (fun a => a <> WPending) (resolve_ack i x l).
Proof.
  intros i x l Hx H. unfold resolve_ack. destruct (nth_error l i) as [[| |]|] eqn:E; auto.
  apply nth_error_In in E. rewrite Forall_forall in H. apply H in E. congruence.
Qed.

Lemma sinit_inv : forall cf, SInv cf sinit [].
Proof.
  intros cf. constructor; cbn.
  - reflexivity.
  - intros X; exfalso; apply X; reflexivity.
  - intros c res X; discriminate.
  - intros c [X|[X|X]]; discriminate.
  - intros c [X|X]; discriminate.
  - intros c X; discriminate.
  - intros n Hn; lia.
  - intros c X; discriminate.
  - intros c n [[]|X]; discriminate.
Qed.

Ltac ssel := cbn [ctl cmdq sigs sig_armed acks accept_exited timer_fired next_stop
                  set_ctl set_cmdq set_acks fst snd] in *.

Lemma in_or_resolved : forall tr l n, In (OResolved n) tr -> In (OResolved n) (tr ++ l).
Proof. intros. apply in_or_app. auto. Qed.

(* dispatching a Stop command *)
Lemma handle_stop_inv : forall cf s tr c s1 o,
  ctl s = SIdle -> core tr = [] ->
  (forall n, n < next_stop s -> In (OResolved n) tr \/ owes s n \/ sc_completion c = Some n) ->
  (forall c' n, In (CStop c') (cmdq s) \/ c' = c -> sc_completion c' = Some n -> n < next_stop s) ->
  handle_stop (s_workers cf) s c = (s1, o) ->
  SInv cf s1 (tr ++ o).
Proof.
  intros cf s tr c s1 o Ec Ht Hr Hi H. unfold handle_stop in H. inv H.
  assert (LP : forall j, nth_error (repeat (@None (option bool)) (s_workers cf)) j <> Some (Some None)
                         /\ forall b, nth_error (repeat (@None (option bool)) (s_workers cf)) j <> Some (Some (Some b))).
  { intros j. split; [|intros b]; intros X; apply nth_error_In in X; apply repeat_spec in X; discriminate. }
  constructor; ssel.
  - rewrite core_app, Ht. cbn [app].
    change (OWakeStop :: map (fun i => OWorkerStop i (sc_graceful c)) (seq 0 (s_workers cf)))
      with (stop_events (s_workers cf) c).
    rewrite core_stop_events. destruct (sc_graceful c) eqn:G; cbn [shape]; unfold joined;
      rewrite ?G, ?app_nil_r; reflexivity.
  - intros _. apply repeat_length.
  - intros c0 res E. destruct (sc_graceful c) eqn:G; inv E. repeat split; auto.
    + apply repeat_length.
    + intros j x X. exfalso. destruct x as [b|]; [eapply (proj2 (LP j)); eauto|eapply (proj1 (LP j)); eauto].
  - intros c0 P G. destruct (sc_graceful c) eqn:G0.
    + destruct P as [X|[X|X]]; discriminate.
    + destruct P as [X|[X|X]]; inv X. congruence.
  - intros c0 [X|X]; destruct (sc_graceful c); discriminate.
  - intros c0 X; destruct (sc_graceful c); discriminate.
  - intros n Hn. destruct (Hr n Hn) as [X|[X|X]].
    + left. now apply in_or_resolved.
    + right. destruct X as [(c' & Hin & Hc)|(c' & Hcur & _)].
      * left. eauto.
      * rewrite Ec in Hcur. discriminate.
    + right. right. exists c. split; auto. destruct (sc_graceful c); reflexivity.
  - intros c0 X; destruct (sc_graceful c); discriminate.
  - intros c' n [X|X] Hc.
    + apply (Hi c' n); auto.
    + apply (Hi c' n); auto. right. destruct (sc_graceful c); cbn in X; now inv X.
Qed.

Lemma finish_inv : forall cf s tr c pre,
  SInv cf s tr ->
  (forall n, n < next_stop s -> In (OResolved n) (tr ++ pre) \/
             (exists c', In (CStop c') (cmdq s) /\ sc_completion c' = Some n)) ->
  core (tr ++ pre) = stop_events (s_workers cf) c ++ joined c ++ OJoinAccept :: compl c ++ sysstop cf c ->
  (sc_graceful c = true -> Forall (fun a => a <> WPending) (acks s)) ->
  accept_exited s = true -> ctl s <> SIdle ->
  SInv cf (fst (finish_srv s c)) (tr ++ pre ++ snd (finish_srv s c)).
Proof.
  intros cf s tr c pre I0 Hr Hc Hw Ha Hni. unfold finish_srv. ssel.
  constructor; ssel.
  - rewrite app_assoc, core_app, Hc.
    change (core (OServerDone :: dropped_obs (cmdq s))) with (OServerDone :: core (dropped_obs (cmdq s))).
    rewrite core_dropped. cbn [shape]. rewrite <- !app_assoc. cbn [app].
    rewrite <- !app_assoc. reflexivity.
  - intros _. now apply (si_acks _ _ _ I0).
  - intros c0 res X; discriminate.
  - intros c0 [X|[X|X]] G; inv X. auto.
  - auto.
  - intros c0 X; discriminate.
  - intros n Hn. left. destruct (Hr n Hn) as [X|(c' & Hin & Hcc)].
    + rewrite app_assoc. now apply in_or_resolved.
    + apply in_or_app. right. apply in_or_app. right. right. eapply dropped_resolves; eauto.
  - reflexivity.
  - intros c' n [[]|X]; discriminate.
Qed.

Lemma owes_mono_cmdq : forall s s' n,
  ctl s' = ctl s -> (forall x, In x (cmdq s) -> In x (cmdq s')) -> owes s n -> owes s' n.
Proof.
  intros s s' n Ec Hq [(c & Hin & Hc)|(c & Hcur & Hc)].
  - left. eauto.
  - right. exists c. rewrite Ec. auto.
Qed.

Lemma all_resolved : forall (res : list jres) (aks : list wack) l,
  length res = length aks ->
  (forall j x, nth_error res j = Some (Some x) -> exists a, nth_error aks j = Some a /\ a <> WPending) ->
  join_results res = Some l -> Forall (fun a => a <> WPending) aks.
Proof.
  intros res aks l Len Pt El. apply Forall_forall. intros a Hin.
  apply In_nth_error in Hin. destruct Hin as [j Hj].
  assert (Hjl : j < length res). { rewrite Len. apply nth_error_Some. congruence. }
  destruct (nth_error res j) as [r|] eqn:Er; [|apply nth_error_None in Er; lia].
  destruct r as [x|].
  - destruct (Pt _ _ Er) as (a' & Ha' & Hne). congruence.
  - exfalso. apply nth_error_In in Er. apply join_results_none in Er. congruence.
Qed.

Lemma spoll_inv : forall cf s tr, SInv cf s tr ->
  SInv cf (fst (spoll cf s)) (tr ++ snd (spoll cf s)).
Proof.
  intros cf s tr I0. pose proof I0 as [Sh Ak Jn Wt Ac Sl Rs Dn Ids]. unfold spoll.
  destruct (ctl s) as [|c res|c|c|c] eqn:Ec.
  - (* Idle: next event of the multiplexer *)
    cbn [shape] in Sh.
    destruct (if sig_armed s then pick_signal (sigs s) else None) as [k|] eqn:Es.
    + (* a signal: map_signal, no completion sender *)
      destruct (handle_stop (s_workers cf) _ (map_signal k)) as [s1 o] eqn:Eh. cbn [fst snd].
      eapply handle_stop_inv; [| |  | |exact Eh]; ssel; auto.
      * intros n Hn. destruct (Rs n Hn) as [X|X]; auto. right. left.
        destruct X as [(c' & Hin & Hc)|(c' & Hcur & _)].
        -- left. eauto.
        -- rewrite Ec in Hcur. discriminate.
      * intros c' n [X|X] Hc; [eapply Ids; eauto|]. subst c'. destruct k; discriminate.
    + destruct (cmdq s) as [|[c|] q] eqn:Eq.
      * cbn [fst snd]. now rewrite app_nil_r.
      * destruct (handle_stop (s_workers cf) (set_cmdq s q) c) as [s1 o] eqn:Eh. cbn [fst snd].
        eapply handle_stop_inv; [| | | |exact Eh]; ssel; auto.
        -- intros n Hn. destruct (Rs n Hn) as [X|X]; auto.
           destruct X as [(c' & Hin & Hc)|(c' & Hcur & _)].
           ++ rewrite ?Eq in Hin. destruct Hin as [Hin|Hin].
              ** inv Hin. auto.
              ** right. left. left. eauto.
           ++ rewrite Ec in Hcur. discriminate.
        -- intros c' n [X|X] Hc; (apply (Ids c' n); [left; rewrite ?Eq|exact Hc]); [now right|left; now subst].
      * cbn [fst snd]. constructor; ssel.
        -- rewrite core_app, Sh, ?Ec. reflexivity.
        -- intros X; exfalso; apply X; exact Ec.
        -- intros c0 res0 X; rewrite Ec in X; discriminate.
        -- intros c0 [X|[X|X]]; rewrite Ec in X; discriminate.
        -- intros c0 [X|X]; rewrite Ec in X; discriminate.
        -- intros c0 X; rewrite Ec in X; discriminate.
        -- intros n Hn. destruct (Rs n Hn) as [X|X]; [left; now apply in_or_resolved|right].
           destruct X as [(c' & Hin & Hc)|(c' & Hcur & _)].
           ++ left. exists c'. split; auto. rewrite ?Eq in Hin. destruct Hin as [Hin|Hin]; [discriminate|auto].
           ++ rewrite ?Ec in Hcur. discriminate.
        -- intros c0 X; rewrite Ec in X; discriminate.
        -- intros c' n [X|X] Hc; [|rewrite Ec in X; discriminate].
           apply (Ids c' n); auto. left. rewrite ?Eq. now right.
  - (* join_all is polled once *)
    destruct (Jn c res eq_refl) as (G & Lr & Jr).
    assert (La : length (acks s) = s_workers cf) by (apply Ak; discriminate).
    destruct (join_poll 0 res (acks s)) as [res' o] eqn:Ej.
    pose proof (join_poll_length _ _ _ _ _ Ej) as Ll. pose proof (core_polled _ _ _ _ _ Ej) as Co.
    assert (Pt : forall j x, nth_error res' j = Some (Some x) ->
                 exists a, nth_error (acks s) j = Some a /\ a <> WPending).
    { intros j x Hx.
      destruct (nth_error res j) as [r|] eqn:Er.
      2:{ apply nth_error_None in Er. assert (Hs : nth_error res' j <> None) by congruence.
          apply nth_error_Some in Hs. lia. }
      destruct (nth_error (acks s) j) as [a|] eqn:Ea.
      2:{ apply nth_error_None in Ea. assert (Hs : nth_error res j <> None) by congruence.
          apply nth_error_Some in Hs. lia. }
      pose proof (join_poll_res _ _ _ _ _ Ej j r a Er Ea) as E. rewrite E in Hx.
      destruct r as [y|].
      - inv Hx. destruct (Jr _ _ Er) as (a' & Ha' & Hne). rewrite Ea in Ha'. inv Ha'. eauto.
      - exists a. split; auto. intros ->. discriminate. }
    assert (RS : forall x, In (OResolved x) tr \/ owes s x ->
                 forall s', ctl s' = SJoinAll c res' \/ ctl s' = SJoinAccept c -> cmdq s' = cmdq s ->
                 forall l0, In (OResolved x) (tr ++ l0) \/ owes s' x).
    { intros x [X|X] s' Hc' Hq l0; [left; now apply in_or_resolved|right].
      destruct X as [(c' & Hin & Hc)|(c' & Hcur & Hc)].
      - left. exists c'. rewrite Hq. auto.
      - right. exists c'. rewrite Ec in Hcur. cbn in Hcur. inv Hcur.
        destruct Hc' as [-> | ->]; auto. }
    destruct (join_results res') as [l|] eqn:El; cbn [fst snd].
    + constructor; ssel.
      * rewrite app_assoc, !core_app, Sh, Co, app_nil_r. cbn [shape]. unfold joined. rewrite G. reflexivity.
      * intros _. exact La.
      * intros c0 res0 X; discriminate.
      * intros c0 P _. eapply all_resolved; eauto. congruence.
      * intros c0 [X|X]; discriminate.
      * intros c0 X; discriminate.
      * intros n Hn. apply RS; auto.
      * intros c0 X; discriminate.
      * intros c' n [X|X] Hc; apply (Ids c' n); auto; right; rewrite ?Ec; exact X.
    + constructor; ssel.
      * rewrite core_app, Sh, Co, app_nil_r. reflexivity.
      * intros _. exact La.
      * intros c0 res0 X. inv X. repeat split; auto. congruence.
      * intros c0 [X|[X|X]]; discriminate.
      * intros c0 [X|X]; discriminate.
      * intros c0 X; discriminate.
      * intros n Hn. apply RS; auto.
      * intros c0 X; discriminate.
      * intros c' n [X|X] Hc; apply (Ids c' n); auto; right; rewrite ?Ec; exact X.
  - (* thread::join of the accept thread, completion, (System::stop | finish) *)
    destruct (accept_exited s) eqn:Ea; [|cbn [fst snd]; now rewrite app_nil_r].
    assert (Rs' : forall n, n < next_stop s -> In (OResolved n) (tr ++ OJoinAccept :: completion_obs c) \/
                  (exists c', In (CStop c') (cmdq s) /\ sc_completion c' = Some n)).
    { intros n Hn. destruct (Rs n Hn) as [X|[X|(c' & Hcur & Hc)]]; auto.
      - left. now apply in_or_resolved.
      - left. rewrite Ec in Hcur. inv Hcur. apply in_or_app. right. right.
        unfold completion_obs. rewrite Hc. right. now left. }
    destruct (s_system_exit cf || sc_force c) eqn:Esys; cbn [fst snd].
    + constructor; ssel.
      * rewrite core_app, Sh. cbn [shape]. rewrite <- app_assoc. f_equal. f_equal.
        change (core (OJoinAccept :: completion_obs c)) with (OJoinAccept :: core (completion_obs c)).
        now rewrite core_completion.
      * intros _. apply Ak. rewrite ?Ec. discriminate.
      * intros c0 res0 X; discriminate.
      * intros c0 [X|[X|X]] G; inv X. apply (Wt c0); auto. left. rewrite ?Ec. reflexivity.
      * intros c0 _. exact Ea.
      * intros c0 X. inv X. exact Esys.
      * intros n Hn. destruct (Rs' n Hn) as [X|X]; auto. right. left. exact X.
      * intros c0 X; discriminate.
      * intros c' n [X|X] Hc; [|discriminate]. apply (Ids c' n); auto.
    + pose proof (finish_inv cf s tr c (OJoinAccept :: completion_obs c) I0 Rs') as K.
      unfold finish_srv in *. cbn [fst snd app] in *. apply K.
      * rewrite core_app, Sh. cbn [shape]. rewrite <- app_assoc. f_equal. f_equal.
        change (core (OJoinAccept :: completion_obs c)) with (OJoinAccept :: core (completion_obs c)).
        rewrite core_completion. unfold sysstop. rewrite Esys. now rewrite app_nil_r.
      * intros G. apply (Wt c); auto. left. reflexivity.
      * exact Ea.
      * rewrite Ec. discriminate.
  - (* the 300 ms sleep, then System::stop and the loop ends *)
    destruct (timer_fired s) eqn:Et; [|cbn [fst snd]; now rewrite app_nil_r].
    assert (Rs' : forall n, n < next_stop s -> In (OResolved n) (tr ++ [OSystemStop]) \/
                  (exists c', In (CStop c') (cmdq s) /\ sc_completion c' = Some n)).
    { intros n Hn. destruct (Rs n Hn) as [X|[X|(c' & Hcur & Hc)]]; auto.
      - left. now apply in_or_resolved.
      - rewrite Ec in Hcur. discriminate. }
    pose proof (finish_inv cf s tr c [OSystemStop] I0 Rs') as K.
    unfold finish_srv in *. cbn [fst snd app] in *. apply K.
    + rewrite core_app, Sh. cbn [shape]. rewrite <- !app_assoc. f_equal. f_equal.
      cbn [app]. f_equal. f_equal. unfold sysstop. rewrite (Sl c eq_refl). reflexivity.
    + intros G. apply (Wt c); auto. right. left. reflexivity.
    + apply (Ac c). left. reflexivity.
    + rewrite Ec. discriminate.
  - cbn [fst snd]. now rewrite app_nil_r.
Qed.

(* environment steps only add: commands, acknowledgements, flags *)
Lemma sinv_frame : forall cf s s' tr l,
  SInv cf s tr ->
  ctl s' = ctl s -> core l = [] ->
  length (acks s') = length (acks s) ->
  (forall j a, nth_error (acks s) j = Some a -> a <> WPending ->
     exists a', nth_error (acks s') j = Some a' /\ a' <> WPending) ->
  (accept_exited s = true -> accept_exited s' = true) ->
  (forall x, In x (cmdq s) -> In x (cmdq s')) ->
  (forall c, ctl s = SDone c -> cmdq s' = []) ->
  next_stop s <= next_stop s' ->
  (forall n, next_stop s <= n < next_stop s' -> In (OResolved n) l \/ owes s' n) ->
  (forall c n, In (CStop c) (cmdq s') -> ~ In (CStop c) (cmdq s) -> sc_completion c = Some n ->
     n < next_stop s') ->
  SInv cf s' (tr ++ l).
Proof.
  intros cf s s' tr l [Sh Ak Jn Wt Ac Sl Rs Dn Ids] Ec Cl La Pa Hacc Hq Hd Hn Hnew Hid.
  assert (FA : Forall (fun a => a <> WPending) (acks s) -> Forall (fun a => a <> WPending) (acks s')).
  { intros F. apply Forall_forall. intros a' Hin. apply In_nth_error in Hin. destruct Hin as [j Hj].
    assert (Hjl : j < length (acks s)). { rewrite <- La. apply nth_error_Some. congruence. }
    destruct (nth_error (acks s) j) as [a|] eqn:Ea; [|apply nth_error_None in Ea; lia].
    rewrite Forall_forall in F. pose proof (F a (nth_error_In _ _ Ea)) as Hne.
    destruct (Pa _ _ Ea Hne) as (a2 & Ha2 & Hne2). congruence. }
  constructor; rewrite ?Ec.
  - rewrite core_app, Sh, Cl, app_nil_r. reflexivity.
  - intros X. rewrite La. auto.
  - intros c res E. destruct (Jn c res E) as (G & Lr & Jr). repeat split; auto.
    intros j x Hx. destruct (Jr j x Hx) as (a & Ha & Hne). eauto.
  - intros c P G. apply FA. eauto.
  - intros c X. apply Hacc. eauto.
  - auto.
  - intros n Hlt. destruct (Nat.lt_ge_cases n (next_stop s)) as [Lt|Ge].
    + destruct (Rs n Lt) as [X|X]; [left; now apply in_or_resolved|right].
      eapply owes_mono_cmdq; eauto.
    + destruct (Hnew n (conj Ge Hlt)) as [X|X]; auto. left. apply in_or_app. auto.
  - intros c E. eauto.
  - intros c n [X|X] Hc.
    + destruct (in_dec (fun a b : cmd => ltac:(decide equality; decide equality; try apply Bool.bool_dec; try (decide equality; apply Nat.eq_dec)) : {a = b} + {a <> b}) (CStop c) (cmdq s)) as [Y|N].
      * assert (n < next_stop s) by (eapply Ids; eauto). lia.
      * eapply Hid; eauto.
    + assert (n < next_stop s) by (eapply Ids; eauto). lia.
Qed.

Lemma is_done_true : forall x, is_done x = true -> exists c, x = SDone c.
Proof. destruct x; try discriminate. eauto. Qed.

Lemma is_done_false : forall x c, is_done x = false -> x <> SDone c.
Proof. destruct x; try discriminate; intros; discriminate. Qed.

Lemma srv_step_inv : forall cf s tr o, SInv cf s tr ->
  SInv cf (fst (srv_step cf s o)) (tr ++ snd (srv_step cf s o)).
Proof.
  intros cf s tr o I0. destruct o; try (cbn [srv_step]; now apply spoll_inv); cbn [srv_step].
  - (* UStop: the command is sent eagerly; after the loop ended the send fails *)
    destruct (is_done (ctl s)) eqn:D; cbn [fst snd].
    + apply is_done_true in D. destruct D as [c Ec].
      eapply sinv_frame; [exact I0|reflexivity|reflexivity|reflexivity| | | | | | | ]; cbn.
      * intros j a Ha Hne. eauto.
      * auto.
      * auto.
      * intros c0 _. apply (si_done _ _ _ I0 c). exact Ec.
      * lia.
      * intros n Hn. assert (n = next_stop s) by lia. subst. left. now left.
      * intros c0 n X N. contradiction.
    + eapply sinv_frame; [exact I0|reflexivity|reflexivity|reflexivity| | | | | | | ]; cbn.
      * intros j a Ha Hne. eauto.
      * auto.
      * intros x Hx. apply in_or_app. auto.
      * intros c0 X. exfalso. eapply is_done_false; eauto.
      * lia.
      * intros n Hn. assert (n = next_stop s) by lia. subst. right. left.
        eexists. split; [apply in_or_app; right; left; reflexivity|reflexivity].
      * intros c0 n X N Hc. apply in_app_or in X. destruct X as [X|[X|[]]]; [contradiction|].
        inv X. cbn in Hc. inv Hc. lia.
  - (* UOther *)
    destruct (is_done (ctl s)) eqn:D; cbn [fst snd].
    + rewrite app_nil_r. exact I0.
    + eapply sinv_frame; [exact I0|reflexivity|reflexivity|reflexivity| | | | | | | ]; cbn.
      * intros j a Ha Hne. eauto.
      * auto.
      * intros x Hx. apply in_or_app. auto.
      * intros c0 X. exfalso. eapply is_done_false; eauto.
      * lia.
      * intros n Hn. lia.
      * intros c0 n X N Hc. apply in_app_or in X. destruct X as [X|[X|[]]]; [contradiction|discriminate].
  - (* USignal *)
    cbn [fst snd]. eapply sinv_frame; [exact I0|reflexivity|reflexivity|reflexivity| | | | | | | ]; cbn.
    + intros j a Ha Hne. eauto.
    + auto.
    + auto.
    + intros c E. eapply si_done; eauto.
    + lia.
    + intros n Hn. lia.
    + intros c n X N. contradiction.
  - (* WAck *)
    cbn [fst snd]. eapply sinv_frame; [exact I0|reflexivity|reflexivity| | | | | | | | ]; cbn.
    + apply resolve_ack_length.
    + intros j a Ha Hne. eapply resolve_ack_keeps; eauto. discriminate.
    + auto.
    + auto.
    + intros c E. eapply si_done; eauto.
    + lia.
    + intros n Hn. lia.
    + intros c n X N. contradiction.
  - (* WDrop *)
    cbn [fst snd]. eapply sinv_frame; [exact I0|reflexivity|reflexivity| | | | | | | | ]; cbn.
    + apply resolve_ack_length.
    + intros j a Ha Hne. eapply resolve_ack_keeps; eauto. discriminate.
    + auto.
    + auto.
    + intros c E. eapply si_done; eauto.
    + lia.
    + intros n Hn. lia.
    + intros c n X N. contradiction.
  - (* AcceptExit *)
    cbn [fst snd]. eapply sinv_frame; [exact I0|reflexivity|reflexivity|reflexivity| | | | | | | ]; cbn.
    + intros j a Ha Hne. eauto.
    + auto.
    + auto.
    + intros c E. eapply si_done; eauto.
    + lia.
    + intros n Hn. lia.
    + intros c n X N. contradiction.
  - (* TimerFire *)
    cbn [fst snd]. eapply sinv_frame; [exact I0|reflexivity|reflexivity|reflexivity| | | | | | | ]; cbn.
    + intros j a Ha Hne. eauto.
    + auto.
    + auto.
    + intros c E. eapply si_done; eauto.
    + lia.
    + intros n Hn. lia.
    + intros c n X N. contradiction.
Qed.

Lemma srv_run_inv : forall cf ops s tr, SInv cf s tr ->
  SInv cf (fst (srv_run cf s ops)) (tr ++ snd (srv_run cf s ops)).
Proof.
  intros cf. induction ops as [|o t IH]; intros s tr I0; cbn [srv_run].
  - cbn. now rewrite app_nil_r.
  - pose proof (srv_step_inv cf s tr o I0) as I1.
    destruct (srv_step cf s o) as [s1 l]. cbn [fst snd] in I1.
    specialize (IH s1 (tr ++ l) I1). destruct (srv_run cf s1 t) as [s2 l2]. cbn [fst snd] in *.
    now rewrite app_assoc.
Qed.

Theorem srv_reachable : forall cf ops, SInv cf (srv_final cf ops) (srv_trace cf ops).
Proof. intros. unfold srv_final, srv_trace. apply (srv_run_inv cf ops sinit []). apply sinit_inv. Qed.

(* the order of the stop sequence *)
Theorem server_order : forall cf ops, core (srv_trace cf ops) = shape cf (ctl (srv_final cf ops)).
Proof. intros. apply (si_shape _ _ _ (srv_reachable cf ops)). Qed.

(* graceful: join_all was awaited — every worker had acknowledged (or dropped its sender) *)
Theorem server_graceful_waits : forall cf ops c,
  past_join (ctl (srv_final cf ops)) c -> sc_graceful c = true ->
  length (acks (srv_final cf ops)) = s_workers cf
  /\ Forall (fun a => a <> WPending) (acks (srv_final cf ops)).
Proof.
  intros cf ops c P G. pose proof (srv_reachable cf ops) as I0. split.
  - apply (si_acks _ _ _ I0). destruct P as [X|[X|X]]; rewrite X; discriminate.
  - eapply si_waited; eauto.
Qed.

Theorem server_joined_accept : forall cf ops c,
  ctl (srv_final cf ops) = SSleep c \/ ctl (srv_final cf ops) = SDone c ->
  accept_exited (srv_final cf ops) = true.
Proof. intros cf ops c H. eapply si_accept; eauto. apply srv_reachable. Qed.

(* once the command loop has ended every stop future issued so far has resolved, and every
   later one resolves at once (srv_step UStop in SDone) *)
Theorem server_stops_resolve : forall cf ops c,
  ctl (srv_final cf ops) = SDone c ->
  forall n, n < next_stop (srv_final cf ops) -> In (OResolved n) (srv_trace cf ops).
Proof.
  intros cf ops c Ec n Hn. pose proof (srv_reachable cf ops) as I0.
  destruct (si_resolved _ _ _ I0 n Hn) as [X|[(c' & Hin & _)|(c' & Hcur & _)]]; auto.
  - rewrite (si_done _ _ _ I0 c Ec) in Hin. contradiction.
  - rewrite Ec in Hcur. discriminate.
Qed.

Theorem stop_after_done_resolves : forall cf s g c, ctl s = SDone c ->
  snd (srv_step cf s (UStop g)) = [OResolved (next_stop s)].
Proof. intros cf s g c E. cbn [srv_step]. rewrite E. reflexivity. Qed.

(* ---- progress: nothing but the environment can hold the stop up --------------------------- *)
Lemma join_ready_when_acked : forall cf s tr c res,
  SInv cf s tr -> ctl s = SJoinAll c res -> Forall (fun a => a <> WPending) (acks s) ->
  ctl (fst (spoll cf s)) = SJoinAccept c.
Proof.
  intros cf s tr c res I0 Ec FA. unfold spoll. rewrite Ec.
  destruct (si_join _ _ _ I0 c res Ec) as (G & Lr & _).
  assert (La : length (acks s) = s_workers cf). { apply (si_acks _ _ _ I0). rewrite Ec. discriminate. }
  destruct (join_poll 0 res (acks s)) as [res' o] eqn:Ej.
  pose proof (join_poll_length _ _ _ _ _ Ej) as Ll.
  destruct (join_results res') as [l|] eqn:El; [reflexivity|exfalso].
  apply join_results_none in El. apply In_nth_error in El. destruct El as [j Hj].
  assert (Hjl : j < length res). { rewrite <- Ll. apply (proj1 (nth_error_Some res' j)). intro X. pose proof (eq_trans (eq_sym X) Hj) as Y. discriminate Y. }
  destruct (nth_error res j) as [r|] eqn:Er; [|apply nth_error_None in Er; lia].
  destruct (nth_error (acks s) j) as [a|] eqn:Ea; [|apply nth_error_None in Ea; lia].
  pose proof (eq_trans (eq_sym Hj) (join_poll_res _ _ _ _ _ Ej j r a Er Ea)) as Y.
  destruct r; [discriminate|]. rewrite Forall_forall in FA.
  pose proof (FA a (nth_error_In _ _ Ea)) as Hne. destruct a; try discriminate. now apply Hne.
Qed.

Lemma accept_join_step : forall cf s c, ctl s = SJoinAccept c -> accept_exited s = true ->
  ctl (fst (spoll cf s)) = SSleep c \/ ctl (fst (spoll cf s)) = SDone c.
Proof.
  intros cf s c Ec Ea. unfold spoll. rewrite Ec, Ea.
  destruct (s_system_exit cf || sc_force c); [left|right]; reflexivity.
Qed.

Lemma sleep_step : forall cf s c, ctl s = SSleep c -> timer_fired s = true ->
  ctl (fst (spoll cf s)) = SDone c.
Proof. intros cf s c Ec Et. unfold spoll. rewrite Ec, Et. reflexivity. Qed.

Lemma spoll_env : forall cf s, ctl s <> SIdle ->
  acks (fst (spoll cf s)) = acks s /\ accept_exited (fst (spoll cf s)) = accept_exited s
  /\ timer_fired (fst (spoll cf s)) = timer_fired s.
Proof.
  intros cf s Hn. unfold spoll. destruct (ctl s) as [|c res|c|c|c]; [congruence| | | |].
  - destruct (join_poll 0 res (acks s)) as [res' o]. destruct (join_results res'); auto.
  - destruct (accept_exited s) eqn:Ea; [|cbn; auto].
    destruct (s_system_exit cf || sc_force c); unfold finish_srv; cbn; auto.
  - destruct (timer_fired s) eqn:Et; unfold finish_srv; cbn; auto.
  - auto.
Qed.

Fixpoint spolls (cf : scfg) (n : nat) (s : sst) : sst :=
  match n with O => s | S m => spolls cf m (fst (spoll cf s)) end.

(* once every worker has answered, the accept thread has exited and (if System::stop was
   requested) the 300 ms timer has fired, three control steps end the command loop *)
Theorem server_completes : forall cf ops c,
  let s := srv_final cf ops in
  cur_cmd (ctl s) = Some c \/ ctl s = SSleep c ->
  Forall (fun a => a <> WPending) (acks s) -> accept_exited s = true -> timer_fired s = true ->
  ctl (spolls cf 3 s) = SDone c.
Proof.
  intros cf ops c s Hc FA Ea Et. pose proof (srv_reachable cf ops) as I0. fold s in I0.
  assert (DoneStays : forall x, ctl x = SDone c -> forall n, ctl (spolls cf n x) = SDone c).
  { intros x E n. revert x E. induction n; intros x E; cbn [spolls]; auto.
    apply IHn. unfold spoll. rewrite E. exact E. }
  assert (FromSleep : forall x, ctl x = SSleep c -> timer_fired x = true -> forall n, ctl (spolls cf (S n) x) = SDone c).
  { intros x E T n. cbn [spolls]. apply DoneStays. now apply sleep_step. }
  assert (FromAccept : forall x, ctl x = SJoinAccept c -> accept_exited x = true -> timer_fired x = true ->
                       forall n, ctl (spolls cf (S (S n)) x) = SDone c).
  { intros x E A T n. cbn [spolls]. destruct (accept_join_step cf x c E A) as [K|K].
    - destruct (spoll_env cf x ltac:(rewrite E; discriminate)) as (_ & _ & T').
      apply (FromSleep _ K ltac:(congruence) n).
    - apply (DoneStays _ K (S n)). }
  destruct Hc as [Hc|Hc].
  - destruct (ctl s) as [|c0 res|c0|c0|c0] eqn:Ec; cbn in Hc; try discriminate; inv Hc.
    + change (ctl (spolls cf 2 (fst (spoll cf s))) = SDone c).
      pose proof (join_ready_when_acked cf s _ c res I0 Ec FA) as K.
      destruct (spoll_env cf s ltac:(rewrite Ec; discriminate)) as (_ & A' & T').
      apply (FromAccept _ K ltac:(congruence) ltac:(congruence) 0).
    + apply (FromAccept s Ec Ea Et 1).
  - apply (FromSleep s Hc Et 2).
Qed.
