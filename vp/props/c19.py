"""C19 — Connector: resolution precedence, ordered fallback, hostname-verified TLS (partial).

Streams
  c19host  (pure)   host strings -> Host::hostname/port for String and &'static str, ConnectInfo::new
  c19info  (pure)   builder scripts on ConnectInfo (new/with_addr, set_port/set_addr/set_addrs/set_local_addr)
  c19conn  (sockets, two-phase) Resolver/TcpConnector/Connector against real loopback sockets; the oracle answers
           (IP-literal parse, OS connect outcome per address and local bind, localhost resolution) are RECORDED by
           the harness from the real environment and handed to the extracted model, whose trace must equal the
           implementation's (resolver call log, accept counters, peer, error variant)
  c19tls   (TLS, two-phase) rustls 0.23 / OpenSSL connector services against TLS servers with chosen certificates
           (differential evidence; the library's verdict is an oracle whose assumed shape is a reference rule here)
"""
import re
import ipaddress
import itertools
import os
import time

from common import Stream, run_lines, load_corpus, NCPU, _sample_idx

META = {
    "id": "C19",
    "driver": "tls",
    "harness": "h_tls",
    "coq_targets": ["Extract/XTls.vo"],
    "level": "proof",
    "design_ref": "§5 C19",
    "technique": "Coq proof (decision function + list induction over the address queue, u16 grammar, builder-script invariants) + "
                 "extracted-model vs real actix-tls differential run on loopback sockets, scripted resolvers and real rustls/OpenSSL handshakes",
    "level_text": "PARTIAL. THEOREM (all requests, all address lists, all oracle values, no bounds; Gallina model of host.rs, info.rs, "
                  "connect_addrs.rs, resolver.rs, tcp.rs, connector.rs and of the TLS connectors' name derivation/error mapping): "
                  "C19_no_reresolve, C19_ip_literal, C19_lookup(+_addrs,_count), C19_unresolved, C19_first_success(+_wins, all_fail_last_error), "
                  "C19_port, C19_info, C19_host_parse, C19_u16, C19_api_wf/no_panic, C19_tls_name(+pipeline). "
                  "ORACLES (universally quantified Section variables, not verified): str::parse::<IpAddr>, the resolver's answer, the OS "
                  "outcome of each connect, ServerName::try_from / into_ssl accepting a name, and the TLS library's verdict 'handshake over "
                  "this connection verifies for this name'. DIFFERENTIAL RUN (not a theorem): the model is tied to the code by running both on "
                  "every host string of length <= 6 over 10 letters, builder scripts, and — with the oracle answers recorded from the real OS — "
                  "address lists of length 0..4 over live/refused/unreachable loopback endpoints, scripted and default resolvers, local bind "
                  "addresses; 'succeeds only if the certificate is valid for the hostname, then carries data intact' is checked by real "
                  "rustls-0.23/OpenSSL handshakes against certificates that do / do not cover the name, invalid names, untrusted issuers, "
                  "and byte-for-byte echo of random payloads.",
    "level_note": "Trusted: Coq kernel, extraction, OCaml driver, Rust harness (loopback listeners, bound-but-not-listening sockets as "
                  "reserved refused ports, sentinel-delimited accept counting, rcgen certificates). Pending/Ready interleavings of the "
                  "connect futures are abstracted (each future is modelled run to completion). rustls 0.20-0.22 and native-tls connectors "
                  "are the same state machine textually (diffed) and are not run.",
    "rule": "c19host: every string of length <= 6 over {a,1,:,+,6,5,3,9,.,-} + targeted port strings; "
            "non-trivial = contains ':'.  c19info: all builder scripts of length <= 3 over 11 ops x 6 hosts x 3 constructors; non-trivial = "
            "at least one op.  c19conn: all {live,refused,unreachable}^n patterns for n = 0..4 as pre-set addresses and as resolver "
            "answers, with and without local bind; random v4/v6 mixes; host/port/constructor precedence grid; resolver-only and "
            "TCP-only services; non-trivial = at least one dial or one resolver call.  c19tls: 2 client back-ends x 2 server back-ends x "
            "names x 6 certificates x {mem,tcp,tcp6}; non-trivial = a handshake was attempted.",
    "trusted_base": [
        "ORACLE str::parse::<IpAddr> (recorded from the real std by the harness, per case)",
        "ORACLE resolver answer: scripted Resolve impl, or std to_socket_addrs for 'localhost' (recorded)",
        "ORACLE OS connect outcome per (address, local bind) — recorded by an independent probe through the same Tokio calls",
        "ORACLE ServerName::try_from / ConnectConfiguration::into_ssl accept the name (recorded)",
        "ORACLE TLS verdict (rustls 0.23 + webpki, OpenSSL): assumed shape 'issuer trusted and SAN covers the name' "
        "(reference rule in vp/props/c19.py) — checked only on the sampled certificates",
        "Linux loopback: bound-but-not-listening port => ECONNREFUSED; 255.255.255.255 => ENETUNREACH; accept queue FIFO",
        "rcgen 0.13 / ring for run-time certificate generation",
    ],
    "assumptions": [
        "futures are polled to completion by a well-behaved executor; cancellation of a connect future is not modelled",
        "ConnectInfo values are built through the public API (wf_addrs): Multi holds >= 2 addresses",
    ],
}

ALPHA = "a1:+6539.-"


def hx(s):
    return s.encode().hex() if isinstance(s, str) else bytes(s).hex()


# ---------------------------------------------------------------------------------------------
# pure streams
# ---------------------------------------------------------------------------------------------
def host_cases(ctx):
    L = 6
    out = [hx("".join(t)) for n in range(0, L + 1) for t in itertools.product(ALPHA, repeat=n)]
    extra = ["h:65535", "h:65536", "h:065535", "h:0000000000000000000065535", "h:655350", "h:99999", "h:+0", "h:+", "h:-", "h:-1",
             "h:+-1", "h:++1", "h: 80", "h:80 ", "h:8 0", "h:0x50", "h:80:81", "h::80", ":80", ":", "", "example.com:8080",
             "example.com:false", "h:٣", "hé:80", "h:8０", "[::1]:80", "::1", "h:4294967376", "h:18446744073709551696",
             "h:65535a", "h:6553５"]
    out += [hx(s) for s in extra]
    n6 = 0
    if L < 6:
        n6 = 60000
        for _ in range(n6):
            out.append(hx("".join(ctx.rng.choice(ALPHA) for _ in range(6))))
    nr = 20000 if ctx.tier == "quick" else 300000
    for _ in range(nr):
        n = ctx.rng.randint(7, 14)
        out.append(hx("".join(ctx.rng.choice(ALPHA + ":::55") for _ in range(n))))
    return out, "exhaustive over %d letters up to length %d (%d strings)%s + %d targeted + %d random of length 7..14" % (
        len(ALPHA), L, sum(len(ALPHA) ** k for k in range(L + 1)), (" + %d sampled of length 6" % n6) if n6 else "", len(extra), nr)


def host_to_coq(case, model):
    p = model.split("|")
    if len(p) != 4:
        return None
    zl = lambda h: "[" + "; ".join(str(b) for b in bytes.fromhex(h)) + "]"
    port = "None" if p[1] == "-" else "Some %s" % p[1]
    return ("(hostname %s, port %s)" % (zl(case), zl(case)), "(%s, %s)" % (zl(p[0]), port))


INFO_OPS = ["p81", "p0", "p65535", "a1", "an", "s", "s2", "s23", "s2345", "l4", "l6"]
INFO_HOSTS = ["h", "h:80", "h:x", "1.2.3.4:7", ":", ""]


def info_cases(ctx):
    out = []
    for h in INFO_HOSTS:
        for ctor in ["n", "w0", "w4"]:
            for n in range(0, 4):
                for ops in itertools.product(INFO_OPS, repeat=n):
                    out.append("%s;%s;%s" % (hx(h), ctor, ",".join(ops)))
    return out


# ---------------------------------------------------------------------------------------------
# two-phase streams (oracle answers recorded by the harness, then fed to the model)
# ---------------------------------------------------------------------------------------------
def split_oracle(impl_line):
    """'oracle{...}|rest' -> (oracle text, rest)"""
    if impl_line.startswith("oracle{") and "}|" in impl_line:
        i = impl_line.index("}|")
        return impl_line[7:i], impl_line[i + 2:]
    return None, impl_line


class TwoPhase:
    def __init__(self, name, mode, cases, extra_oracle=None, monitor=None, nontrivial=None, describe="", timeout=300, key=None):
        self.name, self.mode, self.cases = name, mode, cases
        self.extra_oracle = extra_oracle or (lambda case: "")
        self.monitor = monitor or (lambda c, i, m: i == m)
        self.nontrivial = nontrivial or (lambda c, i: True)
        self.describe, self.timeout = describe, timeout
        self.key = key or (lambda c, i, m: "")

    def run(self, ctx, cases):
        raw = run_lines([ctx.impl_bin, self.mode], cases, NCPU, self.timeout, "impl")
        impl, minp = [], []
        for c, line in zip(cases, raw):
            o, rest = split_oracle(line)
            impl.append(rest)
            ex = self.extra_oracle(c)
            minp.append("%s;oracle=%s" % (c, ",".join(x for x in [o or "", ex] if x)))
        model = run_lines([ctx.model_bin, self.mode], minp, NCPU, self.timeout, "model")
        return impl, model, minp

    def check(self, ctx):
        cases = load_corpus(ctx.pid, self.name) + list(self.cases)
        n_corpus = len(cases) - len(self.cases)
        t0 = time.time()
        impl, model, minp = self.run(ctx, cases)
        # ENV-FAIL = the harness could not set up its sockets (no free port ...): an environment problem, never a verdict.
        # Such cases are re-run once, one after the other; what still cannot be set up is skipped and counted.
        envf = [k for k, i in enumerate(impl) if i.startswith("ENV-FAIL")]
        for k in envf:
            i2, m2, _ = self.run(ctx, [cases[k]])
            impl[k], model[k] = i2[0], m2[0]
        envf = [k for k in envf if impl[k].startswith("ENV-FAIL")]
        if envf:
            ctx.notes.append("stream %s: %d of %d cases skipped, sockets could not be set up (%s)" % (self.name, len(envf), len(cases), impl[envf[0]]))
            if len(envf) * 50 > len(cases):
                ctx.report("build-broken", {"stream": self.name, "what": "correspondence %s/%s cannot be run: %d of %d cases could not set up "
                                            "their sockets (%s)" % (ctx.pid, self.name, len(envf), len(cases), impl[envf[0]])}, nfi=True)
            keep = [k for k in range(len(cases)) if k not in set(envf)]
            cases, impl, model = [cases[k] for k in keep], [impl[k] for k in keep], [model[k] for k in keep]
        bad = [(c, i, m) for c, i, m in zip(cases, impl, model) if not self.monitor(c, i, m)]
        mism = [(c, i, m) for c, i, m in zip(cases, impl, model) if i != m]
        nontriv = set(c for c, i in zip(cases, impl) if self.nontrivial(c, i))
        info = {"stream": self.name, "cases": len(cases), "corpus_cases": n_corpus, "distinct": len(set(cases)),
                "distinct_nontrivial": len(nontriv), "mismatches": len(mism), "exhaustive": False, "describe": self.describe,
                "wall_s": round(time.time() - t0, 2),
                "samples": [{"case": cases[k], "impl": impl[k], "model": model[k]} for k in _sample_idx(len(cases), 3, ctx.rng)]}
        ctx.cov.setdefault("streams", []).append(info)
        if bad:
            seen = set()
            for c, i, m in sorted(bad, key=lambda x: len(x[0])):
                k = self.key(c, i, m)
                if k in seen:
                    continue
                seen.add(k)
                # re-run once: a verdict must be reproducible
                i2, m2, _ = self.run(ctx, [c])
                if self.monitor(c, i2[0], m2[0]):
                    ctx.notes.append("stream %s: case %s failed once and passed on re-run (impl %s / %s)" % (self.name, c, i, i2[0]))
                    ctx.report("correspondence-broken", {"stream": self.name, "mode": self.mode, "case": c, "impl_trace": i,
                                                         "impl_trace_rerun": i2[0], "model_trace": m,
                                                         "what": "non-reproducible difference on %s/%s" % (ctx.pid, self.name)},
                               key=k, nfi=True)
                    continue
                ctx.report("property-fails", {"stream": self.name, "mode": self.mode, "case": c, "impl_trace": i2[0], "model_trace": m2[0],
                                              "what": "the behaviour the property fixes (model prediction under the recorded oracle answers) "
                                                      "differs from the implementation's trace of this case"}, key=k)
                if len(seen) >= 5:
                    break
        elif mism:
            c, i, m = sorted(mism, key=lambda x: len(x[0]))[0]
            ctx.report("correspondence-broken", {"stream": self.name, "mode": self.mode, "case": c, "impl_trace": i, "model_trace": m,
                                                 "n_mismatches": len(mism),
                                                 "what": "correspondence %s/%s no longer checks: traces differ on %d of %d cases; the property "
                                                         "predicate holds on every implementation trace explored" % (ctx.pid, self.name, len(mism), len(cases))},
                       key=self.key(c, i, m), nfi=True)
        return impl, model


# ---- c19conn --------------------------------------------------------------------------------
def conn_case(host, slots, ctor="n", ops="", res="err", svc="c"):
    return "host=%s;ctor=%s;ops=%s;res=%s;svc=%s;slots=%s" % (host, ctor, ops, res, svc, ",".join(slots))


def conn_cases(ctx):
    out = []
    idx = "0123456789"
    # A. every {live, refused, unreachable}^n pattern, n = 0..4, as pre-set addresses and as resolver answers
    for n in range(0, 5):
        for pat in itertools.product(["L4", "R4", "U4"], repeat=n):
            for local in ["", "l4"]:
                lop = [local] if local else []
                out.append(conn_case("h.test", pat, ops="/".join(["s" + idx[:n]] + lop), res="err" if n else "ok"))
                out.append(conn_case("h.test:@0" if n else "h.test:80", pat, ops="/".join(lop), res="ok" + idx[:n]))
    # B. random v4/v6 mixes, permuted / repeated address lists, local bind of either family
    nb = 300 if ctx.tier == "quick" else 3000
    for _ in range(nb):
        n = ctx.rng.randint(1, 4)
        pat = [ctx.rng.choice(["L4", "L6", "R4", "R6", "U4"]) for _ in range(n)]
        m = ctx.rng.randint(1, 4)
        lst = "".join(ctx.rng.choice(idx[:n]) for _ in range(m))
        local = ctx.rng.choice(["", "", "l4", "l6"])
        lop = [local] if local else []
        if ctx.rng.random() < 0.5:
            out.append(conn_case("h.test", pat, ops="/".join(["s" + lst] + lop), res="err"))
        else:
            out.append(conn_case("h.test:@%d" % ctx.rng.randrange(n), pat, ops="/".join(lop), res="ok" + lst))
    # C. precedence grid: host form x constructor x builder ops x resolver answer x service
    hosts = ["h.test", "h.test:@1", "h.test:80", "127.0.0.1", "127.0.0.1:@1", "127.0.0.1:x", "127.0.0.1:+@1", "localhost:@1",
             "localhost", "::1", "[::1]:@2", ":@1", "255.255.255.255:@3", "0127.0.0.1:@1", "127.1:@1"]
    opss = ["", "p@0", "p@1/l4", "an", "a1", "s", "s0", "s01", "s10/p@1", "an/p@0", "p@0/p@1", "a0/an", "l6/l4"]
    ress = ["ok", "ok1", "ok10", "err"]
    for slots in (["L4", "L4", "L6", "U4", "Z4"], ["R4", "L4", "R6", "U4", "Z4"]):
        for h in hosts:
            for ctor in ["n", "w0"]:
                for ops in opss:
                    # default resolver (to_socket_addrs) only where the dialled port is a slot's port
                    rr = list(ress) + (["d"] if h.startswith("localhost") and ("@" in h or "p@" in ops) else [])
                    for res in rr:
                        out.append(conn_case(h, slots, ctor=ctor, ops=ops, res=res, svc="c"))
                    out.append(conn_case(h, slots, ctor=ctor, ops=ops, res="ok10", svc="r"))
                    out.append(conn_case(h, slots, ctor=ctor, ops=ops, res="err", svc="r"))
                    out.append(conn_case(h, slots, ctor=ctor, ops=ops, res="err", svc="t"))
    return out


def conn_nontrivial(case, impl):
    p = dict(x.split("=", 1) for x in impl.split("|") if "=" in x)
    acc = p.get("acc", "")
    return bool(p.get("log", "").strip("~")) or any(x.split(":")[1] != "0" for x in acc.split(",") if ":" in x) or "Io(" in p.get("res", "")


def conn_key(case, impl, model):
    f = dict(x.split("=", 1) for x in case.split(";") if "=" in x)
    return "conn/%s/%s" % (f.get("svc", "?"), (impl.split("res=")[-1].split(" ")[0:2] or ["?"])[-1].split("(")[0])


# ---- c19tls ---------------------------------------------------------------------------------
IDENTS = [(["a.test", "*.w.test"], 1), (["b.test"], 1), (["a.test", "*.w.test"], 2), (["127.0.0.1"], 1), (["a.test"], 0),
          (["a.test", "127.0.0.1", "::1"], 1)]   # must equal util.rs IDENTS


def covers(sans, name):
    """reference rule for 'certificate valid for name' (RFC 6125 as rustls-webpki and OpenSSL with NO_PARTIAL_WILDCARDS apply it)"""
    try:
        ip = ipaddress.ip_address(name)
        return any(_is_ip(s) and ipaddress.ip_address(s) == ip for s in sans)
    except ValueError:
        pass
    n = name.lower().rstrip(".")
    if not n:
        return False
    for s in sans:
        if _is_ip(s):
            continue
        s = s.lower()
        if s == n:
            return True
        if s.startswith("*.") and "." in n and n.split(".", 1)[1] == s[2:] and n.split(".", 1)[0] != "" and "*" not in n:
            return True
    return False


def _is_ip(s):
    try:
        ipaddress.ip_address(s)
        return True
    except ValueError:
        return False


def prefixes(host):
    v = [host[:i] for i, ch in enumerate(host) if ch == ":"] + [host]
    out = []
    for x in v:
        if x not in out:
            out.append(x)
    return out


def tls_fields(case):
    return dict(x.split("=", 1) for x in case.split(";") if "=" in x)


def tls_extra_oracle(case):
    f = tls_fields(case)
    host = bytes.fromhex(f["host"]).decode()
    sans, issuer = IDENTS[int(f["cert"])]
    # the TLS library's verdict is an oracle; rustls 0.20 (webpki 0.22) cannot verify a certificate for an IP address at all
    def lib_ok(c):
        if f.get("be") == "r20" and re.match(r"^(\d+\.){3}\d+$|.*:.*", c):
            return False
        return issuer == 1 and covers(sans, c)
    return ",".join("hs:%s=%d" % (hx(c), int(lib_ok(c))) for c in prefixes(host))


def host_name(host):
    return host.split(":", 1)[0]


def tls_monitor(case, impl, model):
    """the property on the implementation's trace: success only if the certificate is valid for the HOSTNAME (reference
    rule) and the issuer is trusted, then data intact; otherwise an error value (no panic, no hang)"""
    f = tls_fields(case)
    host = bytes.fromhex(f["host"]).decode()
    sans, issuer = IDENTS[int(f["cert"])]
    r = impl.split("res=")[-1]
    if r.startswith("OK"):
        return issuer == 1 and covers(sans, host_name(host)) and "req=1" in r and "echo=1" in r
    return r.startswith("ERR ")


def tls_key(case, impl, model):
    f = tls_fields(case)
    r = impl.split("res=")[-1].split(" ")
    return "tls/%s/%s" % ({"o": "openssl", "n": "native-tls"}.get(f.get("be"), "rustls"), r[0] if r[0] != "ERR" else "ERR-" + r[-1])


TLS_NAMES = ["a.test", "a.test:443", "A.Test", "b.test", "x.w.test", "x.y.w.test", "w.test", "127.0.0.1", "127.0.0.1:80", "::1",
             "a b", "a_b.test", "-a.test", "a..test", "a.test:", "1.2.3.4", "a" * 64 + ".test", "a.test\t", " a.test",
             "xn--nxasmq6b.test", "a.test/", "a.test@b.test", "b.test:a.test"]


def tls_cases(ctx):
    out = []
    seed = ctx.rng.randrange(1, 1 << 30)
    k = 0
    for be in ["r", "o", "r22", "r21", "r20", "n"]:
        for name in TLS_NAMES:
            for cert in range(len(IDENTS)):
                k += 1
                sbe = "ro"[k % 2]
                pl = [0, 1, 100, 4096, 16384, 65536][k % 6] if cert in (0, 5) else 64
                out.append("be=%s;io=mem;host=%s;cert=%d;sbe=%s;pl=%d;seed=%d" % (be, hx(name), cert, sbe, pl, seed + k))
        # the whole pipeline over loopback TCP: the address is 127.0.0.1 / ::1, the name is the request's hostname
        for io in ["tcp", "tcp6"]:
            for name in ["a.test", "a.test:443", "b.test", "127.0.0.1", "::1", "localhost", "a b"]:
                for cert in [0, 3, 5]:
                    k += 1
                    out.append("be=%s;io=%s;host=%s;cert=%d;sbe=%s;pl=%d;seed=%d" % (be, io, hx(name), cert, "ro"[k % 2], 1000 + k, seed + k))
    nr = 40 if ctx.tier == "quick" else 1500
    for _ in range(nr):
        k += 1
        out.append("be=%s;io=mem;host=%s;cert=%d;sbe=%s;pl=%d;seed=%d" % (
            ctx.rng.choice(["r", "o", "r22", "r21", "r20", "n"]), hx(ctx.rng.choice(["a.test", "q.w.test", "a.test:8443", "127.0.0.1"])), ctx.rng.choice([0, 5]),
            ctx.rng.choice("ro"), ctx.rng.randint(0, 65536), seed + k))
    return out


# ---- c19reuse: one TLS connector service, several requests ----------------------------------------
class Reuse(TwoPhase):
    """the model is stateless (C19_tls_name: the result depends on the request and the library's verdict for this certificate only):
    the expected trace of a sequence of requests through ONE connector service is the sequence of the single-request results"""

    def run(self, ctx, cases):
        raw = run_lines([ctx.impl_bin, self.mode], cases, NCPU, self.timeout, "impl")
        impl, steps, counts = [], [], []
        for c, line in zip(cases, raw):
            o, rest = split_oracle(line)
            impl.append(rest)
            f = tls_fields(c)
            ids = f["certs"].split(",")
            for cid in ids:
                sc = "be=%s;io=mem;host=%s;cert=%s;sbe=r;pl=%s;seed=%s" % (f["be"], f["host"], cid, f["pl"], f["seed"])
                steps.append("%s;oracle=%s" % (sc, ",".join(x for x in [o or "", tls_extra_oracle(sc)] if x)))
            counts.append(len(ids))
        out = run_lines([ctx.model_bin, "c19tls"], steps, NCPU, self.timeout, "model")
        model, k = [], 0
        for n in counts:
            model.append("res=" + "/".join(x[4:] if x.startswith("res=") else x for x in out[k:k + n]))
            k += n
        return impl, model, cases


def reuse_monitor(case, impl, model):
    f = tls_fields(case)
    host = bytes.fromhex(f["host"]).decode()
    rs = impl.split("res=")[-1].split("/")
    ids = f["certs"].split(",")
    if len(rs) != len(ids):
        return False
    for r, cid in zip(rs, ids):
        sans, issuer = IDENTS[int(cid)]
        if r.startswith("OK"):
            if not (issuer == 1 and covers(sans, host_name(host)) and "req=1" in r and "echo=1" in r):
                return False
        elif not r.startswith("ERR "):
            return False
    return True


def reuse_cases(ctx):
    hosts = ["a.test", "x.w.test", "b.test", "127.0.0.1"]
    seqs = [[0, 1], [0, 2], [0, 4], [0, 0, 1], [1, 0, 2], [0, 5, 1, 0], [5, 3], [3, 5, 2], [0, 1, 0, 2, 5], [2, 0, 2], [4, 0, 4]]
    out = []
    for be in ("r", "o"):
        for h in hosts:
            for sq in seqs:
                out.append("be=%s;host=%s;certs=%s;pl=%d;seed=%d" % (be, hx(h), ",".join(map(str, sq)), ctx.rng.choice([1, 100, 700, 5000]), ctx.rng.randrange(1000)))
    return out


# ---------------------------------------------------------------------------------------------
def all_streams(ctx):
    hc, hdesc = host_cases(ctx)
    s1 = Stream("c19host", "c19host", hc, nontrivial=lambda c, m: "3a" in [c[i:i + 2] for i in range(0, len(c), 2)],
                to_coq=host_to_coq, coq_imports="From AN Require Import Model.Connect.", describe=hdesc,
                finding_key=lambda c, i, m: "host")
    ic = info_cases(ctx)
    s2 = Stream("c19info", "c19info", ic, nontrivial=lambda c, m: c.split(";")[2] != "", exhaustive=True,
                describe="all builder scripts of length <= 3 over %d ops x %d hosts x 3 constructors" % (len(INFO_OPS), len(INFO_HOSTS)),
                finding_key=lambda c, i, m: "info")
    cc = conn_cases(ctx)
    s3 = TwoPhase("c19conn", "c19conn", cc, nontrivial=conn_nontrivial, key=conn_key,
                  describe="%d socket cases: 3^n patterns n=0..4 x {pre-set, resolver} x {no bind, bind}; random v4/v6 mixes; precedence grid" % len(cc))
    tc = tls_cases(ctx)
    s4 = TwoPhase("c19tls", "c19tls", tc, extra_oracle=tls_extra_oracle, monitor=tls_monitor, key=tls_key,
                  nontrivial=lambda c, i: "InvalidInput" not in i and "PANIC" not in i,
                  describe="%d TLS connector cases (rustls 0.23/0.22/0.21/0.20, OpenSSL and native-tls connectors x rustls / OpenSSL servers x names x certificates x mem/tcp)" % len(tc))
    # http::Uri as connect address (feature `uri`): every scheme of the table + unknown ones x hosts x ports, and scheme-less forms
    schemes = ["http", "https", "ws", "wss", "amqp", "amqps", "mqtt", "mqtts", "ftp", "ftps", "redis", "mysql", "postgres",
               "gopher", "htt", "httpss", "w", "ssh", "redis2", "my-sql", "a+b.c"]
    hosts = ["example.com", "a", "127.0.0.1", "[::1]", "x-y.test", "localhost"]
    ports = ["-", "1", "80", "443", "8080", "65535", "0"]
    uc = ["%s;%s;%s" % (hx(sc), hx(h), p) for sc in schemes for h in hosts for p in ports]
    uc += ["-;%s;%s" % (hx(h), p) for h in hosts for p in ports if p != "-"] + ["-;%s;-" % hx(h) for h in hosts if "[" not in h] + ["-;-;-"]
    s5 = Stream("c19uri", "c19uri", uc, nontrivial=lambda c, m: c.split(";")[2] == "-", exhaustive=True,
                describe="%d URIs: 21 schemes (the 13 of the table, near misses and unknown ones) x 6 hosts x 7 port forms with http 0.2 and "
                         "http 1, plus authority-only and path-only forms; Host::hostname/port and ConnectInfo::new(uri).port()" % len(uc),
                finding_key=lambda c, i, m: "uri")
    rc = reuse_cases(ctx)
    s6 = Reuse("c19reuse", "c19reuse", rc, monitor=reuse_monitor, key=lambda c, i, m: "reuse:" + tls_fields(c)["be"] + tls_fields(c)["certs"],
               nontrivial=lambda c, i: "OK" in i and "ERR" in i,
               describe="%d sequences of 2..5 requests for one name through ONE TLS connector service (rustls 0.23 with 0-RTT enabled in the "
                        "client configuration, OpenSSL) against servers that issue tickets and allow early data and present valid, wrong-name and "
                        "untrusted certificates in turn: every result must be the single-request result" % len(rc))
    return [s1, s2, s5], [s3, s4, s6]


def check_idents(ctx):
    """the reference table IDENTS must be the harness's certificate table"""
    import subprocess
    out = subprocess.run([ctx.impl_bin, "idents"], stdout=subprocess.PIPE, text=True, timeout=60).stdout.strip().split("\n")
    mine = ["%s|%d" % (",".join(s), int(i == 1)) for s, i in IDENTS]
    if out != mine:
        ctx.report("build-broken", {"what": "correspondence C19/c19tls cannot be run: certificate tables differ (harness %r, plugin %r)" % (out, mine)}, nfi=True)


def custom(ctx):
    pure, two = all_streams(ctx)
    check_idents(ctx)
    for st in pure:
        ctx.run_stream(st)
    for st in two:
        st.check(ctx)


def streams(ctx):
    return all_streams(ctx)[0]


def replay(ctx, r):
    pure, two = all_streams(ctx)
    name = r.get("stream")
    for st in pure:
        if st.name == name:
            f, i, m = ctx.fails_property(st, r["case"])
            print("case : %s\nimpl : %s\nmodel: %s\nproperty predicate on implementation trace: %s" % (
                r["case"], i, m, "FALSE (violation reproduced)" if f else "true"))
            return 1 if f else 0
    for st in two:
        if st.name == name:
            i, m, minp = st.run(ctx, [r["case"]])
            ok = st.monitor(r["case"], i[0], m[0])
            print("case : %s\nmodel input: %s\nimpl : %s\nmodel: %s\nproperty predicate on implementation trace: %s%s" % (
                r["case"], minp[0], i[0], m[0], "true" if ok else "FALSE (violation reproduced)",
                "" if i[0] == m[0] else "   [traces differ]"))
            return 0 if ok and i[0] == m[0] else 1
    print(r)
    return 2
