(* Driver for the extracted actix-service combinator model (C11, C12).
   One case per stdin line, one trace per stdout line.
   usage: driver <mode>      modes: svc  (case: "<sexpr> ; <ops>")
                                    fac  (case: "<fexpr> ; <cfg> ; <ops>")
   Output: "<trace> ## <reference values>"; the part before " ## " is what the harness prints. *)
open Gen

let rec pos_of_int n = if n = 1 then XH else if n land 1 = 1 then XI (pos_of_int (n lsr 1)) else XO (pos_of_int (n lsr 1))
let z_of_int n = if n = 0 then Z0 else if n > 0 then Zpos (pos_of_int n) else Zneg (pos_of_int (-n))
let rec int_of_pos = function XH -> 1 | XO p -> 2 * int_of_pos p | XI p -> 2 * int_of_pos p + 1
let int_of_z = function Z0 -> 0 | Zpos p -> int_of_pos p | Zneg p -> - (int_of_pos p)
let rec nat_of_int n = if n <= 0 then O else S (nat_of_int (n - 1))
let rec int_of_nat = function O -> 0 | S n -> 1 + int_of_nat n

(* ---- S-expressions ---- *)
type sx = Atom of string | List of sx list

let tokenize (s : string) : string list =
  let b = Buffer.create 16 and out = ref [] in
  let flush () = if Buffer.length b > 0 then (out := Buffer.contents b :: !out; Buffer.clear b) in
  String.iter (fun c -> match c with
    | '(' | ')' -> flush (); out := String.make 1 c :: !out
    | ' ' | '\t' -> flush ()
    | c -> Buffer.add_char b c) s;
  flush (); List.rev !out

let parse_sx (toks : string list) : sx * string list =
  let rec one = function
    | "(" :: t -> let (l, t') = many t in (List l, t')
    | ")" :: _ -> failwith "unexpected )"
    | a :: t -> (Atom a, t)
    | [] -> failwith "unexpected end"
  and many = function
    | ")" :: t -> ([], t)
    | [] -> failwith "missing )"
    | t -> let (x, t') = one t in let (l, t'') = many t' in (x :: l, t'')
  in one toks

let sx_of_string s = match parse_sx (tokenize s) with (x, []) -> x | _ -> failwith "trailing tokens"

(* ---- atoms ---- *)
let mapper_of (s : string) : mapper =
  let k = z_of_int (int_of_string (String.sub s 1 (String.length s - 1))) in
  match s.[0] with
  | '+' -> MAdd k | '*' -> MMul k | '=' -> MConst k | '#' -> MTag k
  | _ -> failwith ("mapper " ^ s)
let show_mapper = function
  | MAdd k -> "+" ^ string_of_int (int_of_z k) | MMul k -> "*" ^ string_of_int (int_of_z k)
  | MConst k -> "=" ^ string_of_int (int_of_z k) | MTag k -> "#" ^ string_of_int (int_of_z k)

(* readiness script: string over p, o, e<digit>; "-" is the empty script *)
let rs_of (s : string) : rans list =
  if s = "-" then [] else begin
    let out = ref [] and i = ref 0 and n = String.length s in
    while !i < n do
      (match s.[!i] with
       | 'p' -> out := RPending :: !out
       | 'o' -> out := ROk :: !out
       | 'e' -> incr i; out := RErr (z_of_int (Char.code s.[!i] - 48)) :: !out
       | _ -> failwith ("rs " ^ s));
      incr i
    done; List.rev !out end

let res_of (s : string) : res =
  let k = z_of_int (int_of_string (String.sub s 1 (String.length s - 1))) in
  match s.[0] with 'O' -> Ok k | 'E' -> Err k | _ -> failwith ("res " ^ s)

let zi s = z_of_int (int_of_string s)
let beh_of_atoms d dm ec m = beh_of { b_d = zi d; b_dm = zi dm; b_ec = zi ec; b_m = mapper_of m }

let wrapk_of = function
  | "bx" -> WBoxed | "rd" -> WRcDyn | "rc" -> WRc | "bo" -> WBox | "rf" -> WRef | "mr" -> WMutRef | "ce" -> WRefCell
  | s -> failwith ("wrapk " ^ s)

let rec sexpr_of (x : sx) : sexpr =
  match x with
  | List [Atom "L"; Atom id; Atom rs; Atom d; Atom dm; Atom ec; Atom m] ->
      Leaf (nat_of_int (int_of_string id), rs_of rs, beh_of_atoms d dm ec m)
  | List [Atom "F"; Atom id; Atom d; Atom dm; Atom ec; Atom m] ->
      FnSvc (nat_of_int (int_of_string id), beh_of_atoms d dm ec m)
  | List [Atom "A"; a; b] -> AndThen (sexpr_of a, sexpr_of b)
  | List [Atom "M"; Atom m; a] -> Map (mapper_of m, sexpr_of a)
  | List [Atom "E"; Atom m; a] -> MapErr (mapper_of m, sexpr_of a)
  | List [Atom "P"; Atom pre; Atom post; a] -> ApplyFn (WPrePost (mapper_of pre, mapper_of post), sexpr_of a)
  | List [Atom "K"; Atom r; a] -> ApplyFn (WSkip (res_of r), sexpr_of a)
  | List [Atom "W"; Atom k; a] -> Wrap (wrapk_of k, sexpr_of a)
  | _ -> failwith "sexpr"

(* ---- printing ---- *)
let si = string_of_int
let sn n = si (int_of_nat n)
let sz z = si (int_of_z z)
let show_rans = function RPending -> "p" | ROk -> "o" | RErr e -> "e" ^ sz e
let show_res = function Ok v -> "O" ^ sz v | Err e -> "E" ^ sz e
let show_pres = function PPending -> "P" | PReady r -> show_res r | PPanic -> "X"
let show_kind = function KOk -> "o" | KErr -> "e" | KPre -> "a" | KPost -> "z" | KCfg -> "c" | KInit -> "i" | KTInit -> "t"
let show_cfg = function None -> "u" | Some z -> sz z
let show_event = function
  | EvReady (id, w, a) -> "r" ^ sn id ^ "@" ^ sn w ^ ":" ^ show_rans a
  | EvCall (id, r) -> "c" ^ sn id ^ "(" ^ sz r ^ ")"
  | EvPoll (id, w, a) -> "f" ^ sn id ^ "@" ^ sn w ^ ":" ^ (match a with PPending -> "p" | a -> show_pres a)
  | EvPollDone (id, w) -> "x" ^ sn id ^ "@" ^ sn w
  | EvMap (k, m, x) -> "m" ^ show_kind k ^ show_mapper m ^ "(" ^ sz x ^ ")"
  | EvNew (id, c) -> "n" ^ sn id ^ "(" ^ show_cfg c ^ ")"
  | EvInit (id, w, p) -> "i" ^ sn id ^ "@" ^ sn w ^ ":" ^ (if p then "p" else "d")
  | EvInitDone (id, w) -> "y" ^ sn id ^ "@" ^ sn w
  | EvNewT id -> "t" ^ sn id
  | EvCfgFn (id, c) -> "g" ^ sn id ^ "(" ^ show_cfg c ^ ")"
let show_events l = String.concat "," (List.map show_event l)
let show_sev = function
  | SCall (id, r) -> "c" ^ sn id ^ "(" ^ sz r ^ ")"
  | SDone (id, r) -> "d" ^ sn id ^ ":" ^ show_res r
  | SMap (k, m, x) -> "m" ^ show_kind k ^ show_mapper m ^ "(" ^ sz x ^ ")"
let show_obs = function
  | ObsReady (r, l) -> "R[" ^ show_events l ^ "]=" ^ show_rans r
  | ObsCall (r, c, l) -> "C[" ^ show_events l ^ "]=" ^ show_pres r ^ "/" ^ sn c

let op_of (s : string) : op =
  if s = "R" then OReady
  else if s.[0] = 'C' then OCall (zi (String.sub s 1 (String.length s - 1)))
  else failwith ("op " ^ s)

let fuel = nat_of_int 40

let split2 (line : string) : string list = List.map String.trim (String.split_on_char ';' line)
let words s = List.filter (fun x -> x <> "") (String.split_on_char ' ' s)

(* reference values for the ops of a service case: for every call  D<denote>/<polls>:<sem> *)
let show_refs (e : sexpr) (ops : op list) : string =
  String.concat " " (List.filter_map (function
    | OReady -> None
    | OCall req ->
        Some ("D" ^ show_res (denote e req) ^ "/" ^ si (1 + int_of_nat (delay e req)) ^ ":"
              ^ String.concat "," (List.map show_sev (sem e req)))) ops)

let svc line =
  match split2 line with
  | [es; os] ->
      let e = sexpr_of (sx_of_string es) in
      let ops = List.map op_of (words os) in
      String.concat " " (List.map show_obs (run_ops fuel e O ops)) ^ " ## " ^ show_refs e ops
  | _ -> failwith "case"

(* ---- factory level ---- *)
let optz s = if s = "-" then None else Some (zi s)
let optm s = if s = "-" then None else Some (mapper_of s)
let ni s = nat_of_int (int_of_string s)

let rec fexpr_of (x : sx) : fexpr =
  match x with
  | List [Atom "FL"; Atom id; Atom kind; Atom fd; Atom fdm; Atom fec; Atom rs; Atom d; Atom dm; Atom ec; Atom m] ->
      let k = (match kind with "d" -> LDirect | "n" -> LFnFactory | "c" -> LFnFactoryCfg | _ -> failwith "lkind") in
      let fb = { f_d = zi fd; f_dm = zi fdm; f_ec = zi fec; f_rs = rs_of rs;
                 f_b = { b_d = zi d; b_dm = zi dm; b_ec = zi ec; b_m = mapper_of m } } in
      FLeafF (ni id, k, fbeh_of (ni id) fb)
  | List [Atom "FS"; Atom id; Atom d; Atom dm; Atom ec; Atom m] -> FFnService (ni id, beh_of_atoms d dm ec m)
  | List [Atom "FA"; a; b] -> FAndThen (fexpr_of a, fexpr_of b)
  | List [Atom "FM"; Atom m; a] -> FMapSvc (SWMap (mapper_of m), fexpr_of a)
  | List [Atom "FE"; Atom m; a] -> FMapSvc (SWMapErr (mapper_of m), fexpr_of a)
  | List [Atom "FP"; Atom pre; Atom post; a] -> FMapSvc (SWApplyFn (WPrePost (mapper_of pre, mapper_of post)), fexpr_of a)
  | List [Atom "FK"; Atom r; a] -> FMapSvc (SWApplyFn (WSkip (res_of r)), fexpr_of a)
  | List [Atom "FI"; Atom m; a] -> FMapInitErr (mapper_of m, fexpr_of a)
  | List [Atom "FC"; Atom m; a] -> FMapConfig (mapper_of m, fexpr_of a)
  | List [Atom "FU"; a] -> FUnitConfig (fexpr_of a)
  | List [Atom "FG"; s; Atom id; Atom k; Atom fail] ->
      FApplyCfg (sexpr_of s, { c_id = ni id; c_k = ni k; c_fail = optz fail })
  | List [Atom "FH"; a; Atom id; Atom k; Atom fail] ->
      FApplyCfgFactory (fexpr_of a, { c_id = ni id; c_k = ni k; c_fail = optz fail })
  | List [Atom "FT"; Atom id; Atom k; Atom fail; Atom rc; Atom mie; Atom pre; Atom post; a] ->
      FApplyTransform ({ t_id = ni id; t_k = ni k; t_fail = optz fail;
                         t_wf = WPrePost (mapper_of pre, mapper_of post);
                         t_rc = (rc = "1"); t_mie = optm mie }, fexpr_of a)
  | List [Atom "FW"; Atom k; a] ->
      FWrap ((match k with "bx" -> FWBoxed | "rc" -> FWRc | "ar" -> FWArc | _ -> failwith "fwrapk"), fexpr_of a)
  | _ -> failwith "fexpr"

let show_ipres = function IPending -> "P" | IReady (IOk _) -> "O" | IReady (IErr e) -> "E" ^ sz e | IPanic -> "X"

let fac line =
  match split2 line with
  | [fs; cs; os] ->
      let f = fexpr_of (sx_of_string fs) in
      let c = if cs = "u" then None else Some (zi cs) in
      let ops = List.map op_of (words os) in
      let FObs (r, k, l, rest) = run_fac fuel f c ops in
      let tr = String.concat " " (("N[" ^ show_events l ^ "]=" ^ show_ipres r ^ "/" ^ sn k) :: List.map show_obs rest) in
      let (kk, rr) = fsem f c in
      let refs =
        "S" ^ show_ipres (IReady rr) ^ "/" ^ si (1 + int_of_nat kk)
        ^ " L" ^ String.concat "," (List.map (fun (id, c) -> sn id ^ "(" ^ show_cfg c ^ ")") (fleaves f c))
        ^ (match rr with IOk s -> " " ^ show_refs s ops | IErr _ -> "") in
      tr ^ " ## " ^ refs
  | _ -> failwith "case"

let () =
  let f = match Sys.argv.(1) with
    | "svc" -> svc
    | "fac" -> fac
    | m -> failwith ("unknown mode " ^ m) in
  try while true do
    let line = input_line stdin in
    print_string (try f line with Failure m -> "BADCASE " ^ m); print_char '\n'
  done with End_of_file -> ()
