"""C04 — dispatch is round-robin over available workers only; 512 independent availability bits."""
from common import Stream
from props.srvlib import COMMON_META, gen_scripts, make_stream, bld_stream, c04_pred, avail_cases

META = dict(COMMON_META)
META.update({
    "id": "C04",
    "design_ref": "§5 C04",
    "technique": "Coq proof (dispatch-log invariant: skips/dispatches walk the workers cyclically, targets have spare capacity; N.testbit algebra "
                 "for the 4x128-bit set) + exhaustive 512x512x2 differential run of the real Availability + stepped-accept dispatch logs",
    "level_text": "C04_rr: in every fault-free run any window of the dispatch log without a skipped worker sends its (at most W) connections to pairwise "
                  "distinct workers in cyclic order; C04_skip: every dispatch went to a worker with fewer than L connections in progress and every "
                  "skipped worker was at its limit or had an unprocessed release; C04_bits_*: for ALL indices i, j < 512 setting flag i changes flag i only, "
                  "available() is the disjunction of the 512 flags, indices >= 512 panic. Tie: the real Availability is compared with the extracted model on "
                  "all (i, j, v) triples from several base states (exhaustive), and dispatch logs of the real accept loop are compared event by event with the "
                  "model and checked against the round-robin/skip predicate.",
    "level_note": "Trusted base as C02. The ghost fields of the log events (in-progress count, pending notice) exist in the model only; the implementation-side "
                  "predicate recomputes them from the observed per-worker queues.",
    "rule": "stream avail: every (i, j, v) in 512x512x2 from each base state (exhaustive; quick: 2 bases, thorough: 6); non-trivial = i != j or v = 1. "
            "stream srv: model-guided random fault-free scripts with many direct accept calls; non-trivial = the run contains a dispatch.",
})


def streams(ctx):
    bases = [[], [0, 127, 128, 255, 256, 383, 384, 511]]
    if ctx.tier != "quick":
        bases += [[5], [200, 201], list(range(0, 512, 37)), list(range(120, 136))]
    av = avail_cases(ctx, bases)
    s1 = Stream("avail", "avail", av, exhaustive=True,
                nontrivial=lambda c, m: True,
                describe="all (i, j, v) in 512 x 512 x 2 from %d base states" % len(bases))
    n = 2500 if ctx.tier == "quick" else 60000
    cases = gen_scripts(ctx, n, ["d", "dy", "de", "dye", "cdye", "e"], ws=(1, 2, 3, 4), ls=(1, 2, 3))
    s2 = make_stream("srv", cases, c04_pred,
                     "%d generated fault-free scripts (W in 1..4); dispatch log compared and checked for round-robin / no dispatch to a full worker" % n,
                     lambda c, m: "D" in m)
    # the same with as many workers as there are availability bits: the start-up state (`set_available_all`) and the rotation cross
    # the 128-bit word boundaries of the bitset
    nb = 24 if ctx.tier == "quick" else 400
    big = gen_scripts(ctx, nb, ["d", "de", "e"], ws=(127, 128, 129, 130, 192, 255, 256, 257, 300, 384, 511, 512), ls=(1, 2), lens=(10, 20, 40))
    s2b = make_stream("srvbig", big, c04_pred,
                      "%d generated fault-free scripts with 127..512 workers (all availability words in use from start-up)" % nb,
                      lambda c, m: "D" in m)
    return [s1, s2, s2b, bld_stream(ctx, ("C04", "C02"), ["", "c", "k", "ck", "k", "b", "cb"], 88, 1500, ws=(2, 3, 4), ls=(2, 3, 2))]
