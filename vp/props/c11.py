"""C11 — service combinators compute exactly the documented composition.
(Also hosts the case generator / trace parser shared with C12.)"""
import itertools
import re
from common import Stream

META = {
    "id": "C11",
    "driver": "service",
    "harness": "h_service",
    "coq_targets": ["Extract/XService.vo"],
    "level": "proof",
    "design_ref": "§5 C11, C12",
    "technique": "Coq proof (deep embedding of the combinators, structural induction over expression trees and future states, "
                 "refinement to the reference composition `denote`/`sem`/`fsem`) + extracted-model vs real-combinator differential run",
    "level_text": "C11_value / C11_order hold for ALL service expression trees, ALL leaf behaviours (arbitrary functions), ALL requests, "
                  "start wakers and sufficient fuel; C11_factory_* for ALL factory expression trees, configs and leaf factory behaviours. "
                  "The model is tied to /repo/actix-service by running the same trees through the extracted model and through the real "
                  "combinators (boxed between levels) over scripted leaves with a hand-written executor; the complete event log with "
                  "waker ids is compared.",
    "level_note": "Trusted: Coq kernel, extraction, OCaml driver, Rust harness (scripted leaves, reified closures, S-expression "
                  "interpreter). `then`/`pipeline` are crate-private and outside the model.",
    "rule": "stream svc11: random service trees (depth <= 3 combinators + wrappers, 1..3 leaves with distinct ids, readiness scripts "
            "Pending^k.(Ok|Err) k<=2 and a few irregular ones, call delays 0..2 as a function of the request, errors on one residue "
            "class, closures +k/*k/=k/#k), ops = a few poll_ready then calls with requests 0..2; plus a small exhaustive family. "
            "Non-trivial = some call goes through a Pending poll or an error. "
            "stream fac11: random factory trees over scripted leaf factories (init delays 0..2, init errors), then the same ops on the "
            "built service.",
    "trusted_base": ["scripted leaf services/factories and reified closures of the harness mirror Model/Svc.v leaves (validated by this run)",
                     "Pin/Box/Rc/RefCell/reference plumbing is modelled as identity (each impl forwards both trait methods)"],
    "assumptions": ["a leaf's call behaviour does not depend on its readiness state (so the Rc<(A,B)> held by an AndThen future can be modelled by a copy)",
                    "the client never polls a future again after it returned Ready (Future contract on the caller's side)"],
}

# ---------------------------------------------------------------------------------------------
# S-expressions
# ---------------------------------------------------------------------------------------------
def sx_parse(s):
    toks = re.findall(r"\(|\)|[^\s()]+", s)
    pos = [0]

    def one():
        t = toks[pos[0]]
        pos[0] += 1
        if t == "(":
            l = []
            while toks[pos[0]] != ")":
                l.append(one())
            pos[0] += 1
            return l
        return t
    x = one()
    assert pos[0] == len(toks)
    return x


def sx_show(x):
    if isinstance(x, list):
        return "(" + " ".join(sx_show(y) for y in x) + ")"
    return x


def split_case(case):
    return [p.strip() for p in case.split(";")]


# ---------------------------------------------------------------------------------------------
# reified closures (Python mirror, used only by monitors that need the mapped readiness error)
# ---------------------------------------------------------------------------------------------
def app_m(m, x):
    k = int(m[1:])
    return {"+": x + k, "*": x * k, "=": k, "#": 10 * x + k}[m[0]]


def svc_leaves(x):
    """leaves of a service tree in evaluation order: (id, script, [map_err closures innermost first])"""
    h = x[0]
    if h == "L":
        return [(x[1], x[2], [])]
    if h == "F":
        return []
    if h == "A":
        return svc_leaves(x[1]) + svc_leaves(x[2])
    if h == "E":
        return [(i, s, m + [x[1]]) for (i, s, m) in svc_leaves(x[2])]
    if h in ("M", "K", "W"):
        return svc_leaves(x[2])
    if h == "P":
        return svc_leaves(x[3])
    raise ValueError("sexpr head %r" % h)


def rs_list(s):
    if s == "-":
        return []
    out = []
    i = 0
    while i < len(s):
        if s[i] == "e":
            out.append("e" + s[i + 1])
            i += 2
        else:
            out.append(s[i])
            i += 1
    return out


# ---------------------------------------------------------------------------------------------
# generators
# ---------------------------------------------------------------------------------------------
MAPPERS = ["+1", "+2", "*2", "*3", "=1", "=4", "#1", "#2", "+0"]
REG_SCRIPTS = ["-", "o", "po", "ppo", "e3", "pe4", "ppe5"]
IRR_SCRIPTS = ["pop", "oe6", "opo", "ppp", "poe7", "pppo"]
WRAPS = ["bx", "rd", "rc", "bo", "rf", "mr", "ce"]


def gen_leaf(rng, ids):
    i = ids[0]
    ids[0] += 1
    rs = rng.choice(REG_SCRIPTS) if rng.random() < 0.8 else rng.choice(IRR_SCRIPTS)
    return ["L", str(i), rs, str(rng.randint(0, 2)), str(rng.randint(0, 2)), str(rng.choice([-1, -1, 0, 1, 2])), rng.choice(MAPPERS)]


def gen_fnsvc(rng, ids):
    i = ids[0]
    ids[0] += 1
    return ["F", str(i), str(rng.randint(0, 2)), str(rng.randint(0, 2)), str(rng.choice([-1, -1, 0, 1, 2])), rng.choice(MAPPERS)]


def gen_sexpr(rng, depth, ids, maxleaves=3):
    """random service tree; `depth` counts combinator levels (wrappers included)"""
    if depth <= 0 or ids[0] >= maxleaves or rng.random() < 0.12:
        return gen_leaf(rng, ids) if rng.random() < 0.85 else gen_fnsvc(rng, ids)
    r = rng.random()
    if r < 0.34 and ids[0] + 1 < maxleaves:
        a = gen_sexpr(rng, depth - 1, ids, maxleaves - 1)
        b = gen_sexpr(rng, depth - 1, ids, maxleaves)
        return ["A", a, b]
    if r < 0.48:
        return ["M", rng.choice(MAPPERS), gen_sexpr(rng, depth - 1, ids, maxleaves)]
    if r < 0.64:
        return ["E", rng.choice(MAPPERS), gen_sexpr(rng, depth - 1, ids, maxleaves)]
    if r < 0.78:
        return ["P", rng.choice(MAPPERS), rng.choice(MAPPERS), gen_sexpr(rng, depth - 1, ids, maxleaves)]
    if r < 0.82:
        return ["K", rng.choice(["O7", "E8"]), gen_sexpr(rng, depth - 1, ids, maxleaves)]
    return ["W", rng.choice(WRAPS), gen_sexpr(rng, depth - 1, ids, maxleaves)]


def gen_ops(rng, nready, ncalls):
    ops = []
    for _ in range(nready):
        ops.append("R")
    for _ in range(ncalls):
        ops.append("C%d" % rng.randint(0, 2))
        if rng.random() < 0.2:
            ops.append("R")
    return " ".join(ops)


def gen_svc_case(rng, ready_heavy):
    e = gen_sexpr(rng, rng.randint(1, 3), [0])
    if ready_heavy:
        ops = gen_ops(rng, rng.randint(1, 4), rng.randint(0, 2))
    else:
        ops = gen_ops(rng, rng.randint(0, 2), rng.randint(1, 3))
    return sx_show(e) + " ; " + ops


def exhaustive_small():
    """every binary/unary skeleton of depth <= 2 over 2 leaves with every regular script pair, fixed closures"""
    out = []

    def leaf(i, rs, d, ec):
        return ["L", str(i), rs, str(d), "1", str(ec), "+%d" % (i + 1)]
    un = [lambda a: a, lambda a: ["M", "*2", a], lambda a: ["E", "#1", a], lambda a: ["P", "+1", "*3", a],
          lambda a: ["W", "rc", a], lambda a: ["W", "ce", a], lambda a: ["W", "rf", a]]
    for ra, rb in itertools.product(REG_SCRIPTS, repeat=2):
        for ua, ub, ur in itertools.product(range(len(un)), repeat=3):
            if (ua + 2 * ub + 3 * ur + len(ra) + len(rb)) % 5 != 0:   # thin deterministically
                continue
            e = un[ur](["A", un[ua](leaf(0, ra, 1, 1)), un[ub](leaf(1, rb, 2, 2))])
            out.append(sx_show(e) + " ; R R R C0 C1 C2")
    return out


# ---------------------------------------------------------------------------------------------
# trace parsing
# ---------------------------------------------------------------------------------------------
OBS_RE = re.compile(r"^([RCN])\[([^\]]*)\]=(\S+)$")


def parse_trace(tr):
    """-> list of (kind, [events], result-string) or None if the trace is not well formed"""
    out = []
    if tr.strip() == "":
        return out
    for tok in tr.split(" "):
        m = OBS_RE.match(tok)
        if not m:
            return None
        evs = m.group(2).split(",") if m.group(2) else []
        out.append((m.group(1), evs, m.group(3)))
    return out


def split_model(model):
    """model line = "<trace> ## <refs>" """
    if " ## " in model:
        a, b = model.split(" ## ", 1)
        return a, b
    if model.endswith(" ##"):
        return model[:-3], ""
    return model, ""


def compare(impl, model):
    return impl == split_model(model)[0]


def proj_events(evs):
    out = []
    for e in evs:
        if e[0] in "cm":
            out.append(e)
        elif e[0] == "f":
            m = re.match(r"f(\d+)@\d+:([OE]-?\d+)$", e)
            if m:
                out.append("d%s:%s" % (m.group(1), m.group(2)))
    return out


def call_refs(refs):
    """refs of the call ops: list of (value, polls, [sev])"""
    out = []
    for tok in refs.split(" "):
        m = re.match(r"^D([OE]-?\d+)/(\d+):(.*)$", tok)
        if m:
            out.append((m.group(1), int(m.group(2)), m.group(3).split(",") if m.group(3) else []))
    return out


def c11_check_calls(obs, refs):
    """value equals denote; projected log equals the sequential reference log"""
    calls = [o for o in obs if o[0] == "C"]
    if len(calls) != len(refs):
        return "shape"
    for (_, evs, res), (val, _polls, sem) in zip(calls, refs):
        if res.split("/")[0] != val:
            return "value"
        if proj_events(evs) != sem:
            return "order"
    return ""


def monitor_svc(case, impl, model):
    return why_svc(case, impl, model) == ""


def why_svc(case, impl, model):
    obs = parse_trace(impl)
    if obs is None:
        return "crash"
    _, refs = split_model(model)
    return c11_check_calls(obs, call_refs(refs))


# ---------------------------------------------------------------------------------------------
# shrinking (structural)
# ---------------------------------------------------------------------------------------------
def sub_trees(x):
    h = x[0]
    if h == "A":
        return [x[1], x[2]]
    if h in ("M", "E", "K", "W"):
        return [x[2]]
    if h == "P":
        return [x[3]]
    return []


def shrink_tree(x):
    """smaller variants of a service tree"""
    for s in sub_trees(x):
        yield s
    h = x[0]
    if h == "L":
        if x[2] != "-":
            yield x[:2] + ["-"] + x[3:]
            rs = rs_list(x[2])
            if len(rs) > 1:
                yield x[:2] + ["".join(rs[1:])] + x[3:]
                yield x[:2] + ["".join(rs[:-1])] + x[3:]
        if x[3:6] != ["0", "0", "-1"]:
            yield x[:3] + ["0", "0", "-1"] + x[6:]
        if x[6] != "+0":
            yield x[:6] + ["+0"]
    elif h == "A":
        for a in shrink_tree(x[1]):
            yield ["A", a, x[2]]
        for b in shrink_tree(x[2]):
            yield ["A", x[1], b]
    elif h in ("M", "E", "K", "W"):
        for a in shrink_tree(x[2]):
            yield [h, x[1], a]
    elif h == "P":
        for a in shrink_tree(x[3]):
            yield [h, x[1], x[2], a]


def shrink_svc(case):
    es, ops = split_case(case)
    ol = ops.split()
    for i in range(len(ol)):
        yield es + " ; " + " ".join(ol[:i] + ol[i + 1:])
    try:
        x = sx_parse(es)
    except Exception:
        return
    for y in shrink_tree(x):
        yield sx_show(y) + " ; " + ops


def nontrivial_call(case, model):
    tr, _ = split_model(model)
    obs = parse_trace(tr) or []
    return any(k == "C" and (any(e.endswith(":p") for e in evs) or res.startswith("E")) for k, evs, res in obs)


def streams(ctx):
    n = 6000 if ctx.tier == "quick" else 150000
    cases = exhaustive_small() + [gen_svc_case(ctx.rng, False) for _ in range(n)]
    s1 = Stream("svc11", "svc", cases, monitor=monitor_svc, nontrivial=nontrivial_call, shrink=shrink_svc,
                compare=compare, finding_key=lambda c, i, m: why_svc(c, i, m),
                describe="%d structured + %d random service trees, ops mostly calls" % (len(cases) - n, n))
    return [s1]
