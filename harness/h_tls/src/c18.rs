//! C18 — the real rustls-0.23 / OpenSSL acceptor services over in-memory pipes, paused Tokio clock.
//!
//! `c18`    poll-level: the case is an op script (poll_ready / call / poll / drop / advance + client moves);
//!          every op is executed by hand on the real service and futures with counting wakers; the handshake's
//!          answer to each poll is RECORDED from the wrapped transport (did it block?) and printed as the oracle.
//! `c18e2e` executor-level: real tasks (`poll_fn(poll_ready).await; call(io).await`) against scripted clients under
//!          the paused clock with auto-advance; completion times and outcomes are printed.
use std::{
    cell::RefCell,
    future::Future,
    pin::Pin,
    rc::Rc,
    sync::{
        atomic::{AtomicUsize, Ordering},
        Arc,
    },
    task::{Context, Poll, Wake, Waker},
    time::Duration,
};

use actix_service::{Service, ServiceFactory};
use actix_tls::accept::{
    max_concurrent_tls_connect, native_tls as anative, openssl as aossl, rustls_0_20 as ar20, rustls_0_21 as ar21, rustls_0_22 as ar22,
    rustls_0_23 as arustls, TlsError,
};
use tokio::io::{AsyncRead, AsyncReadExt, AsyncWrite, AsyncWriteExt, ReadBuf};

use crate::util::*;

// ------------------------------------------------------------------------------------------
// counting wakers
// ------------------------------------------------------------------------------------------
struct Flag {
    id: usize,
    hits: AtomicUsize,
}
impl Wake for Flag {
    fn wake(self: Arc<Self>) {
        self.hits.fetch_add(1, Ordering::SeqCst);
    }
    fn wake_by_ref(self: &Arc<Self>) {
        self.hits.fetch_add(1, Ordering::SeqCst);
    }
}
#[derive(Default)]
struct Wakers(Vec<Arc<Flag>>);
impl Wakers {
    fn make(&mut self, id: usize) -> Waker {
        let f = Arc::new(Flag { id, hits: AtomicUsize::new(0) });
        self.0.push(f.clone());
        Waker::from(f)
    }
    /// ids of the wakers woken since the last call (each listed once), ascending
    fn take(&mut self) -> Vec<usize> {
        let mut v: Vec<usize> = self.0.iter().filter(|f| f.hits.swap(0, Ordering::SeqCst) > 0).map(|f| f.id).collect();
        v.sort();
        v
    }
}
fn noop_waker() -> Waker {
    Waker::from(Arc::new(Flag { id: usize::MAX, hits: AtomicUsize::new(0) }))
}

/// poll a future by hand until it is ready; an in-memory exchange needs no wake-ups, only turns
fn spin<F: Future + Unpin>(mut f: F, max: usize) -> Option<F::Output> {
    let w = noop_waker();
    let mut cx = Context::from_waker(&w);
    for _ in 0..max {
        if let Poll::Ready(v) = Pin::new(&mut f).poll(&mut cx) {
            return Some(v);
        }
    }
    None
}

// ------------------------------------------------------------------------------------------
// the two back-ends behind one face
// ------------------------------------------------------------------------------------------
/// one face for every acceptor back-end of actix-tls: rustls 0.23 / 0.22 / 0.21 / 0.20, OpenSSL, native-tls
macro_rules! backends {
    ($($v:ident => $m:ident),*) => {
        enum AnySvc { $($v($m::AcceptorService)),* }
        enum AnyFut { $($v(Pin<Box<<$m::AcceptorService as Service<Mem>>::Future>>)),* }
        enum AnyStream { $($v($m::TlsStream<Mem>)),* }
        impl AnySvc {
            fn poll_ready(&self, cx: &mut Context<'_>) -> Poll<bool> {
                match self { $(AnySvc::$v(s) => <$m::AcceptorService as Service<Mem>>::poll_ready(s, cx).map(|r| r.is_ok())),* }
            }
            fn call(&self, io: Mem) -> AnyFut {
                match self { $(AnySvc::$v(s) => AnyFut::$v(Box::pin(s.call(io)))),* }
            }
        }
        impl AnyFut {
            fn poll(&mut self, cx: &mut Context<'_>) -> Poll<(Outcome, Option<AnyStream>)> {
                match self {
                    $(AnyFut::$v(f) => f.as_mut().poll(cx).map(|r| match r {
                        Ok(s) => (Outcome::Ok, Some(AnyStream::$v(s))),
                        Err(TlsError::Timeout) => (Outcome::Timeout, None),
                        Err(TlsError::Tls(_)) => (Outcome::Tls, None),
                        Err(TlsError::Service(e)) => match e {},
                    })),*
                }
            }
        }
        impl AsyncRead for AnyStream {
            fn poll_read(self: Pin<&mut Self>, cx: &mut Context<'_>, buf: &mut ReadBuf<'_>) -> Poll<std::io::Result<()>> {
                match self.get_mut() { $(AnyStream::$v(s) => Pin::new(s).poll_read(cx, buf)),* }
            }
        }
        impl AsyncWrite for AnyStream {
            fn poll_write(self: Pin<&mut Self>, cx: &mut Context<'_>, buf: &[u8]) -> Poll<std::io::Result<usize>> {
                match self.get_mut() { $(AnyStream::$v(s) => Pin::new(s).poll_write(cx, buf)),* }
            }
            fn poll_flush(self: Pin<&mut Self>, cx: &mut Context<'_>) -> Poll<std::io::Result<()>> {
                match self.get_mut() { $(AnyStream::$v(s) => Pin::new(s).poll_flush(cx)),* }
            }
            fn poll_shutdown(self: Pin<&mut Self>, cx: &mut Context<'_>) -> Poll<std::io::Result<()>> {
                match self.get_mut() { $(AnyStream::$v(s) => Pin::new(s).poll_shutdown(cx)),* }
            }
            fn poll_write_vectored(self: Pin<&mut Self>, cx: &mut Context<'_>, bufs: &[std::io::IoSlice<'_>]) -> Poll<std::io::Result<usize>> {
                match self.get_mut() { $(AnyStream::$v(s) => Pin::new(s).poll_write_vectored(cx, bufs)),* }
            }
            fn is_write_vectored(&self) -> bool {
                match self { $(AnyStream::$v(s) => s.is_write_vectored()),* }
            }
        }
    };
}
backends!(R => arustls, R22 => ar22, R21 => ar21, R20 => ar20, O => aossl, N => anative);

#[derive(Clone, Copy, PartialEq, Debug)]
enum Outcome {
    Ok,
    Tls,
    Timeout,
}
impl Outcome {
    fn tag(self) -> &'static str {
        match self {
            Outcome::Ok => "ok",
            Outcome::Tls => "tls",
            Outcome::Timeout => "to",
        }
    }
}
impl Future for AnyFut {
    type Output = (Outcome, Option<AnyStream>);
    fn poll(self: Pin<&mut Self>, cx: &mut Context<'_>) -> Poll<Self::Output> {
        AnyFut::poll(self.get_mut(), cx)
    }
}

/// The services are built from a CLONE of the configured `Acceptor` (a server's factory closure clones it per worker): the
/// clone must carry the handshake timeout over.
/// `rv` = which rustls acceptor plays the "r" service (23 default, 22, 21, 20); `ov` = o (OpenSSL, default) or n (native-tls)
/// for the "o" service.  All of them share the per-thread handshake counter.
async fn make_services(pki: &Pki, tr: u64, to: u64, rv: &str, ov: &str) -> (AnySvc, AnySvc) {
    let id = &pki.idents[0];
    let (dr, dto) = (Duration::from_millis(tr), Duration::from_millis(to));
    let rs = match rv {
        "22" => {
            let mut a = ar22::Acceptor::new(rustls22_server_config(id));
            a.set_handshake_timeout(dr);
            AnySvc::R22(<ar22::Acceptor as ServiceFactory<Mem>>::new_service(&a.clone(), ()).await.unwrap())
        }
        "21" => {
            let mut a = ar21::Acceptor::new(rustls21_server_config(id));
            a.set_handshake_timeout(dr);
            AnySvc::R21(<ar21::Acceptor as ServiceFactory<Mem>>::new_service(&a.clone(), ()).await.unwrap())
        }
        "20" => {
            let mut a = ar20::Acceptor::new(rustls20_server_config(id));
            a.set_handshake_timeout(dr);
            AnySvc::R20(<ar20::Acceptor as ServiceFactory<Mem>>::new_service(&a.clone(), ()).await.unwrap())
        }
        _ => {
            let mut a = arustls::Acceptor::new(rustls_server_config(id));
            a.set_handshake_timeout(dr);
            AnySvc::R(<arustls::Acceptor as ServiceFactory<Mem>>::new_service(&a.clone(), ()).await.unwrap())
        }
    };
    let os = match ov {
        "n" => {
            let mut a = anative::Acceptor::new(native_acceptor(id));
            a.set_handshake_timeout(dto);
            AnySvc::N(<anative::Acceptor as ServiceFactory<Mem>>::new_service(&a.clone(), ()).await.unwrap())
        }
        _ => {
            let mut a = aossl::Acceptor::new(openssl_acceptor(id));
            a.set_handshake_timeout(dto);
            AnySvc::O(<aossl::Acceptor as ServiceFactory<Mem>>::new_service(&a.clone(), ()).await.unwrap())
        }
    };
    (rs, os)
}

// ------------------------------------------------------------------------------------------
// clients (plain tokio-rustls / tokio-openssl, stepped by hand or run as tasks)
// ------------------------------------------------------------------------------------------
enum Client {
    Raw(Option<tokio::io::DuplexStream>),
    RustlsHs(Pin<Box<tokio_rustls::Connect<Mem>>>),
    RustlsUp(tokio_rustls::client::TlsStream<Mem>),
    OsslHs(tokio_openssl::SslStream<Mem>),
    OsslUp(tokio_openssl::SslStream<Mem>),
    Failed,
    Gone,
}

/// client kinds: r / o = rustls / OpenSSL client (TLS 1.3), R / O = the same restricted to TLS 1.2, n = no TLS client
fn new_client(kind: char, io: tokio::io::DuplexStream, pki: &Pki) -> Client {
    match kind {
        'r' | 'R' => {
            let cfg = if kind == 'r' { rustls_client_config(pki) } else { rustls_client_config_tls12(pki) };
            let c = tokio_rustls::TlsConnector::from(cfg);
            let name = rustls_pki_types::ServerName::try_from("a.test").unwrap();
            Client::RustlsHs(Box::pin(c.connect(name, Mem::new(io))))
        }
        'o' | 'O' => {
            let max = if kind == 'o' { None } else { Some(openssl::ssl::SslVersion::TLS1_2) };
            let ssl = openssl_connector_max(pki, max).configure().unwrap().into_ssl("a.test").unwrap();
            Client::OsslHs(tokio_openssl::SslStream::new(ssl, Mem::new(io)).unwrap())
        }
        _ => Client::Raw(Some(io)),
    }
}

impl Client {
    /// one turn of the client's handshake
    fn step(&mut self) -> &'static str {
        let w = noop_waker();
        let mut cx = Context::from_waker(&w);
        match std::mem::replace(self, Client::Gone) {
            Client::RustlsHs(mut f) => match f.as_mut().poll(&mut cx) {
                Poll::Ready(Ok(s)) => {
                    *self = Client::RustlsUp(s);
                    "done"
                }
                Poll::Ready(Err(_)) => {
                    *self = Client::Failed;
                    "err"
                }
                Poll::Pending => {
                    *self = Client::RustlsHs(f);
                    "pend"
                }
            },
            Client::OsslHs(mut s) => match Pin::new(&mut s).poll_connect(&mut cx) {
                Poll::Ready(Ok(())) => {
                    *self = Client::OsslUp(s);
                    "done"
                }
                Poll::Ready(Err(_)) => {
                    *self = Client::Failed;
                    "err"
                }
                Poll::Pending => {
                    *self = Client::OsslHs(s);
                    "pend"
                }
            },
            other => {
                let tag = match other {
                    Client::RustlsUp(_) | Client::OsslUp(_) => "up",
                    Client::Failed => "err",
                    Client::Gone => "gone",
                    _ => "raw",
                };
                *self = other;
                tag
            }
        }
    }
    fn garbage(&mut self, rng: &mut Rng) -> &'static str {
        if let Client::Raw(Some(io)) = self {
            // not a TLS record: an HTTP request line followed by random bytes
            let mut g = b"GET / HTTP/1.1\r\nHost: a.test\r\n\r\n".to_vec();
            g.extend(rng.bytes(64));
            match spin(Box::pin(io.write_all(&g)), 100) {
                Some(Ok(())) => "sent",
                _ => "fail",
            }
        } else {
            "n/a"
        }
    }
}

/// exchange random payloads both ways at once and compare byte for byte
/// write-all loop over the vectored entry point: three slices per call, advancing by exactly the count each call reports
async fn write_all_vectored<W: AsyncWrite + Unpin>(w: &mut W, mut data: &[u8]) -> bool {
    while !data.is_empty() {
        let n = data.len();
        let (x, rest) = data.split_at(n.min(300));
        let (y, z) = rest.split_at(rest.len() / 2);
        let bufs = [std::io::IoSlice::new(x), std::io::IoSlice::new(y), std::io::IoSlice::new(z)];
        match w.write_vectored(&bufs).await {
            Ok(0) | Err(_) => return false,
            Ok(k) if k > n => return false,
            Ok(k) => data = &data[k..],
        }
    }
    true
}

async fn exchange<A, B>(a: &mut A, b: &mut B, pa: &[u8], pb: &[u8]) -> bool
where
    A: AsyncRead + AsyncWrite + Unpin,
    B: AsyncRead + AsyncWrite + Unpin,
{
    let (mut ar, mut aw) = tokio::io::split(a);
    let (mut br, mut bw) = tokio::io::split(b);
    // a third of the exchanges send the server's payload through the vectored entry point of the accepted stream
    let vectored = pb.len() % 3 == 0;
    let w1 = async {
        (if vectored { write_all_vectored(&mut aw, pa).await } else { aw.write_all(pa).await.is_ok() }) && aw.flush().await.is_ok()
    };
    let w2 = async { bw.write_all(pb).await.is_ok() && bw.flush().await.is_ok() };
    let r1 = async {
        let mut got = vec![0u8; pb.len()];
        ar.read_exact(&mut got).await.is_ok() && got == pb
    };
    let r2 = async {
        let mut got = vec![0u8; pa.len()];
        br.read_exact(&mut got).await.is_ok() && got == pa
    };
    let (a1, a2, a3, a4) = tokio::join!(w1, w2, r1, r2);
    a1 && a2 && a3 && a4
}

fn payloads(rng: &mut Rng) -> (Vec<u8>, Vec<u8>) {
    let la = [0usize, 1, 100, 16384, 16385, 65536][(rng.next() % 6) as usize].max((rng.next() % 4000) as usize);
    let lb = (rng.next() % 65537) as usize;
    (rng.bytes(la), rng.bytes(lb))
}

// ------------------------------------------------------------------------------------------
// c18: poll-level op scripts
// ------------------------------------------------------------------------------------------
struct Conn {
    acc: char,
    client: Client,
    server_io: Option<Mem>,
    stats: Rc<IoStats>,
    fut: Option<AnyFut>,
    stream: Option<AnyStream>,
    answers: String,
    done: bool,
}

fn in_fresh_thread<T: Send + 'static>(limit: usize, f: impl FnOnce() -> T + Send + 'static) -> T {
    // MAX_CONN is a process-wide static read when the thread-local counter is first used: set it, then use a new thread
    max_concurrent_tls_connect(limit);
    std::thread::spawn(f).join().unwrap_or_else(|e| std::panic::resume_unwind(e))
}

pub fn c18(line: &str, pki: &Pki) -> String {
    let line = line.to_string();
    // the PKI is shared read-only with the case's thread
    let pki: &'static Pki = unsafe { &*(pki as *const Pki) };
    let lim: usize = field(&line, "lim").unwrap_or("1").parse().unwrap();
    in_fresh_thread(lim, move || {
        let rt = tokio::runtime::Builder::new_current_thread().enable_all().start_paused(true).build().unwrap();
        // unconstrained: Tokio's cooperative budget must not turn our hand-made polls into spurious Pendings
        rt.block_on(tokio::task::unconstrained(c18_script(&line, pki)))
    })
}

async fn c18_script(line: &str, pki: &Pki) -> String {
    let tr: u64 = field(line, "tr").unwrap_or("3000").parse().unwrap();
    let to: u64 = field(line, "to").unwrap_or("3000").parse().unwrap();
    let seed: u64 = field(line, "seed").unwrap_or("1").parse().unwrap();
    let mut rng = Rng(seed);
    let (rsvc, osvc) = make_services(pki, tr, to, field(line, "rv").unwrap_or("23"), field(line, "ov").unwrap_or("o")).await;
    let mut conns: Vec<Conn> = Vec::new();
    for spec in field(line, "conns").unwrap_or("").split(',').filter(|s| !s.is_empty()) {
        let mut ch = spec.chars();
        let acc = ch.next().unwrap();
        let kind = ch.next().unwrap();
        let (a, b) = tokio::io::duplex(1 << 17);
        let server_io = Mem::new(a);
        let stats = server_io.stats.clone();
        conns.push(Conn { acc, client: new_client(kind, b, pki), server_io: Some(server_io), stats, fut: None, stream: None, answers: String::new(), done: false });
    }
    let mut wakers = Wakers::default();
    let mut out: Vec<String> = Vec::new();
    for (idx, tok) in field(line, "ops").unwrap_or("").split('.').filter(|s| !s.is_empty()).enumerate() {
        let (kind, arg) = tok.split_at(1);
        let k: usize = arg.parse().unwrap_or(0);
        let mut t = match kind {
            "R" => {
                let w = wakers.make(idx);
                let mut cx = Context::from_waker(&w);
                // both services share the thread's counter; ask the one named by the argument (default rustls)
                let svc = if arg == "o" { &osvc } else { &rsvc };
                match svc.poll_ready(&mut cx) {
                    Poll::Ready(true) => format!("R{arg}:1"),
                    Poll::Ready(false) => format!("R{arg}:err"),
                    Poll::Pending => format!("R{arg}:0"),
                }
            }
            "C" => {
                let c = &mut conns[k];
                match c.server_io.take() {
                    Some(io) => {
                        c.fut = Some(if c.acc == 'r' { rsvc.call(io) } else { osvc.call(io) });
                        format!("C{k}")
                    }
                    None => format!("C{k}:misuse"),
                }
            }
            "P" => {
                let c = &mut conns[k];
                match c.fut.as_mut() {
                    Some(f) if !c.done => {
                        let w = wakers.make(idx);
                        let mut cx = Context::from_waker(&w);
                        c.stats.reset();
                        let r = f.poll(&mut cx);
                        let h = c.stats.touched();
                        let res = match r {
                            Poll::Pending => "pend",
                            Poll::Ready((o, s)) => {
                                c.stream = s;
                                c.done = true;
                                o.tag()
                            }
                        };
                        if h {
                            // the handshake's answer to this poll: Done / Failed are what the acceptor handed on;
                            // Pending must show as a transport operation that blocked
                            c.answers.push(match res {
                                "ok" => 'D',
                                "tls" => 'F',
                                _ if c.stats.blocked() => 'P',
                                _ => '?',
                            });
                        }
                        format!("P{k}:{res}/h{}", h as u8)
                    }
                    // a finished future is not polled again (rustls/openssl futures panic if one does)
                    _ => format!("P{k}:misuse"),
                }
            }
            "D" => {
                let c = &mut conns[k];
                // every other drop happens while the thread unwinds from a panic (the future is owned by a closure that panics):
                // still the drop of the future — the handshake slot it holds must be released and the parked caller woken
                let f = c.fut.take();
                if k % 2 == 1 {
                    let _ = std::panic::catch_unwind(std::panic::AssertUnwindSafe(move || {
                        let _owned = f;
                        panic!("unwinding past a handshake in progress");
                    }));
                } else {
                    drop(f);
                }
                c.done = false;
                format!("D{k}")
            }
            "A" => {
                tokio::time::advance(Duration::from_millis(k as u64)).await;
                format!("A{k}")
            }
            "S" => format!("S{k}:{}", conns[k].client.step()),
            "G" => format!("G{k}:{}", conns[k].client.garbage(&mut rng)),
            "X" => {
                conns[k].client = Client::Gone;
                format!("X{k}")
            }
            "E" => {
                let c = &mut conns[k];
                // finish the client's side of the handshake (the server has already sent everything)
                for _ in 0..20 {
                    if matches!(c.client.step(), "done" | "up" | "err" | "gone" | "raw") {
                        break;
                    }
                }
                let (pa, pb) = payloads(&mut rng);
                // half of the exchanges run against a transport that pushes back on the server's writes (Pending every other
                // poll_write, at most 1000 bytes otherwise): write_all + flush must still deliver everything
                c.stats.throttle.set((pa.len() + pb.len()) % 2 == 0);
                let ok = match (c.stream.as_mut(), &mut c.client) {
                    (Some(srv), Client::RustlsUp(cl)) => spin(Box::pin(exchange(srv, cl, &pa, &pb)), 100_000).unwrap_or(false),
                    (Some(srv), Client::OsslUp(cl)) => spin(Box::pin(exchange(srv, cl, &pa, &pb)), 100_000).unwrap_or(false),
                    _ => false,
                };
                c.stats.throttle.set(false);
                format!("E{k}:{}", ok as u8)
            }
            _ => panic!("bad op {tok}"),
        };
        let woken = wakers.take();
        // wake-ups during client moves / data exchange are transport wake-ups, not part of the acceptor's contract
        if !woken.is_empty() && !matches!(kind, "S" | "G" | "X" | "E") {
            t.push('+');
            t.push_str(&woken.iter().map(|w| format!("w{w}")).collect::<Vec<_>>().join(","));
        }
        out.push(t);
    }
    let oracle: Vec<String> = conns.iter().enumerate().map(|(k, c)| format!("hs{k}={}", c.answers)).collect();
    format!("oracle{{{}}}|{}", oracle.join(","), out.join(" "))
}

// ------------------------------------------------------------------------------------------
// c18e2e: real tasks under the paused clock
// ------------------------------------------------------------------------------------------
/// scripted client for the executor-level run: after `delay` ms (from its arrival) it does `act`:
///   f = a normal async client: handshake to completion, then echo a payload;  h = send the first flight only, then stall;
///   g = send garbage;  x = disconnect;  - = stay silent for ever
async fn e2e_client(kind: char, io: tokio::io::DuplexStream, delay: u64, act: char, pki: &Pki, payload: Vec<u8>, log: Rc<RefCell<Vec<String>>>, k: usize) {
    if act == '-' {
        let _keep = io;
        return std::future::pending::<()>().await;
    }
    let mut client = new_client(if act == 'g' { 'n' } else { kind }, io, pki);
    if delay > 0 {
        tokio::time::sleep(Duration::from_millis(delay)).await;
    }
    match act {
        'h' => {
            client.step();
        }
        'g' => {
            client.garbage(&mut Rng(k as u64 + 77));
        }
        'x' => return,
        'f' => {
            let ok = match client {
                Client::RustlsHs(f) => match f.await {
                    Ok(mut s) => echo_once(&mut s, &payload).await,
                    Err(_) => false,
                },
                Client::OsslHs(mut s) => match Pin::new(&mut s).connect().await {
                    Ok(()) => echo_once(&mut s, &payload).await,
                    Err(_) => false,
                },
                _ => false,
            };
            log.borrow_mut().push(format!("c{k}:echo={}", ok as u8));
            return std::future::pending::<()>().await;
        }
        _ => {}
    }
    // keep the connection open for ever (a client that stalls must not look like a disconnect)
    let _keep = client;
    std::future::pending::<()>().await
}

async fn echo_once<S: AsyncRead + AsyncWrite + Unpin>(s: &mut S, payload: &[u8]) -> bool {
    let (mut rd, mut wr) = tokio::io::split(s);
    let w = async { wr.write_all(payload).await.is_ok() && wr.flush().await.is_ok() };
    let r = async {
        let mut got = vec![0u8; payload.len()];
        rd.read_exact(&mut got).await.is_ok() && got == payload
    };
    let (a, b) = tokio::join!(w, r);
    a && b
}

pub fn c18e2e(line: &str, pki: &Pki) -> String {
    let line = line.to_string();
    let pki: &'static Pki = unsafe { &*(pki as *const Pki) };
    let lim: usize = field(&line, "lim").unwrap_or("1").parse().unwrap();
    in_fresh_thread(lim, move || {
        let rt = tokio::runtime::Builder::new_current_thread().enable_all().start_paused(true).build().unwrap();
        let local = tokio::task::LocalSet::new();
        local.block_on(&rt, c18e2e_run(&line, pki))
    })
}

/// conns=<acc><client>:<arrival ms>:<delay ms>:<act>,...  One dispatcher task (like a server worker) waits for
/// readiness, takes the next arrived connection, calls the acceptor and spawns a task awaiting the handshake.
async fn c18e2e_run(line: &str, pki: &'static Pki) -> String {
    let tr: u64 = field(line, "tr").unwrap_or("3000").parse().unwrap();
    let to: u64 = field(line, "to").unwrap_or("3000").parse().unwrap();
    let seed: u64 = field(line, "seed").unwrap_or("1").parse().unwrap();
    let (rsvc, osvc) = make_services(pki, tr, to, field(line, "rv").unwrap_or("23"), field(line, "ov").unwrap_or("o")).await;
    let t0 = tokio::time::Instant::now();
    let log: Rc<RefCell<Vec<String>>> = Rc::new(RefCell::new(Vec::new()));
    let (tx, mut rx) = tokio::sync::mpsc::unbounded_channel::<(usize, char, Mem)>();
    let mut n = 0usize;
    let mut n_full = 0usize;
    for (k, spec) in field(line, "conns").unwrap_or("").split(',').filter(|s| !s.is_empty()).enumerate() {
        n += 1;
        let mut parts = spec.split(':');
        let mut ch = parts.next().unwrap().chars();
        let acc = ch.next().unwrap();
        let kind = ch.next().unwrap();
        let arrival: u64 = parts.next().unwrap().parse().unwrap();
        let delay: u64 = parts.next().unwrap().parse().unwrap();
        let act = parts.next().unwrap().chars().next().unwrap();
        if act == 'f' {
            n_full += 1;
        }
        let mut rng = Rng(seed + k as u64);
        let plen = (rng.next() % 65537) as usize;
        let payload = rng.bytes(plen);
        let tx = tx.clone();
        let log2 = log.clone();
        tokio::task::spawn_local(async move {
            if arrival > 0 {
                tokio::time::sleep(Duration::from_millis(arrival)).await;
            }
            let (a, b) = tokio::io::duplex(1 << 17);
            let _ = tx.send((k, acc, Mem::new(a)));
            e2e_client(kind, b, delay, act, pki, payload, log2, k).await
        });
    }
    drop(tx);
    let log3 = log.clone();
    let dispatcher = tokio::task::spawn_local(async move {
        let mut parks = 0u32;
        for _ in 0..n {
            let mut first = true;
            std::future::poll_fn(|cx| match rsvc.poll_ready(cx) {
                Poll::Ready(_) => Poll::Ready(()),
                Poll::Pending => {
                    if first {
                        parks += 1;
                        first = false;
                    }
                    Poll::Pending
                }
            })
            .await;
            let Some((k, acc, io)) = rx.recv().await else { break };
            let start = t0.elapsed().as_millis();
            let fut = if acc == 'r' { rsvc.call(io) } else { osvc.call(io) };
            let log4 = log3.clone();
            tokio::task::spawn_local(async move {
                let (outcome, stream) = fut.await;
                let end = t0.elapsed().as_millis();
                log4.borrow_mut().push(format!("s{k}:{start}-{end}:{}", outcome.tag()));
                if let Some(mut s) = stream {
                    let mut buf = vec![0u8; 16384];
                    loop {
                        match s.read(&mut buf).await {
                            Ok(0) | Err(_) => break,
                            Ok(n) => {
                                if s.write_all(&buf[..n]).await.is_err() || s.flush().await.is_err() {
                                    break;
                                }
                            }
                        }
                    }
                }
            });
        }
        log3.borrow_mut().push(format!("parks={parks}"));
    });
    // everything happens in virtual time; 100 virtual seconds (>= 5 calls x 5 s + arrivals + delays) bound a run that got stuck
    let stuck = tokio::time::sleep(Duration::from_millis(100_000));
    tokio::pin!(stuck);
    let all = async {
        loop {
            {
                let l = log.borrow();
                let n_out = l.iter().filter(|x| x.starts_with('s')).count();
                let n_ok = l.iter().filter(|x| x.starts_with('s') && x.ends_with(":ok")).count();
                let n_echo = l.iter().filter(|x| x.starts_with('c')).count();
                if n_out == n && n_echo >= n_ok.min(n_full) && l.iter().any(|x| x.starts_with("parks")) {
                    break;
                }
            }
            tokio::time::sleep(Duration::from_millis(20)).await;
        }
    };
    tokio::select! {
        () = all => {}
        () = &mut stuck => { log.borrow_mut().push("STUCK".into()); }
    }
    dispatcher.abort();
    let mut l = log.borrow().clone();
    l.sort();
    l.join(" ")
}
