//! Correspondence harness for the actix-server accept loop (C01–C05, C08).
//! Drives the REAL `Accept` (through the cfg(actix_net_verif) stepped driver) over real loopback TCP /
//! Unix listeners, with the worker side of every handle pair played by the script.
//! One case per stdin line, one trace per stdout line; same text as ocaml/server/driver.ml.
use std::{
    cell::RefCell,
    collections::{HashMap, VecDeque},
    io::{self, BufRead, Read, Write},
    net::SocketAddr,
    os::unix::net::UnixStream as StdUnixStream,
    panic::{catch_unwind, AssertUnwindSafe},
    rc::Rc,
    sync::{mpsc, Arc, Mutex},
    time::Duration,
};

mod bld;

use actix_server::verif::{self as v, AcceptHandle, Cmd, Listener, MioStream, Stepped, WorkerEnd, Wq};

// ---------------------------------------------------------------------------------------------
// script
// ---------------------------------------------------------------------------------------------
#[derive(Debug, Clone)]
enum Eop {
    Connect(usize, u64),
    Pick(usize),
    Finish(usize, u64),
    DrainDrop(usize),
    Kill(usize),
    Command(char),
    Respawn(usize),
    Inject(usize, char),
}

#[derive(Debug, Clone)]
enum Op {
    E(Eop),
    AcceptTok(usize, Vec<Vec<Eop>>),
    HandleWaker(Vec<Vec<Eop>>),
    ProcessTimeout,
    Turn(Vec<Vec<Eop>>),
    Advance(u64),
}

fn parse_eop(s: &str) -> Eop {
    let rest = &s[1..];
    let two = || {
        let mut it = rest.split(':');
        let a = it.next().unwrap().parse::<u64>().unwrap();
        let b = it.next().unwrap().to_string();
        (a, b)
    };
    match s.as_bytes()[0] {
        b'c' => {
            let (a, b) = two();
            Eop::Connect(a as usize, b.parse().unwrap())
        }
        b'p' => Eop::Pick(rest.parse().unwrap()),
        b'f' => {
            let (a, b) = two();
            Eop::Finish(a as usize, b.parse().unwrap())
        }
        b'd' => Eop::DrainDrop(rest.parse().unwrap()),
        b'k' => Eop::Kill(rest.parse().unwrap()),
        b'P' | b'R' | b'S' => Eop::Command(s.as_bytes()[0] as char),
        b'r' => Eop::Respawn(rest.parse().unwrap()),
        b'i' => {
            let (a, b) = two();
            Eop::Inject(a as usize, b.chars().next().unwrap())
        }
        _ => panic!("bad env op {s}"),
    }
}

fn parse_ys(s: &str) -> Vec<Vec<Eop>> {
    if s.is_empty() {
        return vec![];
    }
    let inner = &s[1..s.len() - 1];
    inner
        .split('|')
        .map(|grp| grp.split(',').filter(|x| !x.is_empty()).map(parse_eop).collect())
        .collect()
}

fn parse_op(s: &str) -> Op {
    let (body, ys) = match s.find('{') {
        Some(i) => (&s[..i], &s[i..]),
        None => (s, ""),
    };
    match body.as_bytes()[0] {
        b'A' => Op::AcceptTok(body[1..].parse().unwrap(), parse_ys(ys)),
        b'H' => Op::HandleWaker(parse_ys(ys)),
        b'T' => Op::Turn(parse_ys(ys)),
        b'O' => Op::ProcessTimeout,
        b'+' => Op::Advance(body[1..].parse().unwrap()),
        _ => Op::E(parse_eop(s)),
    }
}

// ---------------------------------------------------------------------------------------------
// environment (everything that is not the accept thread)
// ---------------------------------------------------------------------------------------------
enum Client {
    Tcp(#[allow(dead_code)] std::net::TcpStream),
    Uds(#[allow(dead_code)] StdUnixStream),
}

struct QConn {
    cid: u64,
    tok: usize,
    #[allow(dead_code)]
    io: MioStream,
}

struct WorkerSim {
    idx: usize,
    end: WorkerEnd,
    open: bool,
    queue: VecDeque<QConn>,
    picked: Vec<(QConn, v::Guard)>,
}

enum LAddr {
    Tcp(SocketAddr),
    Uds(std::path::PathBuf),
}

struct Env {
    wq: Wq,
    limit: usize,
    workers: Vec<WorkerSim>,
    laddrs: Vec<LAddr>,
    lfds: Vec<i32>,
    clients: HashMap<u64, Client>,
    tcp_peers: HashMap<(SocketAddr, SocketAddr), u64>,
    events: Vec<String>,
    pending_handles: Vec<AcceptHandle>,
}

impl Env {
    /// move everything the accept thread has sent from the channels into the per-worker queues,
    /// logging a dispatch event for each (global order is exact when called at every yield point)
    fn sync(&mut self) {
        for g in 0..self.workers.len() {
            if !self.workers[g].open {
                continue;
            }
            while let Some((tok, io)) = self.workers[g].end.try_recv() {
                let cid = self.identify(&io);
                self.events.push(format!("D{}/{}>{}", cid, tok, g));
                self.workers[g].queue.push_back(QConn { cid, tok, io });
            }
        }
    }

    fn identify(&mut self, io: &MioStream) -> u64 {
        match io {
            MioStream::Tcp(s) => {
                // (listener address, client address): a client port can be reused towards another listener
                let key = (s.local_addr().expect("local_addr"), s.peer_addr().expect("peer_addr"));
                let _ = socket2::SockRef::from(s).set_linger(Some(Duration::ZERO));
                *self.tcp_peers.get(&key).expect("unknown tcp peer")
            }
            MioStream::Uds(s) => {
                let mut buf = [0u8; 8];
                let mut got = 0;
                let mut tries = 0;
                while got < 8 {
                    match (&*s).read(&mut buf[got..]) {
                        Ok(0) => panic!("uds client closed before sending its id"),
                        Ok(n) => got += n,
                        Err(e) if e.kind() == io::ErrorKind::WouldBlock => {
                            tries += 1;
                            assert!(tries < 2000, "uds id not readable");
                            std::thread::sleep(Duration::from_micros(200));
                        }
                        Err(e) => panic!("uds read: {e}"),
                    }
                }
                u64::from_le_bytes(buf)
            }
        }
    }

    fn exec(&mut self, o: &Eop) {
        match *o {
            Eop::Connect(tok, cid) => {
                if tok >= self.laddrs.len() {
                    return;
                }
                match &self.laddrs[tok] {
                    LAddr::Tcp(addr) => {
                        let s = std::net::TcpStream::connect(addr).expect("tcp connect");
                        // no TIME_WAIT entries: thousands of cases would exhaust the ephemeral port range
                        let _ = socket2::SockRef::from(&s).set_linger(Some(Duration::ZERO));
                        self.tcp_peers.insert((*addr, s.local_addr().unwrap()), cid);
                        self.clients.insert(cid, Client::Tcp(s));
                    }
                    LAddr::Uds(path) => match StdUnixStream::connect(path) {
                        Ok(mut s) => {
                            s.write_all(&cid.to_le_bytes()).unwrap();
                            self.clients.insert(cid, Client::Uds(s));
                        }
                        Err(_) => self.events.push(format!("X{}/{}", cid, tok)),
                    },
                }
            }
            Eop::Pick(g) => {
                if let Some(w) = self.workers.get_mut(g) {
                    if w.open {
                        if let Some(c) = w.queue.pop_front() {
                            let guard = w.end.guard();
                            w.picked.push((c, guard));
                        }
                    }
                }
            }
            Eop::Finish(g, cid) => {
                if let Some(w) = self.workers.get_mut(g) {
                    if let Some(pos) = w.picked.iter().position(|(c, _)| c.cid == cid) {
                        let (c, guard) = w.picked.remove(pos);
                        drop(c);
                        drop(guard);
                    }
                }
            }
            Eop::DrainDrop(g) => {
                if let Some(w) = self.workers.get_mut(g) {
                    if w.open {
                        if let Some(c) = w.queue.pop_front() {
                            let guard = w.end.guard();
                            drop((c, guard));
                        }
                    }
                }
            }
            Eop::Kill(g) => {
                if let Some(w) = self.workers.get_mut(g) {
                    if w.open {
                        w.open = false;
                        w.end.kill();
                        w.queue.clear();
                    }
                }
            }
            Eop::Command(c) => self.wq.wake(match c {
                'P' => Cmd::Pause,
                'R' => Cmd::Resume,
                _ => Cmd::Stop,
            }),
            Eop::Respawn(idx) => {
                let (ah, _srv, end) = v::link(idx, &self.wq, self.limit);
                self.workers.push(WorkerSim {
                    idx,
                    end,
                    open: true,
                    queue: VecDeque::new(),
                    picked: Vec::new(),
                });
                self.wq.push_worker(ah);
            }
            Eop::Inject(tok, k) => {
                if tok >= self.lfds.len() {
                    return;
                }
                let err = match k {
                    'w' => io::Error::from(io::ErrorKind::WouldBlock),
                    't' => io::Error::from(io::ErrorKind::ConnectionAborted),
                    _ => io::Error::from_raw_os_error(24), // EMFILE
                };
                v::inject_accept_error_fd(self.lfds[tok], err);
            }
        }
    }
}

// ---------------------------------------------------------------------------------------------
// one case
// ---------------------------------------------------------------------------------------------
fn snapshot(st: &Stepped, env: &Env, exited: bool) -> String {
    let maxidx = env.workers.iter().map(|w| w.idx).max().unwrap_or(0);
    let bits: String = (0..=maxidx).map(|i| if st.avail(i) { '1' } else { '0' }).collect();
    let hidx = st.handle_idxs().iter().map(|i| i.to_string()).collect::<Vec<_>>().join(",");
    let show = |it: &mut dyn Iterator<Item = &QConn>| {
        it.map(|c| format!("{}/{}", c.cid, c.tok)).collect::<Vec<_>>().join(",")
    };
    let workers = env
        .workers
        .iter()
        .enumerate()
        .map(|(g, w)| {
            format!(
                "w{}:{}:{}:q[{}]:p[{}]",
                g,
                w.idx,
                if w.open { "o" } else { "x" },
                show(&mut w.queue.iter()),
                show(&mut w.picked.iter().map(|(c, _)| c))
            )
        })
        .collect::<Vec<_>>()
        .join(" ");
    let lsts = (0..env.laddrs.len())
        .map(|t| format!("l{}:{}", t, if st.socket_has_timeout(t) { "t" } else { "-" }))
        .collect::<Vec<_>>()
        .join(" ");
    let diag = format!(
        "n{} c{} t{}",
        st.next(),
        env.workers.iter().map(|w| w.end.raw_counter().to_string()).collect::<Vec<_>>().join(","),
        st.poll_timeout().map(|d| d.as_millis().to_string()).unwrap_or_else(|| "-".into())
    );
    format!(
        "{}| a{} h[{}] {}{} wq{} | {} | {} | {}",
        env.events.join(" "),
        bits,
        hidx,
        if st.paused() { "P" } else { "-" },
        if exited { "S" } else { "-" },
        env.wq.len(),
        workers,
        lsts,
        diag
    )
}

fn run_case(line: &str, out: &Arc<Mutex<String>>, dir: &std::path::Path, case_no: usize) {
    let mut w = 1usize;
    let mut limit = 1usize;
    let mut kinds = String::new();
    let mut ops: Vec<Op> = vec![];
    for kv in line.split(';') {
        let (k, val) = kv.split_once('=').unwrap_or((kv, ""));
        match k {
            "W" => w = val.parse().unwrap(),
            "L" => limit = val.parse().unwrap(),
            "K" => kinds = val.to_string(),
            "ops" => ops = val.split(' ').filter(|s| !s.is_empty()).map(parse_op).collect(),
            _ => {}
        }
    }

    // virtual clock: the accept loop reads actix_rt::time::Instant (= tokio's), which follows a paused
    // runtime when called under its context
    let rt = tokio::runtime::Builder::new_current_thread()
        .enable_time()
        .start_paused(true)
        .build()
        .unwrap();
    let _enter = rt.enter();

    let (poll, wq) = Stepped::poll_and_queue().unwrap();
    let mut listeners = vec![];
    let mut laddrs = vec![];
    for (i, k) in kinds.chars().enumerate() {
        if k == 'U' {
            let path = dir.join(format!("c{}_{}.sock", case_no, i));
            let _ = std::fs::remove_file(&path);
            let l = std::os::unix::net::UnixListener::bind(&path).unwrap();
            l.set_nonblocking(true).unwrap();
            listeners.push(Listener::uds(l));
            laddrs.push(LAddr::Uds(path));
        } else {
            let l = std::net::TcpListener::bind("127.0.0.1:0").unwrap();
            l.set_nonblocking(true).unwrap();
            laddrs.push(LAddr::Tcp(l.local_addr().unwrap()));
            listeners.push(Listener::tcp(l));
        }
    }
    let mut handles = vec![];
    let mut workers = vec![];
    for idx in 0..w {
        let (ah, _srv, end) = v::link(idx, &wq, limit);
        handles.push(ah);
        workers.push(WorkerSim { idx, end, open: true, queue: VecDeque::new(), picked: Vec::new() });
    }
    let mut st = Stepped::new(poll, &wq, listeners, handles).unwrap();
    let lfds = (0..laddrs.len()).map(|t| st.listener_fd(t)).collect();
    let env = Rc::new(RefCell::new(Env {
        wq: wq.clone(),
        limit,
        workers,
        laddrs,
        lfds,
        clients: HashMap::new(),
        tcp_peers: HashMap::new(),
        events: vec![],
        pending_handles: vec![],
    }));
    let ysched: Rc<RefCell<VecDeque<Vec<Eop>>>> = Rc::new(RefCell::new(VecDeque::new()));
    {
        let env = env.clone();
        let ysched = ysched.clone();
        v::set_yield_hook(Some(Box::new(move || {
            let mut env = env.borrow_mut();
            env.sync();
            let ops = ysched.borrow_mut().pop_front().unwrap_or_default();
            for o in &ops {
                env.exec(o);
            }
        })));
    }

    let mut exited = false;
    let mut first = true;
    for op in &ops {
        env.borrow_mut().events.clear();
        let res = catch_unwind(AssertUnwindSafe(|| {
            let set_ys = |ys: &Vec<Vec<Eop>>| {
                *ysched.borrow_mut() = ys.iter().cloned().collect();
            };
            match op {
                Op::E(e) => env.borrow_mut().exec(e),
                Op::Advance(ms) => rt.block_on(tokio::time::advance(Duration::from_millis(*ms))),
                Op::AcceptTok(tok, ys) => {
                    if !exited {
                        set_ys(ys);
                        st.accept(*tok);
                    }
                }
                Op::HandleWaker(ys) => {
                    if !exited {
                        set_ys(ys);
                        if st.handle_waker() {
                            exited = true;
                            env.borrow_mut().events.push("EXIT".into());
                        }
                    }
                }
                Op::ProcessTimeout => {
                    if !exited {
                        st.process_timeout();
                    }
                }
                Op::Turn(ys) => {
                    if !exited {
                        set_ys(ys);
                        let mut toks = st.poll_events(Some(Duration::from_millis(0))).unwrap();
                        toks.sort_unstable();
                        toks.dedup();
                        let waker = toks.last() == Some(&usize::MAX);
                        if waker {
                            toks.pop();
                        }
                        env.borrow_mut().events.push(format!(
                            "Y{}{}",
                            toks.iter().map(|t| t.to_string()).collect::<Vec<_>>().join(","),
                            if waker { "w" } else { "" }
                        ));
                        for t in toks {
                            st.accept(t);
                        }
                        if waker && st.handle_waker() {
                            exited = true;
                            env.borrow_mut().events.push("EXIT".into());
                        }
                        if !exited {
                            st.process_timeout();
                        }
                    }
                }
            }
            ysched.borrow_mut().clear();
        }));
        let mut o = out.lock().unwrap();
        if !first {
            o.push_str(" ; ");
        }
        first = false;
        match res {
            Ok(()) => {
                let mut e = env.borrow_mut();
                e.sync();
                let mut f = st.faulted();
                // canonical order: dispatch/ready/connect-fail events as they happened, then fault notices
                let fs: Vec<String> = f.drain(..).map(|i| format!("F{}", i)).collect();
                e.events.extend(fs);
                o.push_str(&snapshot(&st, &e, exited));
            }
            Err(_) => {
                o.push_str("PANIC");
                break;
            }
        }
    }
    v::set_yield_hook(None);
    let _ = env.borrow_mut().pending_handles.len();
    // remove socket files
    for l in &env.borrow().laddrs {
        if let LAddr::Uds(p) = l {
            let _ = std::fs::remove_file(p);
        }
    }
}

// ---------------------------------------------------------------------------------------------
// availability bitset
// ---------------------------------------------------------------------------------------------
fn avail_case(line: &str) -> String {
    let mut a = v::Avail::default();
    let mut out = String::new();
    for o in line.split(' ').filter(|s| !s.is_empty()) {
        let rest = &o[1..];
        let r = catch_unwind(AssertUnwindSafe(|| match o.as_bytes()[0] {
            b's' => {
                let (i, val) = rest.split_once(':').unwrap();
                a.set(i.parse().unwrap(), val == "1");
                '.'
            }
            b'g' => {
                if a.get(rest.parse().unwrap()) {
                    '1'
                } else {
                    '0'
                }
            }
            _ => {
                if a.available() {
                    'T'
                } else {
                    'F'
                }
            }
        }));
        match r {
            Ok(c) => out.push(c),
            Err(_) => {
                out.push('!');
                break;
            }
        }
    }
    out
}

/// probe: Pause is queued BEFORE a client connects, then ONE real poll batch is processed in epoll's own order
/// (Stepped::turn mirrors poll_with). Prints the batch order, whether the loop is paused and how many
/// connections were dispatched.
fn probe_pause_batch() {
    let rt = tokio::runtime::Builder::new_current_thread().enable_time().start_paused(true).build().unwrap();
    let _e = rt.enter();
    let (poll, wq) = Stepped::poll_and_queue().unwrap();
    let l = std::net::TcpListener::bind("127.0.0.1:0").unwrap();
    l.set_nonblocking(true).unwrap();
    let addr = l.local_addr().unwrap();
    let (ah, _srv, mut end) = v::link(0, &wq, 10);
    let mut st = Stepped::new(poll, &wq, vec![Listener::tcp(l)], vec![ah]).unwrap();
    wq.wake(Cmd::Pause);
    let _c = std::net::TcpStream::connect(addr).unwrap();
    let (toks, _exit) = st.turn(Some(Duration::from_millis(0))).unwrap();
    let mut n = 0;
    while end.try_recv().is_some() {
        n += 1;
    }
    println!("batch={:?} paused={} dispatched_after_pause={}", toks, st.paused(), n);
}

fn main() {
    let mode = std::env::args().nth(1).expect("mode");
    if mode == "probe_pause_batch" {
        probe_pause_batch();
        return;
    }
    std::panic::set_hook(Box::new(|_| {}));
    let stdin = io::stdin();
    let stdout = io::stdout();
    let mut outw = io::BufWriter::new(stdout.lock());
    let dir = std::env::temp_dir().join(format!("h_server_{}", std::process::id()));
    std::fs::create_dir_all(&dir).unwrap();
    let mut spins = 0;
    for (n, line) in stdin.lock().lines().enumerate() {
        let line = line.unwrap();
        match mode.as_str() {
            "avail" => writeln!(outw, "{}", avail_case(&line)).unwrap(),
            "bld" => {
                let r = catch_unwind(AssertUnwindSafe(|| bld::run(&line, &dir, n))).unwrap_or_else(|_| "HARNESS_PANIC".into());
                writeln!(outw, "{r}").unwrap();
                outw.flush().unwrap();
            }
            "srv" => {
                // each case on its own thread: an accept loop that never returns (spin) is abandoned
                let out = Arc::new(Mutex::new(String::new()));
                let (tx, rx) = mpsc::channel();
                let out2 = out.clone();
                let dir2 = dir.clone();
                std::thread::spawn(move || {
                    let r = catch_unwind(AssertUnwindSafe(|| run_case(&line, &out2, &dir2, n)));
                    let _ = tx.send(r.is_ok());
                });
                if spins >= 3 {
                    // several accept loops of this process are already spinning: do not pile up more
                    writeln!(outw, "SKIPPED").unwrap();
                    continue;
                }
                match rx.recv_timeout(Duration::from_secs(4)) {
                    Ok(true) => writeln!(outw, "{}", out.lock().unwrap()).unwrap(),
                    Ok(false) => writeln!(outw, "{} ; HARNESS_PANIC", out.lock().unwrap()).unwrap(),
                    Err(_) => {
                        spins += 1;
                        let o = out.lock().unwrap().clone();
                        if o.is_empty() {
                            writeln!(outw, "SPIN").unwrap()
                        } else {
                            writeln!(outw, "{} ; SPIN", o).unwrap()
                        }
                    }
                }
            }
            m => panic!("unknown mode {m}"),
        }
    }
    outw.flush().unwrap();
    let _ = std::fs::remove_dir_all(&dir);
    std::process::exit(0);
}
