(* Proofs/TlsAcceptFacts.v — lemmas about Model/TlsAccept.v (C18). *)
From AN Require Import Model.TlsAccept.
From Coq Require Import Lia Arith PeanoNat.

(* ------------------------------------------------------------ AcceptFut::poll *)

Definition poll_spec (t : N) (f : fut) : pres :=
  match hd HPending (f_script f) with
  | HDone => Ready OOk
  | HFailed e => Ready (OTls e)
  | HPending => if f_deadline f <=? t then Ready OTimeout else Pending
  end.

Lemma poll_fut_result : forall t w f,
  let '(f', a, r) := poll_fut t w f in
  a = hd HPending (f_script f) /\ r = poll_spec t f
  /\ f_deadline f' = f_deadline f /\ f_script f' = tl (f_script f)
  /\ f_done f' = match r with Pending => false | Ready _ => true end
  /\ f_timer f' = match r with Pending => Some w | Ready _ => f_timer f end.
Proof.
  intros t w f. unfold poll_fut, poll_spec.
  destruct (hd HPending (f_script f)) as [| |e]; cbn; auto 10.
  destruct (f_deadline f <=? t); cbn; auto 10.
Qed.

Lemma poll_timeout_iff : forall t f,
  poll_spec t f = Ready OTimeout <-> hd HPending (f_script f) = HPending /\ f_deadline f <= t.
Proof.
  intros t f. unfold poll_spec. destruct (hd HPending (f_script f)) as [| |e].
  - destruct (f_deadline f <=? t) eqn:E.
    + apply N.leb_le in E. tauto.
    + apply N.leb_gt in E. split; [discriminate | intros [_ H]; lia].
  - split; [discriminate | intros [H _]; discriminate].
  - split; [discriminate | intros [H _]; discriminate].
Qed.

Lemma poll_pending_iff : forall t f,
  poll_spec t f = Pending <-> hd HPending (f_script f) = HPending /\ t < f_deadline f.
Proof.
  intros t f. unfold poll_spec. destruct (hd HPending (f_script f)) as [| |e].
  - destruct (f_deadline f <=? t) eqn:E.
    + apply N.leb_le in E. split; [discriminate | intros [_ H]; lia].
    + apply N.leb_gt in E. tauto.
  - split; [discriminate | intros [H _]; discriminate].
  - split; [discriminate | intros [H _]; discriminate].
Qed.

(* the handshake is asked first: if it is finished in this poll its answer is the result,
   however late the poll comes *)
Lemma poll_handshake_wins : forall t f,
  (hd HPending (f_script f) = HDone -> poll_spec t f = Ready OOk)
  /\ (forall e, hd HPending (f_script f) = HFailed e -> poll_spec t f = Ready (OTls e)).
Proof. intros t f. unfold poll_spec. split; [intros ->|intros e ->]; reflexivity. Qed.

Lemma poll_not_pending_after_deadline : forall t f, f_deadline f <= t -> poll_spec t f <> Pending.
Proof. intros t f H E. apply poll_pending_iff in E. lia. Qed.

(* ---------------------------------------------------------- association lists *)

Lemma lookup_In : forall id l f, lookup id l = Some f -> In (id, f) l.
Proof.
  induction l as [|[k g] t IH]; cbn [lookup]; intros f H; [discriminate|].
  destruct (Nat.eqb k id) eqn:E.
  - apply Nat.eqb_eq in E. inversion H; subst. left; reflexivity.
  - right. apply IH, H.
Qed.

Lemma lookup_None_notin : forall id l, lookup id l = None -> ~ In id (map fst l).
Proof.
  induction l as [|[k g] t IH]; cbn [lookup map fst]; intros H I; [contradiction|].
  destruct (Nat.eqb k id) eqn:E; [discriminate|]. apply Nat.eqb_neq in E.
  destruct I as [I|I]; [contradiction | exact (IH H I)].
Qed.

Lemma In_lookup : forall id l f, NoDup (map fst l) -> In (id, f) l -> lookup id l = Some f.
Proof.
  induction l as [|[k g] t IH]; cbn [lookup map fst]; intros f N I; [contradiction|].
  inversion N as [|? ? NI N']; subst. destruct I as [I|I].
  - inversion I; subst. rewrite Nat.eqb_refl. reflexivity.
  - destruct (Nat.eqb k id) eqn:E.
    + apply Nat.eqb_eq in E. subst. exfalso. apply NI. apply (in_map fst) in I. exact I.
    + apply IH; assumption.
Qed.

Lemma update_keys : forall id g l, map fst (update id g l) = map fst l.
Proof.
  induction l as [|[k f] t IH]; cbn [update map fst]; [reflexivity|].
  destruct (Nat.eqb k id); cbn [map fst]; [reflexivity | rewrite IH; reflexivity].
Qed.

Lemma update_length : forall id g l, length (update id g l) = length l.
Proof. intros. rewrite <- (map_length fst), update_keys, map_length. reflexivity. Qed.

Lemma update_In : forall id g l k f, In (k, f) (update id g l) -> (k = id /\ f = g) \/ In (k, f) l.
Proof.
  induction l as [|[k0 f0] t IH]; cbn [update]; intros k f I; [contradiction|].
  destruct (Nat.eqb k0 id) eqn:E.
  - apply Nat.eqb_eq in E. destruct I as [I|I]; [inversion I; subst; auto | right; right; exact I].
  - destruct I as [I|I]; [right; left; exact I|]. destruct (IH _ _ I); [auto | right; right; assumption].
Qed.

Lemma lookup_update_same : forall id g l f, lookup id l = Some f -> lookup id (update id g l) = Some g.
Proof.
  induction l as [|[k f0] t IH]; cbn [lookup update]; intros f H; [discriminate|].
  destruct (Nat.eqb k id) eqn:E; cbn [lookup]; rewrite E; [reflexivity | eapply IH, H].
Qed.

Lemma lookup_update_other : forall id k g l, k <> id -> lookup k (update id g l) = lookup k l.
Proof.
  induction l as [|[k0 f0] t IH]; cbn [lookup update]; intros NE; [reflexivity|].
  destruct (Nat.eqb k0 id) eqn:E; cbn [lookup].
  - apply Nat.eqb_eq in E. subst. destruct (Nat.eqb id k) eqn:E2; [apply Nat.eqb_eq in E2; congruence | reflexivity].
  - destruct (Nat.eqb k0 k); [reflexivity | apply IH, NE].
Qed.

Lemma remove_In : forall id l k f, In (k, f) (remove id l) -> In (k, f) l.
Proof.
  induction l as [|[k0 f0] t IH]; cbn [remove]; intros k f I; [contradiction|].
  destruct (Nat.eqb k0 id); [right; exact I|]. destruct I as [I|I]; [left; exact I | right; apply IH, I].
Qed.

Lemma remove_length : forall id l f, lookup id l = Some f -> S (length (remove id l)) = length l.
Proof.
  induction l as [|[k0 f0] t IH]; cbn [lookup remove]; intros f H; [discriminate|].
  destruct (Nat.eqb k0 id); cbn [length]; [reflexivity | rewrite (IH f H); reflexivity].
Qed.

Lemma remove_keys_incl : forall id l k, In k (map fst (remove id l)) -> In k (map fst l).
Proof.
  induction l as [|[k0 f0] t IH]; cbn [remove map fst]; intros k I; [contradiction|].
  destruct (Nat.eqb k0 id); [right; exact I|]. cbn [map fst] in I. destruct I as [I|I]; [left; exact I | right; apply IH, I].
Qed.

Lemma remove_NoDup : forall id l, NoDup (map fst l) -> NoDup (map fst (remove id l)).
Proof.
  induction l as [|[k0 f0] t IH]; cbn [remove map fst]; intros N; [constructor|].
  inversion N as [|? ? NI N']; subst. destruct (Nat.eqb k0 id); [exact N'|].
  cbn [map fst]. constructor; [intros I; apply NI, (remove_keys_incl id), I | apply IH, N'].
Qed.

Lemma lookup_remove_same : forall id l, NoDup (map fst l) -> lookup id (remove id l) = None.
Proof.
  induction l as [|[k0 f0] t IH]; cbn [remove map fst]; intros N; [reflexivity|].
  inversion N as [|? ? NI N']; subst. destruct (Nat.eqb k0 id) eqn:E.
  - apply Nat.eqb_eq in E. subst. destruct (lookup id t) eqn:L; [|reflexivity].
    exfalso. apply NI. apply lookup_In in L. apply (in_map fst) in L. exact L.
  - cbn [lookup]. rewrite E. apply IH, N'.
Qed.

Lemma lookup_remove_other : forall id k l, k <> id -> lookup k (remove id l) = lookup k l.
Proof.
  induction l as [|[k0 f0] t IH]; cbn [lookup remove]; intros NE; [reflexivity|].
  destruct (Nat.eqb k0 id) eqn:E; cbn [lookup].
  - apply Nat.eqb_eq in E. subst. destruct (Nat.eqb id k) eqn:E2; [apply Nat.eqb_eq in E2; congruence | reflexivity].
  - destruct (Nat.eqb k0 k); [reflexivity | apply IH, NE].
Qed.

(* ------------------------------------------------------------- the timer wheel *)

Lemma fire_keys : forall t0 t1 l, map fst (fst (fire t0 t1 l)) = map fst l.
Proof.
  induction l as [|[k f] t IH]; cbn [fire]; [reflexivity|].
  destruct (fire t0 t1 t) as [t' ws]. cbn [fst] in IH.
  destruct (f_timer f); [destruct (crosses t0 t1 f)|]; cbn [fst map]; rewrite IH; reflexivity.
Qed.

Lemma fire_length : forall t0 t1 l, length (fst (fire t0 t1 l)) = length l.
Proof. intros. rewrite <- (map_length fst), fire_keys, map_length. reflexivity. Qed.

(* what the wheel does to one entry *)
Definition fired (t0 t1 : N) (f : fut) : fut :=
  match f_timer f with
  | Some _ => if crosses t0 t1 f then mkfut (f_script f) (f_deadline f) None (f_done f) else f
  | None => f
  end.

Lemma fire_In : forall t0 t1 l k f', In (k, f') (fst (fire t0 t1 l)) -> exists f, In (k, f) l /\ f' = fired t0 t1 f.
Proof.
  induction l as [|[k0 f0] t IH]; cbn [fire]; intros k f' I; [contradiction|].
  destruct (fire t0 t1 t) as [t' ws]. cbn [fst] in IH.
  assert (H : In (k, f') ((k0, fired t0 t1 f0) :: t')).
  { unfold fired. destruct (f_timer f0); [destruct (crosses t0 t1 f0)|]; exact I. }
  destruct H as [H|H].
  - inversion H; subst. exists f0. split; [left; reflexivity | reflexivity].
  - destruct (IH _ _ H) as [f [I1 E]]. exists f. split; [right; exact I1 | exact E].
Qed.

Lemma fire_lookup : forall t0 t1 l id,
  lookup id (fst (fire t0 t1 l)) = option_map (fired t0 t1) (lookup id l).
Proof.
  induction l as [|[k0 f0] t IH]; cbn [fire]; intros id; [reflexivity|].
  destruct (fire t0 t1 t) as [t' ws]. cbn [fst] in IH.
  assert (H : lookup id (fst (match f_timer f0 with
                 | Some w => if crosses t0 t1 f0
                             then ((k0, mkfut (f_script f0) (f_deadline f0) None (f_done f0)) :: t', ObsWake w :: ws)
                             else ((k0, f0) :: t', ws)
                 | None => ((k0, f0) :: t', ws) end))
              = lookup id ((k0, fired t0 t1 f0) :: t')).
  { unfold fired. destruct (f_timer f0); [destruct (crosses t0 t1 f0)|]; reflexivity. }
  rewrite H. cbn [lookup]. destruct (Nat.eqb k0 id); [reflexivity | apply IH].
Qed.

Lemma fire_wakes : forall t0 t1 l k f w,
  In (k, f) l -> f_timer f = Some w -> crosses t0 t1 f = true -> In (ObsWake w) (snd (fire t0 t1 l)).
Proof.
  induction l as [|[k0 f0] t IH]; cbn [fire]; intros k f w I T C; [contradiction|].
  destruct (fire t0 t1 t) as [t' ws] eqn:F. cbn [snd] in IH.
  destruct I as [I|I].
  - inversion I; subst. rewrite T, C. left; reflexivity.
  - specialize (IH _ _ _ I T C).
    destruct (f_timer f0); [destruct (crosses t0 t1 f0)|]; cbn [snd]; auto. right; exact IH.
Qed.

Lemma fire_only_wakes : forall t0 t1 l o, In o (snd (fire t0 t1 l)) ->
  exists k f w, o = ObsWake w /\ In (k, f) l /\ f_timer f = Some w /\ crosses t0 t1 f = true.
Proof.
  induction l as [|[k0 f0] t IH]; cbn [fire]; intros o I; [contradiction|].
  destruct (fire t0 t1 t) as [t' ws] eqn:F. cbn [snd] in IH.
  destruct (f_timer f0) as [w0|] eqn:T.
  - destruct (crosses t0 t1 f0) eqn:C; cbn [snd] in I.
    + destruct I as [I|I].
      * exists k0, f0, w0. subst o. repeat split; auto. left; reflexivity.
      * destruct (IH _ I) as [k [f [w [E [I1 R]]]]]. exists k, f, w. split; [exact E|]. split; [right; exact I1 | exact R].
    + destruct (IH _ I) as [k [f [w [E [I1 R]]]]]. exists k, f, w. split; [exact E|]. split; [right; exact I1 | exact R].
  - cbn [snd] in I. destruct (IH _ I) as [k [f [w [E [I1 R]]]]]. exists k, f, w. split; [exact E|]. split; [right; exact I1 | exact R].
Qed.

(* ------------------------------------------------------------------ invariant *)

Record Inv (s : st) : Prop := {
  inv_count : count s = N.of_nat (length (futs s));
  inv_nodup : NoDup (map fst (futs s));
  inv_parked : parked s <> None -> cap s <= count s;
  inv_timer : forall k f w, In (k, f) (futs s) -> f_timer f = Some w -> now s < f_deadline f
}.

Lemma inv_init : forall c, Inv (init c).
Proof.
  intros c. constructor; cbn.
  - reflexivity.
  - constructor.
  - intros H; contradiction.
  - intros k f w [].
Qed.

Lemma inv_step : forall s o, Inv s -> Inv (fst (step s o)).
Proof.
  intros s o [IC IN IP IT]. destruct o as [w|id sc tmo|id w|id|d]; cbn [step].
  - (* PollReady *)
    unfold available. destruct (count s <? cap s) eqn:A; cbn [fst]; constructor; cbn; auto.
    intros _. apply N.ltb_ge in A. exact A.
  - (* Call *)
    destruct (lookup id (futs s)) eqn:L; cbn [fst]; constructor; cbn; auto.
    + rewrite IC. lia.
    + constructor; [apply lookup_None_notin, L | exact IN].
    + intros H. specialize (IP H). lia.
    + intros k f w [I|I] T; [inversion I; subst; discriminate | eapply IT; eauto].
  - (* PollFut *)
    destruct (lookup id (futs s)) as [f|] eqn:L; [|cbn [fst]; constructor; auto].
    destruct (f_done f); [cbn [fst]; constructor; auto|].
    pose proof (poll_fut_result (now s) w f) as R.
    destruct (poll_fut (now s) w f) as [[f' a] r]. destruct R as [_ [Rr [Rd [_ [_ Rt]]]]].
    cbn [fst]. constructor; cbn.
    + rewrite update_length. exact IC.
    + rewrite update_keys. exact IN.
    + exact IP.
    + intros k g w0 I T. apply update_In in I. destruct I as [[-> ->]|I]; [|eapply IT; eauto].
      rewrite Rd. rewrite Rt in T. destruct r as [|o].
      * symmetry in Rr. apply poll_pending_iff in Rr. tauto.
      * eapply IT; [apply lookup_In, L | exact T].
  - (* DropFut *)
    destruct (lookup id (futs s)) as [f|] eqn:L; [|cbn [fst]; constructor; auto].
    cbn [fst]. pose proof (remove_length id (futs s) f L) as RL. constructor; cbn.
    + rewrite IC. lia.
    + apply remove_NoDup, IN.
    + destruct (count s =? cap s) eqn:E; [intros H; contradiction|].
      apply N.eqb_neq in E. intros H. specialize (IP H). lia.
    + intros k g w I T. eapply IT; [eapply remove_In, I | exact T].
  - (* Advance *)
    pose proof (fire_length (now s) (now s + d) (futs s)) as FL.
    pose proof (fire_keys (now s) (now s + d) (futs s)) as FK.
    pose proof (fire_In (now s) (now s + d) (futs s)) as FI.
    destruct (fire (now s) (now s + d) (futs s)) as [l ws]. cbn [fst] in *.
    constructor; cbn.
    + rewrite FL. exact IC.
    + rewrite FK. exact IN.
    + exact IP.
    + intros k g w I T. destruct (FI _ _ I) as [f [I0 ->]]. unfold fired in *.
      destruct (f_timer f) as [w0|] eqn:T0; [|rewrite T0 in T; discriminate].
      destruct (crosses (now s) (now s + d) f) eqn:C; [cbn in T; discriminate|].
      specialize (IT _ _ _ I0 T0). unfold crosses in C.
      apply andb_false_iff in C. destruct C as [C|C].
      * apply N.ltb_ge in C. lia.
      * apply N.leb_gt in C. exact C.
Qed.

Lemma inv_run : forall ops s, Inv s -> Inv (fst (run s ops)).
Proof.
  induction ops as [|o t IH]; intros s I; cbn [run]; [exact I|].
  pose proof (inv_step s o I) as I1. destruct (step s o) as [s1 ob]. cbn [fst] in I1.
  specialize (IH s1 I1). destruct (run s1 t) as [s2 obs]. exact IH.
Qed.

Definition reachable (s : st) : Prop := exists c ops, s = fst (run (init c) ops).

Lemma reachable_inv : forall s, reachable s -> Inv s.
Proof. intros s [c [ops ->]]. apply inv_run, inv_init. Qed.

Lemma reachable_step : forall s o, reachable s -> reachable (fst (step s o)).
Proof.
  intros s o [c [ops ->]]. exists c, (ops ++ [o]).
  assert (H : forall l s0, fst (run s0 (l ++ [o])) = fst (step (fst (run s0 l)) o)).
  { induction l as [|x t IH]; intros s0; cbn [run app fst].
    - destruct (step s0 o) as [s1 ob]. reflexivity.
    - destruct (step s0 x) as [s1 ob]. specialize (IH s1).
      destruct (run s1 (t ++ [o])) as [s2 obs2]. destruct (run s1 t) as [s3 obs3]. cbn [fst] in *. exact IH. }
  rewrite H. reflexivity.
Qed.

Lemma cap_step : forall s o, cap (fst (step s o)) = cap s.
Proof.
  intros s o. destruct o as [w|id sc tmo|id w|id|d]; cbn [step].
  - destruct (available s); reflexivity.
  - destruct (lookup id (futs s)); reflexivity.
  - destruct (lookup id (futs s)) as [f|]; [|reflexivity]. destruct (f_done f); [reflexivity|].
    destruct (poll_fut (now s) w f) as [[f' a] r]. reflexivity.
  - destruct (lookup id (futs s)); reflexivity.
  - destruct (fire (now s) (now s + d) (futs s)). reflexivity.
Qed.

(* ---------------------------------------------------------------- C18_outcome *)

(* what one poll of a live, unfinished accept future does, completely *)
Lemma step_poll : forall s id w f,
  lookup id (futs s) = Some f -> f_done f = false ->
  let a := hd HPending (f_script f) in
  let r := poll_spec (now s) f in
  exists f',
    step s (PollFut id w) =
      (mkst (now s) (count s) (cap s) (parked s) (update id f' (futs s)),
       ObsHs id a :: match r with
                     | Pending => [ObsTimerReg id w (f_deadline f); ObsPoll id r]
                     | Ready _ => [ObsPoll id r]
                     end)
    /\ f_deadline f' = f_deadline f /\ f_script f' = tl (f_script f)
    /\ f_done f' = match r with Pending => false | Ready _ => true end
    /\ f_timer f' = match r with Pending => Some w | Ready _ => f_timer f end.
Proof.
  intros s id w f L D a r. cbn [step]. rewrite L, D.
  pose proof (poll_fut_result (now s) w f) as R.
  destruct (poll_fut (now s) w f) as [[f' a'] r']. destruct R as [-> [-> R]].
  exists f'. split; [reflexivity | exact R].
Qed.

(* a finished future is not polled again: the call is a caller error and touches nothing *)
Lemma step_poll_done : forall s id w f,
  lookup id (futs s) = Some f -> f_done f = true -> step s (PollFut id w) = (s, [ObsMisuse id]).
Proof. intros s id w f L D. cbn [step]. rewrite L, D. reflexivity. Qed.

(* once Ready, always done — until the future is dropped *)
Lemma done_stable : forall s o id f f',
  lookup id (futs s) = Some f -> f_done f = true ->
  lookup id (futs (fst (step s o))) = Some f' -> Inv s ->
  f_done f' = true /\ f_script f' = f_script f /\ f_deadline f' = f_deadline f.
Proof.
  intros s o id f f' L D L' I. destruct o as [w|id2 sc tmo|id2 w|id2|d]; cbn [step] in L'.
  - destruct (available s); cbn in L'; rewrite L in L'; inversion L'; subst; auto.
  - destruct (lookup id2 (futs s)) eqn:L2; cbn in L'.
    + rewrite L in L'; inversion L'; subst; auto.
    + destruct (Nat.eqb id2 id) eqn:E.
      * apply Nat.eqb_eq in E. subst. rewrite L in L2. discriminate.
      * rewrite L in L'. inversion L'; subst; auto.
  - destruct (lookup id2 (futs s)) as [g|] eqn:L2; [|cbn in L'; rewrite L in L'; inversion L'; subst; auto].
    destruct (f_done g) eqn:Dg; [cbn in L'; rewrite L in L'; inversion L'; subst; auto|].
    destruct (poll_fut (now s) w g) as [[g' a] r]. cbn in L'.
    destruct (Nat.eq_dec id id2) as [->|NE].
    + rewrite L in L2. inversion L2; subst. congruence.
    + rewrite lookup_update_other in L' by exact NE. rewrite L in L'. inversion L'; subst; auto.
  - destruct (lookup id2 (futs s)) as [g|] eqn:L2; [|cbn in L'; rewrite L in L'; inversion L'; subst; auto].
    cbn in L'. destruct (Nat.eq_dec id id2) as [->|NE].
    + rewrite lookup_remove_same in L' by apply I. discriminate.
    + rewrite lookup_remove_other in L' by exact NE. rewrite L in L'. inversion L'; subst; auto.
  - pose proof (fire_lookup (now s) (now s + d) (futs s) id) as FL.
    destruct (fire (now s) (now s + d) (futs s)) as [l ws]. cbn in L', FL.
    rewrite L' , L in FL. cbn in FL. inversion FL; subst. unfold fired.
    destruct (f_timer f); [destruct (crosses (now s) (now s + d) f)|]; cbn; auto.
Qed.

(* the deadline is fixed by `call` and never moves while the future exists *)
Lemma step_call : forall s id sc tmo,
  lookup id (futs s) = None ->
  step s (Call id sc tmo) =
    (mkst (now s) (count s + 1) (cap s) (parked s) ((id, mkfut sc (now s + tmo) None false) :: futs s),
     [ObsCalled id (now s + tmo)]).
Proof. intros s id sc tmo L. cbn [step]. rewrite L. reflexivity. Qed.

Lemma deadline_stable : forall s o id f f',
  lookup id (futs s) = Some f -> lookup id (futs (fst (step s o))) = Some f' -> Inv s ->
  f_deadline f' = f_deadline f.
Proof.
  intros s o id f f' L L' I. destruct o as [w|id2 sc tmo|id2 w|id2|d]; cbn [step] in L'.
  - destruct (available s); cbn in L'; rewrite L in L'; inversion L'; subst; auto.
  - destruct (lookup id2 (futs s)) eqn:L2; cbn in L'.
    + rewrite L in L'; inversion L'; subst; auto.
    + destruct (Nat.eqb id2 id) eqn:E.
      * apply Nat.eqb_eq in E. subst. rewrite L in L2. discriminate.
      * rewrite L in L'. inversion L'; subst; auto.
  - destruct (lookup id2 (futs s)) as [g|] eqn:L2; [|cbn in L'; rewrite L in L'; inversion L'; subst; auto].
    destruct (f_done g) eqn:Dg; [cbn in L'; rewrite L in L'; inversion L'; subst; auto|].
    pose proof (poll_fut_result (now s) w g) as R.
    destruct (poll_fut (now s) w g) as [[g' a] r]. cbn in L'. destruct R as [_ [_ [Rd _]]].
    destruct (Nat.eq_dec id id2) as [->|NE].
    + rewrite L in L2. inversion L2; subst.
      rewrite (lookup_update_same id2 g' (futs s) g L) in L'. inversion L'; subst. exact Rd.
    + rewrite lookup_update_other in L' by exact NE. rewrite L in L'. inversion L'; subst; auto.
  - destruct (lookup id2 (futs s)) as [g|] eqn:L2; [|cbn in L'; rewrite L in L'; inversion L'; subst; auto].
    cbn in L'. destruct (Nat.eq_dec id id2) as [->|NE].
    + rewrite lookup_remove_same in L' by apply I. discriminate.
    + rewrite lookup_remove_other in L' by exact NE. rewrite L in L'. inversion L'; subst; auto.
  - pose proof (fire_lookup (now s) (now s + d) (futs s) id) as FL.
    destruct (fire (now s) (now s + d) (futs s)) as [l ws]. cbn in L', FL.
    rewrite L', L in FL. cbn in FL. inversion FL; subst. unfold fired.
    destruct (f_timer f); [destruct (crosses (now s) (now s + d) f)|]; cbn; auto.
Qed.

(* ----------------------------------------------------------- C18_timeout_exact *)

(* the clock reaching the deadline wakes the waker the last Pending poll left with the timer *)
Lemma advance_wakes : forall s id f w d,
  reachable s -> lookup id (futs s) = Some f -> f_timer f = Some w -> f_deadline f <= now s + d ->
  In (ObsWake w) (snd (step s (Advance d))).
Proof.
  intros s id f w d R L T D. apply reachable_inv in R. cbn [step].
  pose proof (fire_wakes (now s) (now s + d) (futs s) id f w (lookup_In _ _ _ L) T) as FW.
  destruct (fire (now s) (now s + d) (futs s)) as [l ws]. cbn [snd] in *. apply FW.
  unfold crosses. pose proof (inv_timer s R id f w (lookup_In _ _ _ L) T) as LT.
  apply andb_true_iff. split; [apply N.ltb_lt, LT | apply N.leb_le, D].
Qed.

(* ... and it wakes nothing too early: every wake of an Advance is a timer whose deadline was reached by it *)
Lemma advance_only_due : forall s d o,
  In o (snd (step s (Advance d))) ->
  exists id f w, o = ObsWake w /\ In (id, f) (futs s) /\ f_timer f = Some w
                 /\ now s < f_deadline f <= now s + d.
Proof.
  intros s d o I. cbn [step] in I.
  pose proof (fire_only_wakes (now s) (now s + d) (futs s) o) as FO.
  destruct (fire (now s) (now s + d) (futs s)) as [l ws]. cbn [snd] in *.
  destruct (FO I) as [k [f [w [E [I1 [T C]]]]]]. exists k, f, w. repeat split; auto;
    unfold crosses in C; apply andb_true_iff in C; destruct C as [C1 C2];
    [apply N.ltb_lt, C1 | apply N.leb_le, C2].
Qed.

(* executor view: the Advance that reaches the deadline wakes the registered waker, and the poll that
   wake-up triggers resolves the call (handshake result if it finished meanwhile, else Timeout) *)
Lemma resolves_at_deadline : forall s id f w d w',
  reachable s -> lookup id (futs s) = Some f -> f_done f = false -> f_timer f = Some w ->
  f_deadline f <= now s + d ->
  let s1 := fst (step s (Advance d)) in
  In (ObsWake w) (snd (step s (Advance d)))
  /\ now s1 = now s + d
  /\ exists o, In (ObsPoll id (Ready o)) (snd (step s1 (PollFut id w'))).
Proof.
  intros s id f w d w' R L D T DL s1. split; [eapply advance_wakes; eauto|].
  assert (N1 : now s1 = now s + d).
  { unfold s1. cbn [step]. destruct (fire (now s) (now s + d) (futs s)). reflexivity. }
  split; [exact N1|].
  assert (L1 : lookup id (futs s1) = Some (fired (now s) (now s + d) f)).
  { unfold s1. cbn [step]. pose proof (fire_lookup (now s) (now s + d) (futs s) id) as FL.
    destruct (fire (now s) (now s + d) (futs s)) as [l ws]. cbn in *. rewrite FL, L. reflexivity. }
  set (f1 := fired (now s) (now s + d) f) in *.
  assert (F1 : f_done f1 = false /\ f_deadline f1 = f_deadline f /\ f_script f1 = f_script f).
  { unfold f1, fired. destruct (f_timer f); [destruct (crosses (now s) (now s + d) f)|]; cbn; auto. }
  destruct F1 as [D1 [DL1 SC1]].
  destruct (step_poll s1 id w' f1 L1 D1) as [f' [E _]]. rewrite E. cbn [snd].
  destruct (poll_spec (now s1) f1) as [|o] eqn:P.
  - exfalso. apply poll_pending_iff in P. rewrite N1, DL1 in P. lia.
  - exists o. right. left. reflexivity.
Qed.

(* ------------------------------------------------------------------- C18_gate *)

Lemma step_poll_ready : forall s w,
  step s (PollReady w) =
    if count s <? cap s then (s, [ObsReady true])
    else (mkst (now s) (count s) (cap s) (Some w) (futs s), [ObsReady false; ObsParked w]).
Proof. reflexivity. Qed.

Lemma ready_iff_below_max : forall s w, reachable s ->
  (In (ObsReady true) (snd (step s (PollReady w))) <-> N.of_nat (length (futs s)) < cap s)
  /\ (In (ObsReady false) (snd (step s (PollReady w))) <-> cap s <= N.of_nat (length (futs s))).
Proof.
  intros s w R. apply reachable_inv in R. rewrite step_poll_ready, <- (inv_count s R).
  destruct (count s <? cap s) eqn:A; cbn [snd].
  - apply N.ltb_lt in A. split; split.
    + intros _. exact A.
    + intros _. left; reflexivity.
    + intros [H|[]]; discriminate.
    + intros H. lia.
  - apply N.ltb_ge in A. split; split.
    + intros [H|[H|[]]]; discriminate.
    + intros H. lia.
    + intros _. exact A.
    + intros _. left; reflexivity.
Qed.

Lemma not_ready_parks : forall s w, cap s <= count s ->
  parked (fst (step s (PollReady w))) = Some w.
Proof.
  intros s w H. rewrite step_poll_ready. destruct (count s <? cap s) eqn:A; [apply N.ltb_lt in A; lia|].
  reflexivity.
Qed.

(* no lost wake-up: whenever a waker is parked the gate is closed *)
Lemma parked_means_full : forall s w, reachable s -> parked s = Some w ->
  cap s <= N.of_nat (length (futs s)).
Proof.
  intros s w R P. apply reachable_inv in R. rewrite <- (inv_count s R).
  apply (inv_parked s R). rewrite P. discriminate.
Qed.

(* the end of ANY in-flight handshake, at exactly the maximum, wakes the parked caller and opens the gate *)
Lemma drop_at_max_wakes : forall s id f w, reachable s ->
  lookup id (futs s) = Some f -> parked s = Some w -> N.of_nat (length (futs s)) = cap s ->
  let '(s', ob) := step s (DropFut id) in
  ob = [ObsWake w] /\ parked s' = None /\ N.of_nat (length (futs s')) < cap s' /\ lookup id (futs s') = None.
Proof.
  intros s id f w R L P M. apply reachable_inv in R. cbn [step]. rewrite L.
  pose proof (inv_count s R) as IC. rewrite M in IC. rewrite IC, N.eqb_refl, P. cbn.
  pose proof (remove_length id (futs s) f L) as RL.
  repeat split; try lia. apply lookup_remove_same, (inv_nodup s R).
Qed.

(* a drop wakes only then: above the maximum (over-acquisition) or below it nobody is woken, and the
   parked waker stays parked *)
Lemma drop_elsewhere_silent : forall s id f, reachable s ->
  lookup id (futs s) = Some f -> N.of_nat (length (futs s)) <> cap s ->
  let '(s', ob) := step s (DropFut id) in ob = [] /\ parked s' = parked s.
Proof.
  intros s id f R L M. apply reachable_inv in R. cbn [step]. rewrite L.
  pose proof (inv_count s R) as IC. destruct (count s =? cap s) eqn:E.
  - apply N.eqb_eq in E. congruence.
  - cbn. auto.
Qed.

Lemma drop_releases : forall s id f, reachable s -> lookup id (futs s) = Some f ->
  S (length (futs (fst (step s (DropFut id))))) = length (futs s).
Proof. intros s id f R L. cbn [step]. rewrite L. cbn. eapply remove_length, L. Qed.

(* only poll_ready, call and drop touch the gate: polls of accept futures — whatever their result —
   and the clock do not release anything *)
Lemma gate_untouched : forall s o,
  match o with PollFut _ _ | Advance _ => True | _ => False end ->
  count (fst (step s o)) = count s /\ parked (fst (step s o)) = parked s
  /\ map fst (futs (fst (step s o))) = map fst (futs s).
Proof.
  intros s o H. destruct o as [w|id sc tmo|id w|id|d]; try contradiction; cbn [step].
  - destruct (lookup id (futs s)) as [f|]; [|auto]. destruct (f_done f); [auto|].
    destruct (poll_fut (now s) w f) as [[f' a] r]. cbn. rewrite update_keys. auto.
  - pose proof (fire_keys (now s) (now s + d) (futs s)) as FK.
    destruct (fire (now s) (now s + d) (futs s)) as [l ws]. cbn in *. auto.
Qed.

Lemma call_acquires : forall s id sc tmo, lookup id (futs s) = None ->
  length (futs (fst (step s (Call id sc tmo)))) = S (length (futs s))
  /\ parked (fst (step s (Call id sc tmo))) = parked s.
Proof. intros s id sc tmo L. rewrite step_call by exact L. cbn. auto. Qed.
