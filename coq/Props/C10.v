(* Props/C10.v — Arbiter commands run FIFO, at most once, on the arbiter's own thread.
   ONLY statements (proofs: Proofs/RtFacts.v, Proofs/RtSound.v).  Model: Model/Rt.v, a labelled transition
   system; `run ops sched` is the state after the schedule `sched` (any list of labels = any interleaving
   of the coordinator, the arbiter threads and the system thread) on the script `ops`.  `hist a` is every
   command ever enqueued into arbiter a's channel, in channel order; `started a` the tids of the tasks
   that have started on it, in order.
   Strength: the LOGIC for all scripts and all schedules of the model; real thread interleavings of the
   implementation are sampled by the harness, not enumerated (partial, see notes/rt.md). *)
From AN Require Import Model.Rt Proofs.RtFacts Proofs.RtSound.

(* FIFO: the started tasks are a prefix of the Execute commands enqueued before the first Stop, in channel order *)
Theorem C10_fifo : forall ops sched k a, nth_error (arbs (run ops sched)) k = Some a ->
  is_prefix (started a) (execs (pre_stop (hist a))) = true.
Proof. exact fifo_run. Qed.

(* at most once *)
Theorem C10_once : forall ops sched k a, nth_error (arbs (run ops sched)) k = Some a -> NoDup (started a).
Proof. exact once_run. Qed.

(* nothing enqueued after the first Stop (stop() from anywhere: a handle, the system, the arbiter itself) ever starts *)
Theorem C10_after_stop : forall ops sched k a pre post, nth_error (arbs (run ops sched)) k = Some a ->
  hist a = pre ++ Stop :: post -> forall i, In i (execs post) -> ~ In i (started a).
Proof. exact after_stop_run. Qed.

(* spawn/spawn_fn/stop report false iff the arbiter's receiver is gone (or it never existed) ... *)
Theorem C10_spawn_false : forall s ops' k c,
  olog (send_op s ops' k c) = olog s ++ [if rx_alive k (arbs s) then RTrue else RFalse] /\
  (rx_alive k (arbs s) = false <-> (forall a, nth_error (arbs s) k = Some a -> ph a = Dropped)).
Proof. exact send_result. Qed.

(* ... and once it is gone it stays gone and nothing more starts on it *)
Theorem C10_gone_stays_gone : forall s l k a, nth_error (arbs s) k = Some a -> ph a = Dropped ->
  exists a', nth_error (arbs (step s l)) k = Some a' /\ ph a' = Dropped /\ alog a' = alog a.
Proof. exact dropped_absorbing. Qed.

(* every started task ran on its arbiter's own thread (thread 2+k: distinct per arbiter, distinct from the
   system thread 0 and the senders 1) and saw that arbiter's System (id 0) in the thread-locals *)
Theorem C10_identity : forall ops sched k a e, nth_error (arbs (run ops sched)) k = Some a -> In e (alog a) ->
  e_thr e = a_thr a /\ a_thr a = 2 + k /\ e_sys e = a_sys a /\ a_sys a = 0.
Proof. exact identity_run. Qed.

(* join() returns only after the loop has ended: it answers only in phase Dropped, which is entered only from Ended *)
Theorem C10_join : forall s k ops', rest s = OJoin k :: ops' ->
  olog (step s LCoord) = olog s ++ [RJoined] -> forall a, nth_error (arbs s) k = Some a -> ph a = Dropped.
Proof. exact join_only_after_end. Qed.
Theorem C10_join_after_end : forall s l k a a', nth_error (arbs s) k = Some a ->
  nth_error (arbs (step s l)) k = Some a' -> ph a' = Dropped -> ph a = Dropped \/ (ph a = Ended /\ l = LDrop k).
Proof. exact dropped_only_from_ended. Qed.

(* block_on returns exactly its future's output, whatever was spawned and however often it pended *)
Theorem C10_block_on : forall pend v spawned ran, fst (block_on pend v spawned ran) = v.
Proof. exact block_on_output. Qed.

(* the acceptance predicate run as monitor on the implementation's logs accepts every log of the model *)
Theorem C10_Rt_accepts_sound : forall userun ops sched,
  Rt_accepts userun ops (observable_log userun (run ops sched)) = true.
Proof. exact Rt_accepts_sound_all. Qed.

(* non-vacuity: two arbiters; a panicking task does not disturb the next one; task 5, sent after stop(), never
   starts; a task-issued system stop (code 7) precedes the direct one (3); sends after join report false *)
Definition ex_ops := [ONew; ONew; OSpawn 0 KDone; OSpawn 0 KPanic; OStop 0; OSpawn 0 KPend; OSpawn 1 (KStopSys 7);
                      OSysStop 3; OWaitRun; OJoin 0; OJoin 1; OSpawn 1 KDone].
Definition ex_sched := [LCoord; LCoord; LCoord; LCoord; LRunner 0; LTask 0; LCoord; LCoord; LRunner 0; LTask 0; LRunner 0;
                        LRunner 0; LDrop 0; LCoord; LRunner 1; LTask 1; LCoord; LSys; LSys; LSys; LSys; LSys; LSysRet;
                        LCoord; LCoord; LCoord; LRunner 1; LDrop 1; LCoord; LCoord].
Example C10_example :
  observable_log false (run ex_ops ex_sched)
  = mkLog (Some (VCode 7))
          [[mkEv 2 2 0; mkEv 3 2 0]; [mkEv 6 3 0]]
          [RUnit; RUnit; RTrue; RTrue; RTrue; RTrue; RTrue; RUnit; RRet; RJoined; RJoined; RFalse]
  /\ map hist (arbs (run ex_ops ex_sched))
     = [[Execute (mkTask 2 KDone); Execute (mkTask 3 KPanic); Stop; Execute (mkTask 5 KPend)];
        [Execute (mkTask 6 (KStopSys 7)); Stop; Stop]].
Proof. vm_compute. split; reflexivity. Qed.
(* the monitor is not trivially true: a log in which the task sent after stop() started is rejected *)
Example C10_monitor_rejects :
  Rt_accepts false ex_ops (mkLog (Some (VCode 7)) [[mkEv 2 2 0; mkEv 3 2 0; mkEv 5 2 0]; [mkEv 6 3 0]]
          [RUnit; RUnit; RTrue; RTrue; RTrue; RTrue; RTrue; RUnit; RRet; RJoined; RJoined; RFalse]) = false
  /\ Rt_accepts false ex_ops (mkLog (Some (VCode 7)) [[mkEv 3 2 0; mkEv 2 2 0]; [mkEv 6 3 0]]
          [RUnit; RUnit; RTrue; RTrue; RTrue; RTrue; RTrue; RUnit; RRet; RJoined; RJoined; RFalse]) = false
  /\ Rt_accepts false ex_ops (mkLog (Some (VCode 7)) [[mkEv 2 2 0; mkEv 3 3 0]; [mkEv 6 3 0]]
          [RUnit; RUnit; RTrue; RTrue; RTrue; RTrue; RTrue; RUnit; RRet; RJoined; RJoined; RFalse]) = false
  /\ Rt_accepts false ex_ops (mkLog (Some (VCode 7)) [[mkEv 2 2 0; mkEv 3 2 0]; [mkEv 6 3 0]]
          [RUnit; RUnit; RTrue; RTrue; RTrue; RTrue; RTrue; RUnit; RRet; RJoined; RJoined; RTrue]) = false.
Proof. vm_compute. repeat split; reflexivity. Qed.

Print Assumptions C10_fifo.
Print Assumptions C10_once.
Print Assumptions C10_after_stop.
Print Assumptions C10_spawn_false.
Print Assumptions C10_gone_stays_gone.
Print Assumptions C10_identity.
Print Assumptions C10_join.
Print Assumptions C10_join_after_end.
Print Assumptions C10_block_on.
Print Assumptions C10_Rt_accepts_sound.
