(* Props/C09.v — System stop delivers the exit code and stops every arbiter.
   ONLY statements (proofs: Proofs/RtFacts.v, Proofs/RtSound.v).  Model: Model/Rt.v (see Props/C10.v for the
   reading of `run ops sched`).  `exitc s = Some c`: the SystemController has taken stop_tx and sent c through
   the one-shot; `ret s`: what run_with_code returned; `a_pre a`: arbiter a was created before any Exit was
   issued; `stopping a`: a has ended (Ended/Dropped) or Stop is in its channel.
   Strength: the LOGIC for all scripts and all schedules of the model; real thread interleavings of the
   implementation are sampled by the harness, not enumerated (partial, see notes/rt.md). *)
From AN Require Import Model.Rt Proofs.RtFacts Proofs.RtSound.

(* run_with_code returns exactly the code that went through the one-shot ... *)
Theorem C09_code : forall ops sched c, ret (run ops sched) = Some c ->
  exitc (run ops sched) = Some c /\ alive (run ops sched) = false.
Proof. exact code_run. Qed.
(* ... which is set only by the SystemController processing an Exit while none has been processed before,
   to the code of that Exit (the first one in the FIFO command channel) ... *)
Theorem C09_code_set : forall s l, exitc s = None -> exitc (step s l) <> None ->
  l = LSys /\ exists c q, sysq s = Exit c :: q /\ alive s = true /\ exitc (step s l) = Some c.
Proof. exact exit_only_by_sys. Qed.
(* ... and never changes afterwards: the first stop wins *)
Theorem C09_first_wins : forall s l c, exitc s = Some c -> exitc (step s l) = Some c.
Proof. exact exit_first_wins. Qed.

(* run: 0 => Ok(()), non-zero => Err; run_with_code: the code *)
Theorem C09_run_maps :
  run_view true 0 = VOk /\ (forall c, c <> 0%Z -> run_view true c = VErr) /\ (forall c, run_view false c = VCode c).
Proof. exact run_maps. Qed.

(* processing an Exit sends Stop to every registered arbiter *)
Theorem C09_exit_processed : forall s c q, alive s = true -> sysq s = Exit c :: q -> exitc s = None ->
  exitc (step s LSys) = Some c /\
  (forall k, In k (reg s) -> forall a, nth_error (arbs (step s LSys)) k = Some a -> stopping a).
Proof. exact exit_processed. Qed.

(* every arbiter created before the stop was issued is, in every state after an Exit has been processed, ended
   or has Stop in its channel — whatever the interleaving of register/deregister/exit messages *)
Theorem C09_stops_all : forall ops sched k a, nth_error (arbs (run ops sched)) k = Some a -> a_pre a = true ->
  exitc (run ops sched) <> None -> stopping a.
Proof. exact stops_all_run. Qed.

(* variant: while Running with a Stop queued the Runner label is enabled, and each Runner step brings the first
   Stop strictly closer (at distance 0 the loop ends); sends append behind it, tasks do not touch the channel *)
Theorem C09_variant : forall a, ph a = Running -> has_stop (chan a) = true ->
  runner a <> a /\
  ((stop_pos (chan a) = 0 /\ ph (runner a) = Ended) \/
   (ph (runner a) = Running /\ has_stop (chan (runner a)) = true /\ S (stop_pos (chan (runner a))) = stop_pos (chan a))).
Proof. exact runner_variant. Qed.
Theorem C09_variant_stable : forall c a, has_stop (chan a) = true ->
  stop_pos (chan (push c a)) = stop_pos (chan a) /\ has_stop (chan (push c a)) = true.
Proof. exact variant_push. Qed.

(* hence, under the single fairness assumption "threads keep polling" (the model's watchdog fires only when no
   label is enabled), a stopping arbiter ends and joining it returns: the join is never answered by a hang *)
Theorem C09_join_returns : forall s k ops' a, rest s = OJoin k :: ops' -> nth_error (arbs s) k = Some a -> stopping a ->
  step s LCoord = s \/ olog (step s LCoord) = olog s ++ [RJoined].
Proof. exact join_returns. Qed.
Theorem C09_quiescent_ended : forall s k a, quiescent s = true -> nth_error (arbs s) k = Some a ->
  stopping a -> ph a = Dropped.
Proof. exact stopping_quiescent_dropped. Qed.

(* an arbiter that ended earlier deregisters itself; processing that removes it from the registry and touches
   nothing else; stopping an unregistered or vanished arbiter is a no-op; an ended arbiter starts nothing *)
Theorem C09_dereg : forall s k a, nth_error (arbs s) k = Some a -> ph a = Ended -> alive s = true ->
  sysq (step s (LDrop k)) = sysq s ++ [Deregister k] /\
  (exists a', nth_error (arbs (step s (LDrop k))) k = Some a' /\ ph a' = Dropped).
Proof. exact dereg_sent. Qed.
Theorem C09_dereg_processed : forall s k q, alive s = true -> sysq s = Deregister k :: q ->
  ~ In k (reg (step s LSys)) /\ arbs (step s LSys) = arbs s /\ exitc (step s LSys) = exitc s.
Proof. exact dereg_processed. Qed.
Theorem C09_dereg_noop : forall ids l k, ~ In k ids -> nth_error (stop_all ids l) k = nth_error l k.
Proof. exact stop_all_unregistered. Qed.
Theorem C09_stop_gone_noop : forall a, ph a = Dropped -> push Stop a = a.
Proof. exact stop_gone_noop. Qed.

(* the acceptance predicate run as monitor on the implementation's logs accepts every log of the model *)
Theorem C09_Rt_accepts_sound : forall userun ops sched,
  Rt_accepts userun ops (observable_log userun (run ops sched)) = true.
Proof. exact Rt_accepts_sound_all. Qed.

(* non-vacuity: arbiter 0 stops early and deregisters, arbiter 1 is stopped by the system; the task-issued stop
   (code 7) is enqueued before the direct one (code 3) and wins; both joins return *)
Definition ex_ops := [ONew; ONew; OSpawn 0 KDone; OSpawn 0 KPanic; OStop 0; OSpawn 0 KPend; OSpawn 1 (KStopSys 7);
                      OSysStop 3; OWaitRun; OJoin 0; OJoin 1; OSpawn 1 KDone].
Definition ex_sched := [LCoord; LCoord; LCoord; LCoord; LRunner 0; LTask 0; LCoord; LCoord; LRunner 0; LTask 0; LRunner 0;
                        LRunner 0; LDrop 0; LCoord; LRunner 1; LTask 1; LCoord; LSys; LSys; LSys; LSys; LSys; LSysRet;
                        LCoord; LCoord; LCoord; LRunner 1; LDrop 1; LCoord; LCoord].
Example C09_example :
  let s := run ex_ops ex_sched in
  ret s = Some 7%Z /\ exitc s = Some 7%Z /\ map a_pre (arbs s) = [true; true] /\ map ph (arbs s) = [Dropped; Dropped]
  /\ reg s = [1] /\ olog s = [RUnit; RUnit; RTrue; RTrue; RTrue; RTrue; RTrue; RUnit; RRet; RJoined; RJoined; RFalse].
Proof. vm_compute. repeat split; reflexivity. Qed.
(* a state in which the hypotheses of C09_variant hold *)
Example C09_variant_example :
  let a := mkArb [Execute (mkTask 1 KDone); Stop; Execute (mkTask 2 KDone)] [] Running [] 2 0 true
                 [Execute (mkTask 1 KDone); Stop; Execute (mkTask 2 KDone)] in
  ph a = Running /\ has_stop (chan a) = true /\ stop_pos (chan a) = 1 /\ stop_pos (chan (runner a)) = 0
  /\ ph (runner (runner a)) = Ended.
Proof. vm_compute. repeat split; reflexivity. Qed.
(* the monitor is not trivially true: the second stop's code, a hang of a join that must return, and Ok for a
   non-zero code are rejected *)
Example C09_monitor_rejects :
  Rt_accepts false [ONew; OSysStop 4; OSysStop 5; OWaitRun; OJoin 0] (mkLog (Some (VCode 5)) [[]] [RUnit; RUnit; RUnit; RRet; RJoined]) = false
  /\ Rt_accepts false [ONew; OSysStop 4; OSysStop 5; OWaitRun; OJoin 0] (mkLog (Some (VCode 4)) [[]] [RUnit; RUnit; RUnit; RRet; RHang]) = false
  /\ Rt_accepts true [ONew; OSysStop 4; OWaitRun; OJoin 0] (mkLog (Some VOk) [[]] [RUnit; RUnit; RRet; RJoined]) = false
  /\ Rt_accepts false [ONew; OSysStop 4; OSysStop 5; OWaitRun; OJoin 0] (mkLog (Some (VCode 4)) [[]] [RUnit; RUnit; RUnit; RRet; RJoined]) = true.
Proof. vm_compute. repeat split; reflexivity. Qed.

Print Assumptions C09_code.
Print Assumptions C09_code_set.
Print Assumptions C09_first_wins.
Print Assumptions C09_run_maps.
Print Assumptions C09_exit_processed.
Print Assumptions C09_stops_all.
Print Assumptions C09_variant.
Print Assumptions C09_variant_stable.
Print Assumptions C09_join_returns.
Print Assumptions C09_quiescent_ended.
Print Assumptions C09_dereg.
Print Assumptions C09_dereg_processed.
Print Assumptions C09_dereg_noop.
Print Assumptions C09_stop_gone_noop.
Print Assumptions C09_Rt_accepts_sound.
