(* Proofs/SrvPause.v — C05, part 1: what holds in EVERY run of Model/Srv.v (any script, kills included).
   [RInv]: the pause log agrees with the `paused` flag and no dispatch is logged while paused; the
   registration/back-off bookkeeping of every listener is consistent (never stranded); a Unix listener's
   path stays linked.  Carried through every function of the accept thread (skeleton of SrvInv.v, but
   without the fault-free hypotheses: nothing here depends on the worker counters).
   Also: the transient-error equation, the idempotence equations, and the frame facts for calls without a
   yield schedule that part 2 (SrvPauseB.v) uses. *)
From Coq Require Import List Arith ZArith NArith Bool Lia.
From AN Require Import Model.Srv Proofs.ListFacts.
Import ListNotations.

(* ---------- the pause log (trace is newest first) ---------- *)
Definition is_dispatch (e : event) : bool := match e with EvDispatch _ _ _ _ _ => true | _ => false end.

(* state of the pause flag according to the log *)
Fixpoint pstate (tr : list event) : bool :=
  match tr with
  | [] => false
  | e :: r => match e with EvPauseOn => true | EvPauseOff => false | _ => pstate r end
  end.

(* every dispatch was logged while the log said "not paused" *)
Fixpoint psafe (tr : list event) : bool :=
  match tr with
  | [] => true
  | e :: r => (if is_dispatch e then negb (pstate r) else true) && psafe r
  end.

Definition quiet_ev (e : event) : bool :=
  match e with EvDispatch _ _ _ _ _ | EvPauseOn | EvPauseOff => false | _ => true end.

Definition TrOk (tr : list event) (p : bool) : Prop := pstate tr = p /\ psafe tr = true.

Lemma TrOk_quiet e tr p : quiet_ev e = true -> TrOk tr p -> TrOk (e :: tr) p.
Proof. intros Hq [H1 H2]. unfold TrOk. destruct e; try discriminate; cbn; auto. Qed.

Lemma TrOk_dispatch c tok g idx n tr : TrOk tr false -> TrOk (EvDispatch c tok g idx n :: tr) false.
Proof. intros [H1 H2]. unfold TrOk. cbn. rewrite H1, H2. auto. Qed.

Lemma TrOk_on tr p : TrOk tr p -> TrOk (EvPauseOn :: tr) true.
Proof. intros [H1 H2]. unfold TrOk. cbn. auto. Qed.

Lemma TrOk_off tr p : TrOk tr p -> TrOk (EvPauseOff :: tr) false.
Proof. intros [H1 H2]. unfold TrOk. cbn. auto. Qed.

(* the declarative reading of [psafe] *)
Lemma pstate_false_off mid pre : pstate (mid ++ EvPauseOn :: pre) = false -> In EvPauseOff mid.
Proof.
  induction mid as [|e mid IH]; cbn [app pstate]; intros H; [discriminate|].
  destruct e; try (right; now apply IH); try discriminate. now left.
Qed.

Lemma psafe_decl tr : psafe tr = true ->
  forall post d mid pre, is_dispatch d = true -> tr = post ++ d :: mid ++ EvPauseOn :: pre -> In EvPauseOff mid.
Proof.
  intros Hs post. revert tr Hs. induction post as [|x post IH]; intros tr Hs d mid pre Hd ->.
  - cbn [app psafe] in Hs. rewrite Hd in Hs. apply andb_true_iff in Hs as [Hs _].
    apply negb_true_iff in Hs. now apply pstate_false_off in Hs.
  - cbn [app psafe] in Hs. apply andb_true_iff in Hs as [_ Hs]. eapply IH; eauto.
Qed.

(* chronological form: log = rev trace *)
Lemma psafe_chrono tr : psafe tr = true ->
  forall pre mid d post, is_dispatch d = true -> rev tr = pre ++ EvPauseOn :: mid ++ d :: post -> In EvPauseOff mid.
Proof.
  intros Hs pre mid d post Hd Hr.
  assert (Ht : tr = rev post ++ d :: rev mid ++ EvPauseOn :: rev pre).
  { rewrite <- (rev_involutive tr), Hr. rewrite rev_app_distr. cbn [rev]. rewrite rev_app_distr. cbn [rev].
    rewrite <- !app_assoc. cbn [app]. reflexivity. }
  apply in_rev. eapply psafe_decl; eauto.
Qed.

(* ---------- the registration bookkeeping of one listener ---------- *)
(* p paused, s stopped, pt poll timeout, nw clock *)
Definition LOk (p s : bool) (pt : option N) (nw : N) (l : lst) : Prop :=
  l_linked l = true /\
  (forall d, l_to l = Some d -> l_reg l = false /\ (d <= nw + 500)%N /\ pt <> None) /\
  (p = true -> l_reg l = false /\ l_to l = None) /\
  (s = false -> p = false -> l_to l = None -> l_reg l = true).

Definition lkey (l : lst) := (l_reg l, l_to l, l_linked l).

Lemma LOk_key p s pt nw l l' : lkey l' = lkey l -> LOk p s pt nw l -> LOk p s pt nw l'.
Proof.
  unfold lkey. intros E. injection E as E1 E2 E3. unfold LOk. rewrite E1, E2, E3. auto.
Qed.

Definition RInv (st : state) : Prop :=
  TrOk (trace st) (paused st) /\
  (forall t, ptimeout st = Some t -> (t <= 510)%N) /\
  Forall (LOk (paused st) (stopped st) (ptimeout st) (now st)) (lsts st).

(* the fields RInv reads *)
Definition core (st : state) := (trace st, lsts st, paused st, stopped st, ptimeout st, now st).

Lemma RInv_core st st' : core st' = core st -> RInv st -> RInv st'.
Proof.
  unfold core. intros E. injection E as E1 E2 E3 E4 E5 E6. unfold RInv. rewrite E1, E2, E3, E4, E5, E6. auto.
Qed.

Lemma core_set_err st b : core (set_err st b) = core st.                     Proof. reflexivity. Qed.
Lemma core_upd_worker st g w : core (upd_worker st g w) = core st.           Proof. reflexivity. Qed.
Lemma core_set_handles st v : core (set_handles st v) = core st.             Proof. reflexivity. Qed.
Lemma core_set_next_ st v : core (set_next_ st v) = core st.                 Proof. reflexivity. Qed.
Lemma core_set_wq st v p : core (set_wq st v p) = core st.                   Proof. reflexivity. Qed.
Lemma core_wake st i : core (wake st i) = core st.                           Proof. reflexivity. Qed.
Lemma core_set_ws st v : core (set_ws st v) = core st.                       Proof. reflexivity. Qed.
Lemma core_av_set st i v : core (av_set st i v) = core st.
Proof. unfold av_set. destruct (set (av st) i v); reflexivity. Qed.
Lemma core_do_set_next st : core (do_set_next st) = core st.
Proof. unfold do_set_next. destruct (length (handles st)); reflexivity. Qed.
Lemma core_av_get st i : core (fst (av_get st i)) = core st.
Proof. unfold av_get. destruct (get (av st) i); reflexivity. Qed.

Lemma RInv_emit_quiet st e : quiet_ev e = true -> RInv st -> RInv (emit st e).
Proof. intros Hq (H1 & H2 & H3). split; [|split]; cbn; auto. now apply TrOk_quiet. Qed.

Lemma RInv_emit_dispatch st c tok g idx n :
  paused st = false -> RInv st -> RInv (emit st (EvDispatch c tok g idx n)).
Proof.
  intros Hp (H1 & H2 & H3). split; [|split]; cbn; auto. rewrite Hp in *. now apply TrOk_dispatch.
Qed.

(* ---------- list helpers ---------- *)
Lemma Forall_replace_nth {A} (P : A -> Prop) n x l : Forall P l -> P x -> Forall P (replace_nth n x l).
Proof.
  revert n; induction l as [|y t IH]; intros n Hl Hx; [destruct n; constructor|].
  inversion Hl; subst. destruct n; cbn; constructor; auto.
Qed.

Lemma Forall_nth_error {A} (P : A -> Prop) l n x : Forall P l -> nth_error l n = Some x -> P x.
Proof. intros H Hn. rewrite Forall_forall in H. apply H. eapply nth_error_In; eauto. Qed.

Lemma RInv_upd_lst_key st tok l l' :
  nth_error (lsts st) tok = Some l -> lkey l' = lkey l -> RInv st -> RInv (upd_lst st tok l').
Proof.
  intros Hn Hk (H1 & H2 & H3). split; [|split]; cbn; auto.
  apply Forall_replace_nth; [exact H3|]. eapply LOk_key; [exact Hk|]. eapply Forall_nth_error; eauto.
Qed.

(* ---------- the waker queue only grows, and growing fires the waker ---------- *)
Definition WQrel (st st' : state) : Prop :=
  exists ext, wq st' = wq st ++ ext /\ ((ext = [] /\ wpend st' = wpend st) \/ wpend st' = true).

Lemma WQrel_refl st : WQrel st st.
Proof. exists []. rewrite app_nil_r. auto. Qed.

Lemma WQrel_same st st' : wq st' = wq st -> wpend st' = wpend st -> WQrel st st'.
Proof. intros H1 H2. exists []. rewrite app_nil_r. auto. Qed.

Lemma WQrel_trans s0 s1 s2 : WQrel s0 s1 -> WQrel s1 s2 -> WQrel s0 s2.
Proof.
  intros (e1 & A1 & A2) (e2 & B1 & B2). exists (e1 ++ e2). rewrite B1, A1, app_assoc. split; [reflexivity|].
  destruct B2 as [[-> B2]|B2]; [|now right]. rewrite app_nil_r, B2. exact A2.
Qed.

Lemma WQrel_wake st i : WQrel st (wake st i).
Proof. exists [i]. cbn. auto. Qed.

(* what accept-level functions leave alone, in every state *)
Definition Fr1 (st st' : state) : Prop :=
  paused st' = paused st /\ stopped st' = stopped st /\ now st' = now st /\ WQrel st st' /\
  length (lsts st') = length (lsts st).

Lemma Fr1_refl st : Fr1 st st.
Proof. unfold Fr1. repeat split; auto using WQrel_refl. Qed.

Lemma Fr1_trans s0 s1 s2 : Fr1 s0 s1 -> Fr1 s1 s2 -> Fr1 s0 s2.
Proof.
  intros (A1 & A2 & A3 & A4 & A5) (B1 & B2 & B3 & B4 & B5). unfold Fr1.
  repeat split; try congruence. eapply WQrel_trans; eauto.
Qed.

(* same core, same queue *)
Lemma Fr1_silent st st' : core st' = core st -> wq st' = wq st -> wpend st' = wpend st -> Fr1 st st'.
Proof.
  unfold core. intros E Hq Hp. injection E as E1 E2 E3 E4 E5 E6. unfold Fr1. rewrite E2, E3, E4, E6.
  repeat split; auto. now apply WQrel_same.
Qed.

Lemma Fr1_same st st' :
  lsts st' = lsts st -> paused st' = paused st -> stopped st' = stopped st -> now st' = now st ->
  wq st' = wq st -> wpend st' = wpend st -> Fr1 st st'.
Proof. intros E1 E2 E3 E4 E5 E6. unfold Fr1. rewrite E1, E2, E3, E4. repeat split. now apply WQrel_same. Qed.

Lemma wq_av_set st i v : wq (av_set st i v) = wq st /\ wpend (av_set st i v) = wpend st.
Proof. unfold av_set. destruct (set (av st) i v); split; reflexivity. Qed.
Lemma wq_do_set_next st : wq (do_set_next st) = wq st /\ wpend (do_set_next st) = wpend st.
Proof. unfold do_set_next. destruct (length (handles st)); split; reflexivity. Qed.

Section All.
Variable L : Z.

Lemma fold_lost_r l : forall s, RInv s ->
  RInv (fold_left (fun s c => emit s (EvLost (c_id c))) l s) /\
  Fr1 s (fold_left (fun s c => emit s (EvLost (c_id c))) l s).
Proof.
  induction l as [|x l IH]; intros s HR; cbn [fold_left]; [split; [exact HR|apply Fr1_refl]|].
  destruct (IH (emit s (EvLost (c_id x)))) as [A B]; [now apply RInv_emit_quiet|].
  split; [exact A|]. eapply Fr1_trans; [|exact B]. apply Fr1_same; reflexivity.
Qed.

Lemma guard_drop_silent st g w :
  core (guard_drop L st g w) = core st /\ WQrel st (guard_drop L st g w).
Proof.
  unfold guard_drop. destruct (Z.eqb (w_cnt w) (L + 1)); cbn.
  - split; [reflexivity|]. exists [IAvail (w_idx w)]. cbn. auto.
  - split; [reflexivity|apply WQrel_same; reflexivity].
Qed.

(* ---------- environment steps ---------- *)
Lemma env_step_r st o : RInv st -> RInv (env_step L st o) /\ Fr1 st (env_step L st o).
Proof.
  intros HR. destruct o; cbn [env_step].
  - (* Connect *)
    destruct (nth_error (lsts st) tok) as [l|] eqn:El; [|split; [exact HR|apply Fr1_refl]].
    destruct (l_uds l && negb (l_linked l)).
    + split; [now apply RInv_emit_quiet|apply Fr1_same; reflexivity].
    + split; [eapply RInv_upd_lst_key; eauto; reflexivity|].
      unfold Fr1. cbn. rewrite length_replace_nth. repeat split. apply WQrel_same; reflexivity.
  - (* Pick *)
    destruct (nth_error (ws st) g) as [w|]; [|split; [exact HR|apply Fr1_refl]].
    destruct (w_open w); [|split; [exact HR|apply Fr1_refl]].
    destruct (w_queue w); [split; [exact HR|apply Fr1_refl]|].
    split; [eapply RInv_core; [|exact HR]; reflexivity|apply Fr1_silent; reflexivity].
  - (* Finish *)
    destruct (nth_error (ws st) g) as [w|]; [|split; [exact HR|apply Fr1_refl]].
    destruct (remove_conn c (w_picked w)) as [[x p]|]; [|split; [exact HR|apply Fr1_refl]].
    destruct (guard_drop_silent st g (set_w_picked w p)) as [Hc Hq].
    split; [apply RInv_emit_quiet; [reflexivity|]; eapply RInv_core; eauto|].
    unfold core in Hc. injection Hc as E1 E2 E3 E4 E5 E6. unfold Fr1. cbn. rewrite E2, E3, E4, E6. repeat split. exact Hq.
  - (* DrainDrop *)
    destruct (nth_error (ws st) g) as [w|]; [|split; [exact HR|apply Fr1_refl]].
    destruct (w_open w); [|split; [exact HR|apply Fr1_refl]].
    destruct (w_queue w) as [|c q]; [split; [exact HR|apply Fr1_refl]|].
    destruct (guard_drop_silent st g (set_w_queue w q)) as [Hc Hq].
    split; [apply RInv_emit_quiet; [reflexivity|]; eapply RInv_core; eauto|].
    unfold core in Hc. injection Hc as E1 E2 E3 E4 E5 E6. unfold Fr1. cbn. rewrite E2, E3, E4, E6. repeat split. exact Hq.
  - (* Kill *)
    destruct (nth_error (ws st) g) as [w|]; [|split; [exact HR|apply Fr1_refl]].
    destruct (w_open w); [|split; [exact HR|apply Fr1_refl]].
    match goal with |- context [fold_left _ _ ?s0] => set (st1 := s0) end.
    assert (H1 : RInv st1 /\ Fr1 st st1).
    { unfold st1. split; [|apply Fr1_same; reflexivity].
      first [apply RInv_emit_quiet; [reflexivity|]|idtac]. eapply RInv_core; [|exact HR]. reflexivity. }
    destruct H1 as [HR1 F1]. destruct (fold_lost_r (w_queue w) st1 HR1) as [A B].
    split; [exact A|exact (Fr1_trans _ _ _ F1 B)].
  - (* Command *)
    split; [eapply RInv_core; [|exact HR]; reflexivity|]. unfold Fr1. cbn. repeat split. apply WQrel_wake.
  - (* Respawn *)
    split; [eapply RInv_core; [|exact HR]; reflexivity|]. unfold Fr1. cbn. repeat split.
    exists [IWorker (length (ws st))]. cbn. auto.
  - (* Inject *)
    destruct (nth_error (lsts st) tok) as [l|] eqn:El; [|split; [exact HR|apply Fr1_refl]].
    split; [eapply RInv_upd_lst_key; eauto; reflexivity|].
    unfold Fr1. cbn. rewrite length_replace_nth. repeat split. apply WQrel_same; reflexivity.
Qed.

Lemma env_steps_r os : forall st, RInv st -> RInv (env_steps L st os) /\ Fr1 st (env_steps L st os).
Proof.
  induction os as [|o os IH]; intros st HR; cbn [env_steps fold_left]; [split; [exact HR|apply Fr1_refl]|].
  destruct (env_step_r st o HR) as [H1 F1]. destruct (IH _ H1) as [H2 F2].
  split; [exact H2|exact (Fr1_trans _ _ _ F1 F2)].
Qed.

(* ---------- silent updates ---------- *)
Lemma RInv_av_set st i v : RInv st -> RInv (av_set st i v).
Proof. apply RInv_core, core_av_set. Qed.
Lemma RInv_do_set_next st : RInv st -> RInv (do_set_next st).
Proof. apply RInv_core, core_do_set_next. Qed.
Lemma RInv_set_err st b : RInv st -> RInv (set_err st b).
Proof. apply RInv_core. reflexivity. Qed.
Lemma RInv_upd_worker st g w : RInv st -> RInv (upd_worker st g w).
Proof. apply RInv_core. reflexivity. Qed.

Lemma Fr1_av_set st i v : Fr1 st (av_set st i v).
Proof. unfold av_set. destruct (set (av st) i v); apply Fr1_same; reflexivity. Qed.
Lemma Fr1_do_set_next st : Fr1 st (do_set_next st).
Proof. unfold do_set_next. destruct (length (handles st)); apply Fr1_same; reflexivity. Qed.
Lemma Fr1_emit st e : Fr1 st (emit st e).
Proof. apply Fr1_same; reflexivity. Qed.
Lemma Fr1_set_err st b : Fr1 st (set_err st b).
Proof. apply Fr1_same; reflexivity. Qed.
Lemma Fr1_upd_worker st g w : Fr1 st (upd_worker st g w).
Proof. apply Fr1_same; reflexivity. Qed.

Lemma paused_Fr1 st st' : Fr1 st st' -> paused st' = paused st.
Proof. intros H. apply H. Qed.

(* ---------- Accept::send_connection / accept_one (any state, any workers) ---------- *)
Lemma send_connection_r st c ys st' ys' r :
  RInv st -> paused st = false -> send_connection L st c ys = (st', ys', r) -> RInv st' /\ Fr1 st st'.
Proof.
  intros HR Hp. unfold send_connection.
  destruct (nth_error (handles st) (next st)) as [g|];
    [|intros E; injection E as <- <- <-; split; [now apply RInv_set_err|apply Fr1_set_err]].
  destruct (nth_error (ws st) g) as [w|];
    [|intros E; injection E as <- <- <-; split; [now apply RInv_set_err|apply Fr1_set_err]].
  destruct (w_open w).
  - set (st1 := emit (upd_worker st g (set_w_queue w (w_queue w ++ [c]))) _).
    assert (HR1 : RInv st1) by (apply RInv_emit_dispatch; [exact Hp|now apply RInv_upd_worker]).
    assert (F1 : Fr1 st st1) by (eapply Fr1_trans; [apply Fr1_upd_worker|apply Fr1_emit]).
    destruct (env_steps_r (hd [] ys) st1 HR1) as [HR2 F2].
    set (st2 := env_steps L st1 (hd [] ys)) in *.
    assert (F02 : Fr1 st st2) by exact (Fr1_trans _ _ _ F1 F2).
    destruct (nth_error (ws st2) g) as [w2|];
      [|intros E; injection E as <- <- <-; split; [now apply RInv_set_err|eapply Fr1_trans; [exact F02|apply Fr1_set_err]]].
    intros E; injection E as <- <- <-.
    destruct (Z.eqb (w_cnt w2) L).
    + split; [apply RInv_do_set_next, RInv_av_set, RInv_upd_worker; exact HR2|].
      eapply Fr1_trans; [exact F02|]. eapply Fr1_trans; [apply Fr1_upd_worker|].
      eapply Fr1_trans; [apply Fr1_av_set|apply Fr1_do_set_next].
    + split; [apply RInv_do_set_next, RInv_upd_worker; exact HR2|].
      eapply Fr1_trans; [exact F02|]. eapply Fr1_trans; [apply Fr1_upd_worker|apply Fr1_do_set_next].
  - set (st3 := av_set (emit (set_handles st (swap_remove (next st) (handles st))) (EvFaulted (w_idx w))) (w_idx w) false).
    assert (HR3 : RInv st3).
    { apply RInv_av_set, RInv_emit_quiet; [reflexivity|]. eapply RInv_core; [|exact HR]. reflexivity. }
    assert (F3 : Fr1 st st3).
    { eapply Fr1_trans; [|apply Fr1_av_set]. apply Fr1_same; reflexivity. }
    destruct (handles st3).
    + intros E; injection E as <- <- <-. split; [now apply RInv_emit_quiet|eapply Fr1_trans; [exact F3|apply Fr1_emit]].
    + match goal with |- context [if ?b then _ else _] => destruct b end; intros E; injection E as <- <- <-.
      * split; [eapply RInv_core; [|exact HR3]; reflexivity|eapply Fr1_trans; [exact F3|apply Fr1_same; reflexivity]].
      * split; assumption.
Qed.

Lemma forced_send_r : forall fuel st c ys st' ys',
  RInv st -> paused st = false -> forced_send L fuel st c ys = (st', ys') -> RInv st' /\ Fr1 st st'.
Proof.
  induction fuel as [|f IH]; intros st c ys st' ys' HR Hp; cbn [forced_send].
  - intros E; injection E as <- <-. split; [now apply RInv_set_err|apply Fr1_set_err].
  - destruct (err st); [intros E; injection E as <- <-; split; [exact HR|apply Fr1_refl]|].
    destruct (send_connection L st c ys) as [[s1 y1] r] eqn:Es.
    destruct (send_connection_r _ _ _ _ _ _ HR Hp Es) as [HR1 F1].
    destruct r as [|c'].
    + intros E; injection E as <- <-. split; assumption.
    + intros E. pose proof (paused_Fr1 _ _ F1) as Hp1. rewrite Hp in Hp1.
      destruct (IH _ _ _ _ _ HR1 Hp1 E) as [HR2 F2]. split; [exact HR2|exact (Fr1_trans _ _ _ F1 F2)].
Qed.

Lemma accept_one_r : forall fuel st c ys st' ys',
  RInv st -> paused st = false -> accept_one L fuel st c ys = (st', ys') -> RInv st' /\ Fr1 st st'.
Proof.
  induction fuel as [|f IH]; intros st c ys st' ys' HR Hp; cbn [accept_one].
  - intros E; injection E as <- <-. split; [now apply RInv_set_err|apply Fr1_set_err].
  - destruct (err st); [intros E; injection E as <- <-; split; [exact HR|apply Fr1_refl]|].
    destruct (nth_error (handles st) (next st)) as [g|];
      [|intros E; injection E as <- <-; split; [now apply RInv_set_err|apply Fr1_set_err]].
    destruct (nth_error (ws st) g) as [w|];
      [|intros E; injection E as <- <-; split; [now apply RInv_set_err|apply Fr1_set_err]].
    destruct (av_get st (w_idx w)) as [st0 b] eqn:Eg.
    assert (H0 : RInv st0 /\ Fr1 st st0).
    { unfold av_get in Eg. destruct (get (av st) (w_idx w)); injection Eg as <- <-;
        (split; [|try apply Fr1_refl; apply Fr1_set_err]); auto using RInv_set_err. }
    destruct H0 as [HR0 F0]. pose proof (paused_Fr1 _ _ F0) as Hp0. rewrite Hp in Hp0.
    destruct b.
    + destruct (send_connection L st0 c ys) as [[s1 y1] r] eqn:Es.
      destruct (send_connection_r _ _ _ _ _ _ HR0 Hp0 Es) as [HR1 F1].
      destruct r as [|c'].
      * intros E; injection E as <- <-. split; [exact HR1|exact (Fr1_trans _ _ _ F0 F1)].
      * intros E. pose proof (paused_Fr1 _ _ F1) as Hp1. rewrite Hp0 in Hp1.
        destruct (IH _ _ _ _ _ HR1 Hp1 E) as [HR2 F2]. split; [exact HR2|].
        exact (Fr1_trans _ _ _ F0 (Fr1_trans _ _ _ F1 F2)).
    + set (st1 := do_set_next (av_set (emit st0 _) (w_idx w) false)).
      assert (HR1 : RInv st1) by (apply RInv_do_set_next, RInv_av_set, RInv_emit_quiet; [reflexivity|exact HR0]).
      assert (F1 : Fr1 st st1).
      { eapply Fr1_trans; [exact F0|]. eapply Fr1_trans; [apply Fr1_emit|].
        eapply Fr1_trans; [apply Fr1_av_set|apply Fr1_do_set_next]. }
      pose proof (paused_Fr1 _ _ F1) as Hp1. rewrite Hp in Hp1.
      destruct (available (av st1)).
      * intros E. destruct (IH _ _ _ _ _ HR1 Hp1 E) as [HR2 F2]. split; [exact HR2|exact (Fr1_trans _ _ _ F1 F2)].
      * intros E. destruct (forced_send_r _ _ _ _ _ _ HR1 Hp1 E) as [HR2 F2]. split; [exact HR2|exact (Fr1_trans _ _ _ F1 F2)].
Qed.

(* ---------- Accept::accept ---------- *)
Lemma LOk_pt p s pt pt' nw l : (pt <> None -> pt' <> None) -> LOk p s pt nw l -> LOk p s pt' nw l.
Proof.
  intros Hpt (H1 & H2 & H3 & H4). unfold LOk. split; [exact H1|]. split; [|split; assumption].
  intros d Hd. destruct (H2 d Hd) as (A & B & C). auto.
Qed.

Lemma set_timeout_spec st d :
  (exists t, ptimeout (set_timeout st d) = Some t /\ (t <= d)%N /\ (forall t0, ptimeout st = Some t0 -> (t <= t0)%N)) /\
  trace (set_timeout st d) = trace st /\ lsts (set_timeout st d) = lsts st /\ paused (set_timeout st d) = paused st /\
  stopped (set_timeout st d) = stopped st /\ now (set_timeout st d) = now st /\
  wq (set_timeout st d) = wq st /\ wpend (set_timeout st d) = wpend st /\ av (set_timeout st d) = av st /\
  err (set_timeout st d) = err st.
Proof.
  unfold set_timeout. destruct (ptimeout st) as [t|] eqn:Et.
  - destruct (N.ltb_spec d t).
    + split; [|repeat split]. exists d. cbn. split; [reflexivity|]. split; [lia|]. intros t0 E; injection E as <-. lia.
    + split; [|repeat split]. exists t. split; [exact Et|]. split; [lia|]. intros t0 E; injection E as <-. lia.
  - split; [|repeat split]. exists d. cbn. split; [reflexivity|]. split; [lia|]. discriminate.
Qed.

Lemma Fr1_upd_lst st tok l : Fr1 st (upd_lst st tok l).
Proof. unfold Fr1. cbn. rewrite length_replace_nth. repeat split. apply WQrel_same; reflexivity. Qed.

Lemma Fr1_set_timeout st d : Fr1 st (set_timeout st d).
Proof.
  destruct (set_timeout_spec st d) as (_ & _ & A & B & C & D & E & F & _). apply Fr1_same; assumption.
Qed.

(* the non-transient error branch: deregister, deadline now + 500, poll timeout <= 510 *)
Lemma RInv_backoff st tok l l2 :
  nth_error (lsts st) tok = Some l -> RInv st -> paused st = false ->
  l_reg l2 = false -> l_to l2 = Some (now st + 500)%N -> l_linked l2 = l_linked l ->
  RInv (set_timeout (upd_lst st tok l2) 510%N).
Proof.
  intros Hn (H1 & H2 & H3) Hp Hr Ht Hl.
  destruct (set_timeout_spec (upd_lst st tok l2) 510%N) as ((t & Et & Ht510 & Hmin) & A & B & C & D & E & _).
  unfold RInv. rewrite A, B, C, D, E, Et. cbn [trace lsts paused stopped now upd_lst set_lsts].
  split; [exact H1|]. split; [intros t0 E0; injection E0 as <-; exact Ht510|].
  apply Forall_replace_nth.
  - eapply Forall_impl; [|exact H3]. intros a. apply LOk_pt. discriminate.
  - pose proof (Forall_nth_error _ _ _ _ H3 Hn) as (L1 & _). unfold LOk. rewrite Hr, Ht, Hl, Hp.
    split; [exact L1|]. split; [|split; [discriminate|discriminate]].
    intros d0 E0; injection E0 as <-. split; [reflexivity|]. split; [lia|discriminate].
Qed.

Lemma accept_loop_r : forall fuel st tok ys st' ys',
  RInv st -> paused st = false -> accept_loop L fuel st tok ys = (st', ys') -> RInv st' /\ Fr1 st st'.
Proof.
  induction fuel as [|f IH]; intros st tok ys st' ys' HR Hp; cbn [accept_loop].
  - intros E; injection E as <- <-. split; [now apply RInv_set_err|apply Fr1_set_err].
  - destruct (err st); [intros E; injection E as <- <-; split; [exact HR|apply Fr1_refl]|].
    destruct (available (av st)); [|intros E; injection E as <- <-; split; [exact HR|apply Fr1_refl]].
    destruct (nth_error (lsts st) tok) as [l|] eqn:El;
      [|intros E; injection E as <- <-; split; [now apply RInv_set_err|apply Fr1_set_err]].
    destruct (l_inject l) as [|k rest].
    + destruct (l_backlog l) as [|c rest]; [intros E; injection E as <- <-; split; [exact HR|apply Fr1_refl]|].
      set (st1 := upd_lst st tok _).
      assert (HR1 : RInv st1) by (eapply RInv_upd_lst_key; eauto; reflexivity).
      assert (F1 : Fr1 st st1) by apply Fr1_upd_lst.
      destruct (accept_one L (accept_one_fuel st1) st1 _ ys) as [st2 ys2] eqn:Ea.
      destruct (accept_one_r _ _ _ _ _ _ HR1 Hp Ea) as [HR2 F2].
      pose proof (paused_Fr1 _ _ F2) as Hp2. change (paused st1) with (paused st) in Hp2. rewrite Hp in Hp2.
      intros E. destruct (IH _ _ _ _ _ HR2 Hp2 E) as [HR3 F3].
      split; [exact HR3|exact (Fr1_trans _ _ _ F1 (Fr1_trans _ _ _ F2 F3))].
    + destruct k.
      * intros E; injection E as <- <-. split; [eapply RInv_upd_lst_key; eauto; reflexivity|apply Fr1_upd_lst].
      * set (st1 := upd_lst st tok _).
        assert (HR1 : RInv st1) by (eapply RInv_upd_lst_key; eauto; reflexivity).
        intros E. destruct (IH _ _ _ _ _ HR1 Hp E) as [HR3 F3].
        split; [exact HR3|exact (Fr1_trans _ _ _ (Fr1_upd_lst _ _ _) F3)].
      * intros E; injection E as <- <-. split.
        -- eapply RInv_backoff; eauto; reflexivity.
        -- exact (Fr1_trans _ _ _ (Fr1_upd_lst _ _ _) (Fr1_set_timeout _ _)).
Qed.

Lemma accept_r st tok ys st' ys' :
  RInv st -> accept L st tok ys = (st', ys') -> RInv st' /\ Fr1 st st'.
Proof.
  intros HR. unfold accept. destruct (paused st) eqn:Hp.
  - intros E; injection E as <- <-. split; [exact HR|apply Fr1_refl].
  - intros E. eapply accept_loop_r; eauto.
Qed.

Lemma accept_toks_r toks : forall st ys st' ys',
  RInv st -> accept_toks L st toks ys = (st', ys') -> RInv st' /\ Fr1 st st'.
Proof.
  induction toks as [|t r IH]; intros st ys st' ys' HR; cbn [accept_toks].
  - intros E; injection E as <- <-. split; [exact HR|apply Fr1_refl].
  - destruct (accept L st t ys) as [s1 y1] eqn:Ea. destruct (accept_r _ _ _ _ _ HR Ea) as [HR1 F1].
    intros E. destruct (IH _ _ _ _ HR1 E) as [HR2 F2]. split; [exact HR2|exact (Fr1_trans _ _ _ F1 F2)].
Qed.

Lemma accept_all_r st ys st' ys' :
  RInv st -> accept_all L st ys = (st', ys') -> RInv st' /\ Fr1 st st'.
Proof. unfold accept_all. apply accept_toks_r. Qed.

(* ---------- Pause / Resume / Stop ---------- *)
Lemma RInv_pause st : RInv st -> paused st = false -> RInv (emit (deregister_all (set_paused st true)) EvPauseOn).
Proof.
  intros (H1 & H2 & H3) Hp. unfold RInv. cbn. split; [eapply TrOk_on; eauto|]. split; [exact H2|].
  apply Forall_map. eapply Forall_impl; [|exact H3]. intros l (A & B & C & D).
  destruct (l_to l) as [d|] eqn:Et.
  - destruct (B d eq_refl) as (B1 & _). unfold LOk. cbn. rewrite A, B1. repeat split; auto; discriminate.
  - unfold LOk. cbn. rewrite A, Et. repeat split; auto; discriminate.
Qed.

Lemma RInv_resume st : RInv st -> paused st = true ->
  RInv (emit (set_lsts (set_paused st false) (map register (lsts st))) EvPauseOff).
Proof.
  intros (H1 & H2 & H3) Hp. unfold RInv. cbn. split; [eapply TrOk_off; eauto|]. split; [exact H2|].
  apply Forall_map. eapply Forall_impl; [|exact H3]. intros l (A & B & C & D).
  destruct (C Hp) as [C1 C2]. unfold register. rewrite C1. unfold LOk. cbn. rewrite A, C2.
  repeat split; auto; discriminate.
Qed.

Lemma RInv_stop st : RInv st -> RInv (emit (set_stopped (if paused st then st else deregister_all st) true) EvExit).
Proof.
  intros (H1 & H2 & H3). destruct (paused st) eqn:Hp; unfold RInv; cbn; rewrite Hp.
  - split; [apply TrOk_quiet; [reflexivity|exact H1]|]. split; [exact H2|].
    eapply Forall_impl; [|exact H3]. intros l (A & B & C & D). unfold LOk.
    split; [exact A|]. split; [exact B|]. split; [exact C|]. discriminate.
  - split; [apply TrOk_quiet; [reflexivity|exact H1]|]. split; [exact H2|].
    apply Forall_map. eapply Forall_impl; [|exact H3]. intros l (A & B & C & D).
    destruct (l_to l) as [d|] eqn:Et; unfold LOk; cbn; rewrite A, ?Et; repeat split; auto; discriminate.
Qed.

(* ---------- Accept::handle_waker ---------- *)
Definition Fr2 (st st' : state) : Prop := now st' = now st /\ length (lsts st') = length (lsts st).

Lemma Fr2_refl st : Fr2 st st.
Proof. split; reflexivity. Qed.
Lemma Fr2_trans s0 s1 s2 : Fr2 s0 s1 -> Fr2 s1 s2 -> Fr2 s0 s2.
Proof. intros [A1 A2] [B1 B2]. split; congruence. Qed.
Lemma Fr2_of_Fr1 st st' : Fr1 st st' -> Fr2 st st'.
Proof. intros (_ & _ & A & _ & B). split; assumption. Qed.

Lemma handle_waker_r : forall fuel st ys st' ys',
  RInv st -> handle_waker L fuel st ys = (st', ys') -> RInv st' /\ Fr2 st st'.
Proof.
  induction fuel as [|f IH]; intros st ys st' ys' HR; cbn [handle_waker].
  - intros E; injection E as <- <-. split; [now apply RInv_set_err|split; reflexivity].
  - destruct (err st); [intros E; injection E as <- <-; split; [exact HR|apply Fr2_refl]|].
    destruct (wq st) as [|i rest]; [intros E; injection E as <- <-; split; [exact HR|apply Fr2_refl]|].
    set (st0 := set_wq st rest (wpend st)).
    assert (HR0 : RInv st0) by (eapply RInv_core; [|exact HR]; reflexivity).
    assert (F0 : Fr2 st st0) by (split; reflexivity).
    destruct i as [idx|g| | |].
    + set (st1 := if existsb _ (handles st0) then av_set st0 idx true else st0).
      assert (H1 : RInv st1 /\ Fr2 st st1).
      { unfold st1. destruct (existsb _ (handles st0)); [|split; assumption].
        split; [now apply RInv_av_set|]. eapply Fr2_trans; [exact F0|apply Fr2_of_Fr1, Fr1_av_set]. }
      destruct H1 as [HR1 F1]. destruct (paused st1).
      * intros E. destruct (IH _ _ _ _ HR1 E) as [HR2 F2]. split; [exact HR2|exact (Fr2_trans _ _ _ F1 F2)].
      * destruct (accept_all L st1 ys) as [s2 y2] eqn:Ea. destruct (accept_all_r _ _ _ _ HR1 Ea) as [HR2 F2].
        intros E. destruct (IH _ _ _ _ HR2 E) as [HR3 F3].
        split; [exact HR3|exact (Fr2_trans _ _ _ F1 (Fr2_trans _ _ _ (Fr2_of_Fr1 _ _ F2) F3))].
    + destruct (nth_error (ws st0) g) as [w|];
        [|intros E; injection E as <- <-; split; [now apply RInv_set_err|exact F0]].
      set (st1 := set_handles (av_set st0 (w_idx w) true) (handles st0 ++ [g])).
      assert (H1 : RInv st1 /\ Fr2 st st1).
      { unfold st1. split; [eapply RInv_core; [|apply RInv_av_set; exact HR0]; reflexivity|].
        eapply Fr2_trans; [exact F0|]. eapply Fr2_trans; [apply Fr2_of_Fr1, Fr1_av_set|split; reflexivity]. }
      destruct H1 as [HR1 F1]. destruct (paused st1).
      * intros E. destruct (IH _ _ _ _ HR1 E) as [HR2 F2]. split; [exact HR2|exact (Fr2_trans _ _ _ F1 F2)].
      * destruct (accept_all L st1 ys) as [s2 y2] eqn:Ea. destruct (accept_all_r _ _ _ _ HR1 Ea) as [HR2 F2].
        intros E. destruct (IH _ _ _ _ HR2 E) as [HR3 F3].
        split; [exact HR3|exact (Fr2_trans _ _ _ F1 (Fr2_trans _ _ _ (Fr2_of_Fr1 _ _ F2) F3))].
    + set (st1 := if paused st0 then st0 else emit (deregister_all (set_paused st0 true)) EvPauseOn).
      assert (H1 : RInv st1 /\ Fr2 st st1).
      { unfold st1. destruct (paused st0) eqn:Hp0; [split; assumption|].
        split; [now apply RInv_pause|]. split; [reflexivity|]. cbn. now rewrite map_length. }
      destruct H1 as [HR1 F1].
      intros E. destruct (IH _ _ _ _ HR1 E) as [HR2 F2]. split; [exact HR2|exact (Fr2_trans _ _ _ F1 F2)].
    + destruct (paused st0) eqn:Hp0.
      * set (st1 := emit (set_lsts (set_paused st0 false) (map register (lsts st0))) EvPauseOff).
        assert (HR1 : RInv st1) by now apply RInv_resume.
        assert (F1 : Fr2 st st1) by (split; [reflexivity|]; cbn; now rewrite map_length).
        destruct (accept_all L st1 ys) as [s2 y2] eqn:Ea. destruct (accept_all_r _ _ _ _ HR1 Ea) as [HR2 F2].
        intros E. destruct (IH _ _ _ _ HR2 E) as [HR3 F3].
        split; [exact HR3|exact (Fr2_trans _ _ _ F1 (Fr2_trans _ _ _ (Fr2_of_Fr1 _ _ F2) F3))].
      * intros E. destruct (IH _ _ _ _ HR0 E) as [HR2 F2]. split; [exact HR2|exact (Fr2_trans _ _ _ F0 F2)].
    + intros E; injection E as <- <-. change (paused st) with (paused st0). split; [apply RInv_stop; exact HR0|].
      split; [destruct (paused st0); reflexivity|]. cbn. destruct (paused st); cbn; [reflexivity|now rewrite map_length].
Qed.

(* ---------- Accept::process_timeout ---------- *)
Definition pto_l (p : bool) (nw : N) (l : lst) : lst :=
  match l_to l with
  | None => l
  | Some inst => if (nw <? inst)%N then l else if p then set_l_to l None else register (set_l_to l None)
  end.

Definition pto_t (nw : N) (pt : option N) (l : lst) : option N :=
  match l_to l with
  | None => pt
  | Some inst =>
      if (nw <? inst)%N then
        let d := (inst - nw)%N in
        match pt with Some t => if (d <? t)%N then Some d else Some t | None => Some d end
      else pt
  end.

Lemma pto_fold p nw ls : forall done pt,
  fold_left (process_one_timeout p nw) ls (done, pt) = (done ++ map (pto_l p nw) ls, fold_left (pto_t nw) ls pt).
Proof.
  induction ls as [|l ls IH]; intros done pt; cbn [fold_left map]; [now rewrite app_nil_r|].
  unfold process_one_timeout at 2. unfold pto_l at 1, pto_t at 2.
  destruct (l_to l) as [inst|]; [destruct (N.ltb nw inst); [|destruct p]|]; rewrite IH, <- app_assoc; reflexivity.
Qed.

Lemma process_timeout_eq st :
  process_timeout st =
  match ptimeout st with
  | None => st
  | Some _ => set_ptimeout (set_lsts st (map (pto_l (paused st) (now st)) (lsts st)))
                           (fold_left (pto_t (now st)) (lsts st) None)
  end.
Proof. unfold process_timeout. destruct (ptimeout st); [|reflexivity]. rewrite pto_fold. reflexivity. Qed.

(* the new poll timeout: at most every remaining back-off, and bounded by B when every deadline is within B *)
Lemma pto_t_some nw t0 l : exists t1, pto_t nw (Some t0) l = Some t1 /\ (t1 <= t0)%N.
Proof.
  unfold pto_t. destruct (l_to l) as [inst|]; [destruct (N.ltb nw inst)|]; try (exists t0; split; [reflexivity|lia]).
  destruct (N.ltb_spec (inst - nw) t0); [exists (inst - nw)%N|exists t0]; split; try reflexivity; lia.
Qed.

Lemma pto_t_cover nw pt l d : l_to l = Some d -> (nw < d)%N ->
  exists t1, pto_t nw pt l = Some t1 /\ (t1 <= d - nw)%N.
Proof.
  intros Hd Hlt. unfold pto_t. rewrite Hd. apply N.ltb_lt in Hlt. rewrite Hlt.
  destruct pt as [t0|]; [|exists (d - nw)%N; split; [reflexivity|lia]].
  destruct (N.ltb_spec (d - nw) t0); [exists (d - nw)%N|exists t0]; split; try reflexivity; lia.
Qed.

Lemma pto_t_bound nw pt l B :
  (forall t0, pt = Some t0 -> (t0 <= B)%N) -> (forall d, l_to l = Some d -> (d <= nw + B)%N) ->
  forall t1, pto_t nw pt l = Some t1 -> (t1 <= B)%N.
Proof.
  intros Hpt Hl t1. unfold pto_t. destruct (l_to l) as [inst|]; [|apply Hpt].
  specialize (Hl inst eq_refl). destruct (N.ltb_spec nw inst); [|apply Hpt].
  destruct pt as [t0|].
  - destruct (N.ltb_spec (inst - nw) t0); intros E; injection E as <-; [lia|now apply Hpt].
  - intros E; injection E as <-. lia.
Qed.

Lemma pto_fold_mono nw ls : forall t0, exists t, fold_left (pto_t nw) ls (Some t0) = Some t /\ (t <= t0)%N.
Proof.
  induction ls as [|l ls IH]; intros t0; cbn [fold_left]; [exists t0; split; [reflexivity|lia]|].
  destruct (pto_t_some nw t0 l) as (t1 & E1 & H1). rewrite E1. destruct (IH t1) as (t & E & H). exists t. split; [exact E|lia].
Qed.

Lemma pto_fold_cover nw ls : forall pt l d, In l ls -> l_to l = Some d -> (nw < d)%N ->
  exists t, fold_left (pto_t nw) ls pt = Some t /\ (t <= d - nw)%N.
Proof.
  induction ls as [|x ls IH]; intros pt l d Hin Hd Hlt; [destruct Hin|]. cbn [fold_left].
  destruct Hin as [->|Hin]; [|eapply IH; eauto].
  destruct (pto_t_cover nw pt l d Hd Hlt) as (t1 & E1 & H1). rewrite E1.
  destruct (pto_fold_mono nw ls t1) as (t & E & H). exists t. split; [exact E|lia].
Qed.

Lemma pto_fold_bound nw ls B : forall pt,
  (forall t0, pt = Some t0 -> (t0 <= B)%N) -> (forall l d, In l ls -> l_to l = Some d -> (d <= nw + B)%N) ->
  forall t, fold_left (pto_t nw) ls pt = Some t -> (t <= B)%N.
Proof.
  induction ls as [|x ls IH]; intros pt Hpt Hl t; cbn [fold_left]; [apply Hpt|].
  apply IH.
  - apply pto_t_bound; [exact Hpt|]. intros d Hd. eapply Hl; [now left|exact Hd].
  - intros l d Hin. apply Hl. now right.
Qed.

Lemma process_timeout_r st : RInv st -> RInv (process_timeout st).
Proof.
  intros HR. rewrite process_timeout_eq. destruct (ptimeout st) as [t0|] eqn:Ept; [|exact HR].
  destruct HR as (H1 & H2 & H3). unfold RInv. cbn. split; [exact H1|]. split.
  - apply pto_fold_bound; [discriminate|]. intros l d Hin Hd.
    rewrite Forall_forall in H3. destruct (H3 l Hin) as (_ & B & _). destruct (B d Hd) as (_ & B2 & _). lia.
  - apply Forall_map. rewrite Forall_forall in H3 |- *. intros l Hin. destruct (H3 l Hin) as (A & B & C & D).
    unfold pto_l. destruct (l_to l) as [inst|] eqn:Et.
    + destruct (B inst eq_refl) as (B1 & B2 & _). destruct (N.ltb_spec (now st) inst) as [Hlt|Hge].
      * unfold LOk. rewrite Et. split; [exact A|]. split; [|split; [exact C|discriminate]].
        intros d E; injection E as <-. split; [exact B1|]. split; [exact B2|].
        destruct (pto_fold_cover (now st) (lsts st) None l inst Hin Et Hlt) as (t & E & _). rewrite E. discriminate.
      * destruct (paused st) eqn:Hp.
        -- unfold LOk. cbn. rewrite A, B1. repeat split; auto; discriminate.
        -- unfold register. cbn [l_reg set_l_to]. rewrite B1. unfold LOk. cbn. rewrite A. repeat split; auto; discriminate.
    + unfold LOk. rewrite Et. split; [exact A|]. split; [discriminate|]. split; [exact C|exact D].
Qed.

(* after process_timeout the poll timeout ends no later than every pending deadline: the blocking poll that
   follows returns in time for the listener to be examined at its deadline *)
Lemma process_timeout_wakeup st l d :
  RInv st -> In l (lsts (process_timeout st)) -> l_to l = Some d ->
  exists t, ptimeout (process_timeout st) = Some t /\ (now st + t <= d)%N.
Proof.
  intros (H1 & H2 & H3). rewrite process_timeout_eq. destruct (ptimeout st) as [t0|] eqn:Ept.
  - cbn. intros Hin Hd. apply in_map_iff in Hin as (l0 & <- & Hin0). unfold pto_l in Hd.
    destruct (l_to l0) as [inst|] eqn:Et; [|congruence].
    destruct (N.ltb_spec (now st) inst) as [Hlt|Hge].
    + rewrite Et in Hd. injection Hd as <-.
      destruct (pto_fold_cover (now st) (lsts st) None l0 inst Hin0 Et Hlt) as (t & E & Hle). exists t. split; [exact E|lia].
    + destruct (paused st); [cbn in Hd; discriminate|]. unfold register in Hd. destruct (l_reg _); cbn in Hd; discriminate.
  - intros Hin Hd. rewrite Forall_forall in H3. destruct (H3 l Hin) as (_ & B & _). destruct (B d Hd) as (_ & _ & B3).
    congruence.
Qed.

(* ---------- every operation, every run ---------- *)
Lemma RInv_advance st ms : RInv st -> RInv (set_now st (now st + ms)%N).
Proof.
  intros (H1 & H2 & H3). unfold RInv. cbn. split; [exact H1|]. split; [exact H2|].
  eapply Forall_impl; [|exact H3]. intros l (A & B & C & D). unfold LOk. split; [exact A|]. split; [|split; assumption].
  intros d Hd. destruct (B d Hd) as (B1 & B2 & B3). split; [exact B1|]. split; [lia|exact B3].
Qed.

Lemma RInv_turn_start st toks wk :
  RInv st -> RInv (emit (set_wq (set_lsts st (clear_edges (lsts st))) (wq st) false) (EvReady toks wk)).
Proof.
  intros (H1 & H2 & H3). unfold RInv. cbn. split; [apply TrOk_quiet; [reflexivity|exact H1]|]. split; [exact H2|].
  unfold clear_edges. apply Forall_map. eapply Forall_impl; [|exact H3]. intros l. apply LOk_key. reflexivity.
Qed.

Lemma step_r st o : RInv st -> RInv (step L st o).
Proof.
  intros HR. destruct o as [e|tok ys|ys| |ys|ms]; cbn [step].
  - apply env_step_r; exact HR.
  - destruct (live st); [|exact HR]. destruct (accept L st tok ys) as [s1 y1] eqn:Ea.
    exact (proj1 (accept_r _ _ _ _ _ HR Ea)).
  - destruct (live st); [|exact HR]. destruct (handle_waker L (handle_waker_fuel st ys) st ys) as [s1 y1] eqn:Eh.
    exact (proj1 (handle_waker_r _ _ _ _ _ HR Eh)).
  - destruct (live st); [|exact HR]. now apply process_timeout_r.
  - destruct (live st); [|exact HR].
    pose proof (RInv_turn_start st (ready_toks 0 (lsts st)) (wpend st) HR) as HR0.
    set (st0 := emit _ _) in *.
    destruct (accept_toks L st0 (ready_toks 0 (lsts st)) ys) as [s1 y1] eqn:Ea.
    pose proof (proj1 (accept_toks_r _ _ _ _ _ HR0 Ea)) as HR1.
    destruct (wpend st).
    + destruct (handle_waker L (handle_waker_fuel s1 y1) s1 y1) as [s2 y2] eqn:Eh.
      pose proof (proj1 (handle_waker_r _ _ _ _ _ HR1 Eh)) as HR2.
      destruct (live s2); [now apply process_timeout_r|exact HR2].
    + destruct (live s1); [now apply process_timeout_r|exact HR1].
  - now apply RInv_advance.
Qed.

Lemma run_r os : forall st, RInv st -> RInv (run L st os).
Proof. induction os as [|o os IH]; intros st HR; cbn [run fold_left]; [exact HR|]. apply IH, step_r, HR. Qed.

Lemma init_r W kinds : RInv (init W kinds).
Proof.
  unfold RInv, init. cbn. split; [split; reflexivity|]. split; [discriminate|].
  apply Forall_map. apply Forall_forall. intros k _. unfold LOk, mk_lst. cbn. repeat split; auto; discriminate.
Qed.

Theorem reachable_r W kinds os : RInv (run L (init W kinds) os).
Proof. apply run_r, init_r. Qed.

(* ---------- C05_pause_safe and the registration part of C05_no_strand, for every script ---------- *)
Lemma pause_safe_all W kinds os :
  let st := run L (init W kinds) os in
  (forall pre mid d post, is_dispatch d = true ->
     rev (trace st) = pre ++ EvPauseOn :: mid ++ d :: post -> In EvPauseOff mid) /\
  pstate (trace st) = paused st /\
  (paused st = true -> forall l, In l (lsts st) -> l_reg l = false /\ l_to l = None).
Proof.
  intros st. destruct (reachable_r W kinds os) as ((T1 & T2) & _ & H3). fold st in T1, T2, H3.
  split; [intros pre mid d post; now apply psafe_chrono|]. split; [exact T1|].
  intros Hp l Hin. rewrite Forall_forall in H3. destruct (H3 l Hin) as (_ & _ & C & _). auto.
Qed.

Lemma registration_all W kinds os :
  let st := run L (init W kinds) os in
  forall l, In l (lsts st) ->
    l_linked l = true /\
    (forall d, l_to l = Some d -> l_reg l = false) /\
    (stopped st = false ->
       l_reg l = true \/
       (exists d t, l_to l = Some d /\ (d <= now st + 500)%N /\ ptimeout st = Some t /\ (t <= 510)%N) \/
       (paused st = true /\ l_to l = None)).
Proof.
  intros st l Hin. destruct (reachable_r W kinds os) as (_ & H2 & H3). fold st in H2, H3.
  rewrite Forall_forall in H3. destruct (H3 l Hin) as (A & B & C & D).
  split; [exact A|]. split; [intros d Hd; apply (B d Hd)|]. intros Hs.
  destruct (l_to l) as [d|] eqn:Et.
  - right; left. destruct (B d eq_refl) as (_ & B2 & B3). destruct (ptimeout st) as [t|] eqn:Ept; [|congruence].
    exists d, t. repeat split; auto.
  - destruct (paused st) eqn:Hp; [right; right; split; reflexivity|left; now apply D].
Qed.

(* the next blocking poll is armed to return no later than every pending deadline *)
Lemma wakeup_after_timeout W kinds os :
  let st := run L (init W kinds) os in
  forall l d, In l (lsts (process_timeout st)) -> l_to l = Some d ->
    exists t, ptimeout (process_timeout st) = Some t /\ (now st + t <= d)%N.
Proof. intros st l d. apply process_timeout_wakeup, reachable_r. Qed.

(* ---------- C05_transient: a per-connection error consumes nothing else ---------- *)
Definition set_l_inject (l : lst) (v : list ekind) : lst :=
  {| l_uds := l_uds l; l_reg := l_reg l; l_edge := l_edge l; l_to := l_to l; l_backlog := l_backlog l;
     l_inject := v; l_linked := l_linked l |}.

Lemma transient_eq st tok ys l rest :
  err st = None -> paused st = false -> available (av st) = true ->
  nth_error (lsts st) tok = Some l -> l_inject l = ETransient :: rest ->
  accept L st tok ys = accept L (upd_lst st tok (set_l_inject l rest)) tok ys.
Proof.
  intros He Hp Hav Hl Hinj. unfold accept. cbn [paused upd_lst set_lsts]. rewrite Hp.
  pose proof (nth_error_Some_lt _ _ _ Hl) as Hlt.
  unfold accept_fuel. cbn [lsts upd_lst set_lsts]. rewrite nth_error_replace_nth_same by exact Hlt. rewrite Hl, Hinj.
  cbn [set_l_inject l_backlog l_inject length].
  replace (length (l_backlog l) + S (length rest) + ysize ys) with (S (length (l_backlog l) + length rest + ysize ys)) by lia.
  cbn [accept_loop]. rewrite He, Hav, Hl, Hinj. reflexivity.
Qed.

(* ---------- C05_idempotent ---------- *)
Lemma pause_pause_eq f st ys rest :
  err st = None -> wq st = IPause :: IPause :: rest ->
  handle_waker L (S (S f)) st ys = handle_waker L (S f) (set_wq st (IPause :: rest) (wpend st)) ys.
Proof.
  intros He Hq. cbn [handle_waker]. rewrite He, Hq. cbn [err set_wq wq paused].
  destruct (paused st) eqn:Hp; cbn; rewrite He, ?Hp; reflexivity.
Qed.

Lemma pause_when_paused_eq f st ys rest :
  err st = None -> paused st = true -> wq st = IPause :: rest ->
  handle_waker L (S f) st ys = handle_waker L f (set_wq st rest (wpend st)) ys.
Proof. intros He Hp Hq. cbn [handle_waker]. rewrite He, Hq. cbn [paused set_wq]. rewrite Hp. reflexivity. Qed.

Lemma resume_unmatched_eq f st ys rest :
  err st = None -> paused st = false -> wq st = IResume :: rest ->
  handle_waker L (S f) st ys = handle_waker L f (set_wq st rest (wpend st)) ys.
Proof. intros He Hp Hq. cbn [handle_waker]. rewrite He, Hq. cbn [paused set_wq]. rewrite Hp. reflexivity. Qed.

(* the state in which Resume's accept_all runs *)
Definition resumed (st : state) : state := emit (set_lsts (set_paused st false) (map register (lsts st))) EvPauseOff.

Lemma resume_resume_eq f st ys rest :
  RInv st -> err st = None -> paused st = true -> wq st = IResume :: IResume :: rest ->
  let '(st2, ys2) := accept_all L (resumed (set_wq st (IResume :: rest) (wpend st))) ys in
  paused st2 = false /\
  exists ext, wq st2 = IResume :: rest ++ ext /\
    (err st2 = None ->
     handle_waker L (S (S f)) st ys = handle_waker L f (set_wq st2 (rest ++ ext) (wpend st2)) ys2).
Proof.
  intros HR He Hp Hq. set (st0 := set_wq st (IResume :: rest) (wpend st)).
  assert (HR0 : RInv st0) by (eapply RInv_core; [|exact HR]; reflexivity).
  assert (HR1 : RInv (resumed st0)) by (apply RInv_resume; [exact HR0|exact Hp]).
  destruct (accept_all L (resumed st0) ys) as [st2 ys2] eqn:Ea.
  destruct (accept_all_r _ _ _ _ HR1 Ea) as [_ (F1 & _ & _ & (ext & Hext & _) & _)].
  assert (Hp2 : paused st2 = false) by exact F1.
  split; [exact Hp2|]. exists ext. split; [exact Hext|]. intros He2.
  cbn [handle_waker]. rewrite He, Hq. fold st0. change (paused st0) with (paused st). rewrite Hp.
  fold (resumed st0). rewrite Ea. rewrite He2, Hext. cbn [app paused set_wq]. rewrite Hp2. reflexivity.
Qed.

(* ---------- calls without a yield schedule (ys = []): nothing but the accept thread runs ---------- *)
Definition Q (st st' : state) : Prop :=
  lsts st' = lsts st /\ wq st' = wq st /\ wpend st' = wpend st /\ paused st' = paused st /\
  stopped st' = stopped st /\ ptimeout st' = ptimeout st /\ now st' = now st.

Lemma Q_refl st : Q st st.
Proof. unfold Q. repeat split. Qed.
Lemma Q_trans s0 s1 s2 : Q s0 s1 -> Q s1 s2 -> Q s0 s2.
Proof. unfold Q. intros (A1 & A2 & A3 & A4 & A5 & A6 & A7) (B1 & B2 & B3 & B4 & B5 & B6 & B7). repeat split; congruence. Qed.
Ltac qs := (unfold Q; repeat split).
Lemma Q_av_set st i v : Q st (av_set st i v).
Proof. unfold av_set. destruct (set (av st) i v); qs. Qed.
Lemma Q_do_set_next st : Q st (do_set_next st).
Proof. unfold do_set_next. destruct (length (handles st)); qs. Qed.

Lemma send_connection_q st c st' ys' r :
  send_connection L st c [] = (st', ys', r) -> ys' = [] /\ Q st st'.
Proof.
  unfold send_connection.
  destruct (nth_error (handles st) (next st)) as [g|]; [|intros E; injection E as <- <- <-; split; [reflexivity|qs]].
  destruct (nth_error (ws st) g) as [w|]; [|intros E; injection E as <- <- <-; split; [reflexivity|qs]].
  destruct (w_open w).
  - cbn [hd tl env_steps fold_left].
    match goal with |- context [nth_error (ws ?s) g] => set (st1 := s) end.
    assert (Q1 : Q st st1) by qs.
    destruct (nth_error (ws st1) g) as [w2|]; [|intros E; injection E as <- <- <-; split; [reflexivity|exact Q1]].
    intros E; injection E as <- <- <-. split; [reflexivity|].
    eapply Q_trans; [exact Q1|]. eapply Q_trans; [|apply Q_do_set_next].
    destruct (Z.eqb (w_cnt w2) L); [eapply Q_trans; [|apply Q_av_set]|]; qs.
  - match goal with |- context [handles ?s] => match s with av_set _ _ _ => set (st3 := s) end end.
    assert (Q3 : Q st st3) by (eapply Q_trans; [|apply Q_av_set]; qs).
    destruct (handles st3); [intros E; injection E as <- <- <-; split; [reflexivity|exact Q3]|].
    match goal with |- context [if ?b then _ else _] => destruct b end; intros E; injection E as <- <- <-;
      (split; [reflexivity|exact Q3]).
Qed.

Lemma forced_send_q : forall fuel st c st' ys', forced_send L fuel st c [] = (st', ys') -> ys' = [] /\ Q st st'.
Proof.
  induction fuel as [|f IH]; intros st c st' ys'; cbn [forced_send].
  - intros E; injection E as <- <-. split; [reflexivity|qs].
  - destruct (err st); [intros E; injection E as <- <-; split; [reflexivity|qs]|].
    destruct (send_connection L st c []) as [[s1 y1] r] eqn:Es. destruct (send_connection_q _ _ _ _ _ Es) as [-> Q1].
    destruct r; [intros E; injection E as <- <-; split; [reflexivity|exact Q1]|].
    intros E. destruct (IH _ _ _ _ E) as [-> Q2]. split; [reflexivity|exact (Q_trans _ _ _ Q1 Q2)].
Qed.

Lemma accept_one_q : forall fuel st c st' ys', accept_one L fuel st c [] = (st', ys') -> ys' = [] /\ Q st st'.
Proof.
  induction fuel as [|f IH]; intros st c st' ys'; cbn [accept_one].
  - intros E; injection E as <- <-. split; [reflexivity|qs].
  - destruct (err st); [intros E; injection E as <- <-; split; [reflexivity|qs]|].
    destruct (nth_error (handles st) (next st)) as [g|]; [|intros E; injection E as <- <-; split; [reflexivity|qs]].
    destruct (nth_error (ws st) g) as [w|]; [|intros E; injection E as <- <-; split; [reflexivity|qs]].
    destruct (av_get st (w_idx w)) as [st0 b] eqn:Eg.
    assert (Q0 : Q st st0) by (unfold av_get in Eg; destruct (get (av st) (w_idx w)); injection Eg as <- <-; qs).
    destruct b.
    + destruct (send_connection L st0 c []) as [[s1 y1] r] eqn:Es. destruct (send_connection_q _ _ _ _ _ Es) as [-> Q1].
      destruct r; [intros E; injection E as <- <-; split; [reflexivity|exact (Q_trans _ _ _ Q0 Q1)]|].
      intros E. destruct (IH _ _ _ _ E) as [-> Q2]. split; [reflexivity|exact (Q_trans _ _ _ Q0 (Q_trans _ _ _ Q1 Q2))].
    + match goal with |- context [available (av ?s)] => set (st1 := s) end.
      assert (Q1 : Q st st1).
      { eapply Q_trans; [exact Q0|]. eapply Q_trans; [|apply Q_do_set_next]. eapply Q_trans; [|apply Q_av_set]. qs. }
      destruct (available (av st1)); intros E.
      * destruct (IH _ _ _ _ E) as [-> Q2]. split; [reflexivity|exact (Q_trans _ _ _ Q1 Q2)].
      * destruct (forced_send_q _ _ _ _ _ E) as [-> Q2]. split; [reflexivity|exact (Q_trans _ _ _ Q1 Q2)].
Qed.

(* a listener with no injected error pending whose deadline field is o *)
Definition Calm (T : nat) (o : option N) (st : state) : Prop :=
  exists l, nth_error (lsts st) T = Some l /\ l_inject l = [] /\ l_to l = o.

Lemma Calm_lsts T o st st' : lsts st' = lsts st -> Calm T o st -> Calm T o st'.
Proof. unfold Calm. intros ->. auto. Qed.

Lemma Calm_upd_other T o st tok l' : T <> tok -> Calm T o st -> Calm T o (upd_lst st tok l').
Proof.
  intros Hne (l & Hl & H). exists l. split; [|exact H]. cbn. rewrite nth_error_replace_nth_other; auto.
Qed.

Lemma Calm_upd_same T o st l l' :
  nth_error (lsts st) T = Some l -> l_inject l' = [] -> l_to l' = l_to l -> Calm T o st -> Calm T o (upd_lst st T l').
Proof.
  intros Hl Hi Ht (l0 & Hl0 & H1 & H2). rewrite Hl in Hl0. injection Hl0 as <-.
  exists l'. cbn. rewrite nth_error_replace_nth_same by (eapply nth_error_Some_lt; eauto). repeat split; congruence.
Qed.

(* the other fields an accept call without yields leaves alone *)
Definition QL (st st' : state) : Prop :=
  wq st' = wq st /\ wpend st' = wpend st /\ paused st' = paused st /\ stopped st' = stopped st /\ now st' = now st /\
  length (lsts st') = length (lsts st).

Lemma QL_refl st : QL st st.
Proof. unfold QL. repeat split. Qed.
Lemma QL_trans s0 s1 s2 : QL s0 s1 -> QL s1 s2 -> QL s0 s2.
Proof. unfold QL. intros (A1 & A2 & A3 & A4 & A5 & A6) (B1 & B2 & B3 & B4 & B5 & B6). repeat split; congruence. Qed.
Lemma QL_of_Q st st' : Q st st' -> QL st st'.
Proof. unfold Q, QL. intros (A1 & A2 & A3 & A4 & A5 & A6 & A7). rewrite A1. repeat split; assumption. Qed.
Lemma QL_upd_lst st tok l : QL st (upd_lst st tok l).
Proof. unfold QL. cbn. rewrite length_replace_nth. repeat split. Qed.

Lemma Calm_inject_nil T o st l : Calm T o st -> nth_error (lsts st) T = Some l -> l_inject l = [].
Proof. intros (l0 & H0 & H1 & _) Hl. congruence. Qed.

Lemma accept_loop_q : forall fuel st tok st' ys',
  accept_loop L fuel st tok [] = (st', ys') ->
  ys' = [] /\ QL st st' /\ forall T o, Calm T o st -> Calm T o st'.
Proof.
  induction fuel as [|f IH]; intros st tok st' ys'; cbn [accept_loop].
  - intros E; injection E as <- <-. split; [reflexivity|]. split; [unfold QL; repeat split|]. intros T o. apply Calm_lsts. reflexivity.
  - destruct (err st); [intros E; injection E as <- <-; split; [reflexivity|]; split; [apply QL_refl|auto]|].
    destruct (available (av st)); [|intros E; injection E as <- <-; split; [reflexivity|]; split; [apply QL_refl|auto]].
    destruct (nth_error (lsts st) tok) as [l|] eqn:El.
    2:{ intros E; injection E as <- <-. split; [reflexivity|]. split; [unfold QL; repeat split|].
        intros T o. apply Calm_lsts. reflexivity. }
    destruct (l_inject l) as [|k rest] eqn:Einj.
    + destruct (l_backlog l) as [|c rest]; [intros E; injection E as <- <-; split; [reflexivity|]; split; [apply QL_refl|auto]|].
      match goal with |- context [accept_one L _ ?s _ _] => set (st1 := s) end.
      assert (C1 : forall T o, Calm T o st -> Calm T o st1).
      { intros T o HC. unfold st1. destruct (Nat.eq_dec T tok) as [->|Hne]; [|now apply Calm_upd_other].
        eapply Calm_upd_same; eauto. }
      destruct (accept_one L (accept_one_fuel st1) st1 _ []) as [st2 ys2] eqn:Ea.
      destruct (accept_one_q _ _ _ _ _ Ea) as [-> Q2].
      intros E. destruct (IH _ _ _ _ E) as (-> & Q3 & C3). split; [reflexivity|]. split.
      * eapply QL_trans; [apply QL_upd_lst|]. eapply QL_trans; [apply QL_of_Q; exact Q2|exact Q3].
      * intros T o HC. apply C3. eapply Calm_lsts; [apply Q2|]. now apply C1.
    + assert (C1 : forall T o l', Calm T o st -> Calm T o (upd_lst st tok l')).
      { intros T o l' HC. destruct (Nat.eq_dec T tok) as [->|Hne]; [|now apply Calm_upd_other].
        pose proof (Calm_inject_nil _ _ _ _ HC El). congruence. }
      destruct k.
      * intros E; injection E as <- <-. split; [reflexivity|]. split; [apply QL_upd_lst|]. intros T o. apply C1.
      * intros E. destruct (IH _ _ _ _ E) as (-> & Q3 & C3). split; [reflexivity|].
        split; [eapply QL_trans; [apply QL_upd_lst|exact Q3]|]. intros T o HC. apply C3, C1, HC.
      * intros E; injection E as <- <-. split; [reflexivity|].
        match goal with |- context [set_timeout ?s ?d] =>
          destruct (set_timeout_spec s d) as (_ & _ & S2 & S3 & S4 & S5 & S6 & S7 & _) end.
        split.
        -- unfold QL. rewrite S2, S3, S4, S5, S6, S7. cbn. rewrite length_replace_nth. repeat split.
        -- intros T o HC. eapply Calm_lsts; [exact S2|]. apply C1, HC.
Qed.

Lemma accept_q st tok st' ys' :
  accept L st tok [] = (st', ys') -> ys' = [] /\ QL st st' /\ forall T o, Calm T o st -> Calm T o st'.
Proof.
  unfold accept. destruct (paused st); [|apply accept_loop_q].
  intros E; injection E as <- <-. split; [reflexivity|]. split; [apply QL_refl|auto].
Qed.

Lemma accept_toks_q toks : forall st st' ys',
  accept_toks L st toks [] = (st', ys') -> ys' = [] /\ QL st st' /\ forall T o, Calm T o st -> Calm T o st'.
Proof.
  induction toks as [|t r IH]; intros st st' ys'; cbn [accept_toks].
  - intros E; injection E as <- <-. split; [reflexivity|]. split; [apply QL_refl|auto].
  - destruct (accept L st t []) as [s1 y1] eqn:Ea. destruct (accept_q _ _ _ _ Ea) as (-> & Q1 & C1).
    intros E. destruct (IH _ _ _ E) as (-> & Q2 & C2). split; [reflexivity|]. split; [exact (QL_trans _ _ _ Q1 Q2)|auto].
Qed.

(* what the pause flag will be once the queue q has been processed *)
Fixpoint final_paused (p : bool) (q : list interest) : bool :=
  match q with
  | [] => p
  | i :: r => final_paused (match i with IPause => true | IResume => false | _ => p end) r
  end.

Lemma Calm_deregister_all T st : Calm T None st -> Calm T None (deregister_all st).
Proof.
  intros (l & Hl & H1 & H2). unfold Calm, deregister_all. cbn. rewrite nth_error_map, Hl. cbn.
  eexists. split; [reflexivity|]. rewrite H2. cbn. auto.
Qed.

Lemma Calm_register_all T o st st1 : lsts st1 = map register (lsts st) -> Calm T o st -> Calm T o st1.
Proof.
  intros E (l & Hl & H1 & H2). unfold Calm. rewrite E, nth_error_map, Hl. cbn.
  eexists. split; [reflexivity|]. unfold register. destruct (l_reg l); cbn; auto.
Qed.

Lemma err_set_err st b : err (set_err st b) <> None.
Proof. cbn. destruct (err st); discriminate. Qed.

Lemma handle_waker_q : forall fuel st st' ys',
  handle_waker L fuel st [] = (st', ys') -> ~ In IStop (wq st) ->
  ys' = [] /\ now st' = now st /\ length (lsts st') = length (lsts st) /\
  (forall T o, Calm T o st -> (o <> None -> paused st = false /\ ~ In IPause (wq st)) -> Calm T o st') /\
  (err st' = None ->
     paused st' = final_paused (paused st) (wq st) /\ stopped st' = stopped st /\ wq st' = [] /\ wpend st' = wpend st).
Proof.
  induction fuel as [|f IH]; intros st st' ys'; cbn [handle_waker].
  - intros E _; injection E as <- <-. repeat split; try (intros; now apply (Calm_lsts _ _ st)); try reflexivity;
      exfalso; eapply err_set_err; eauto.
  - destruct (err st) eqn:Ee; [intros E _; injection E as <- <-; repeat split; auto; congruence|].
    destruct (wq st) as [|i rest] eqn:Eq; [intros E _; injection E as <- <-; repeat split; auto|].
    set (st0 := set_wq st rest (wpend st)). intros E Hns.
    assert (Hns' : ~ In IStop rest) by (intros H; apply Hns; now right).
    (* the continuation, from a state s1 whose queue is rest *)
    assert (K : forall s1 p1, handle_waker L f s1 [] = (st', ys') -> wq s1 = rest -> now s1 = now st ->
              length (lsts s1) = length (lsts st) -> stopped s1 = stopped st -> wpend s1 = wpend st -> paused s1 = p1 ->
              final_paused p1 rest = final_paused (paused st) (i :: rest) ->
              (forall T o, Calm T o st -> (o <> None -> paused st = false /\ ~ In IPause (i :: rest)) ->
                 Calm T o s1 /\ (o <> None -> p1 = false)) ->
              ys' = [] /\ now st' = now st /\ length (lsts st') = length (lsts st) /\
              (forall T o, Calm T o st -> (o <> None -> paused st = false /\ ~ In IPause (i :: rest)) -> Calm T o st') /\
              (err st' = None -> paused st' = final_paused (paused st) (i :: rest) /\ stopped st' = stopped st /\
                                 wq st' = [] /\ wpend st' = wpend st)).
    { intros s1 p1 E1 Hq1 Hn1 Hl1 Hs1 Hw1 Hp1 Hfp HC1.
      destruct (IH _ _ _ E1) as (-> & A2 & A3 & A4 & A5); [now rewrite Hq1|].
      split; [reflexivity|]. split; [congruence|]. split; [congruence|]. split.
      - intros T o HC Ho. destruct (HC1 T o HC Ho) as [HC' Hp']. apply A4; [exact HC'|].
        intros Hne. split; [rewrite Hp1; auto|]. rewrite Hq1. intros Hin. apply (proj2 (Ho Hne)). now right.
      - intros He'. destruct (A5 He') as (B1 & B2 & B3 & B4). rewrite Hq1, Hp1 in B1.
        repeat split; congruence. }
    assert (P0 : paused st0 = paused st) by reflexivity.
    assert (W0 : wq st0 = rest) by reflexivity. assert (N0 : now st0 = now st) by reflexivity.
    assert (S0 : stopped st0 = stopped st) by reflexivity. assert (WP0 : wpend st0 = wpend st) by reflexivity.
    assert (LL0 : lsts st0 = lsts st) by reflexivity.
    destruct i as [idx|g| | |].
    + set (st1 := if existsb _ (handles st0) then av_set st0 idx true else st0) in E.
      assert (Q1 : Q st0 st1) by (unfold st1; destruct (existsb _ (handles st0)); [apply Q_av_set|apply Q_refl]).
      destruct Q1 as (L1 & L2 & L3 & L4 & L5 & L6 & L7). rewrite P0 in L4.
      destruct (paused st1) eqn:Hp1.
      * apply (K st1 true); [exact E|congruence|congruence|now rewrite L1, LL0|congruence|congruence|exact Hp1| |].
        -- cbn. now rewrite <- L4.
        -- intros T o HC Ho. split; [eapply Calm_lsts; [exact L1|exact HC]|].
           intros Hne. destruct (Ho Hne) as [Hp _]. congruence.
      * destruct (accept_all L st1 []) as [s2 y2] eqn:Ea. unfold accept_all in Ea.
        destruct (accept_toks_q _ _ _ _ Ea) as (-> & (M1 & M2 & M3 & M4 & M5 & M6) & C2).
        apply (K s2 false); [exact E|congruence|congruence|rewrite M6, L1, LL0; reflexivity|congruence|congruence|congruence| |].
        -- cbn. now rewrite <- L4.
        -- intros T o HC Ho. split; [|reflexivity]. apply C2. eapply Calm_lsts; [exact L1|exact HC].
    + destruct (nth_error (ws st0) g) as [w|].
      2:{ injection E as <- <-. repeat split; try (intros; now apply (Calm_lsts _ _ st)); try reflexivity;
          exfalso; eapply err_set_err; eauto. }
      set (st1 := set_handles (av_set st0 (w_idx w) true) (handles st0 ++ [g])) in E.
      assert (Q1 : Q st0 st1) by (unfold st1; eapply Q_trans; [apply Q_av_set|qs]).
      destruct Q1 as (L1 & L2 & L3 & L4 & L5 & L6 & L7). rewrite P0 in L4.
      destruct (paused st1) eqn:Hp1.
      * apply (K st1 true); [exact E|congruence|congruence|now rewrite L1, LL0|congruence|congruence|exact Hp1| |].
        -- cbn. now rewrite <- L4.
        -- intros T o HC Ho. split; [eapply Calm_lsts; [exact L1|exact HC]|].
           intros Hne. destruct (Ho Hne) as [Hp _]. congruence.
      * destruct (accept_all L st1 []) as [s2 y2] eqn:Ea. unfold accept_all in Ea.
        destruct (accept_toks_q _ _ _ _ Ea) as (-> & (M1 & M2 & M3 & M4 & M5 & M6) & C2).
        apply (K s2 false); [exact E|congruence|congruence|rewrite M6, L1, LL0; reflexivity|congruence|congruence|congruence| |].
        -- cbn. now rewrite <- L4.
        -- intros T o HC Ho. split; [|reflexivity]. apply C2. eapply Calm_lsts; [exact L1|exact HC].
    + set (st1 := if paused st0 then st0 else emit (deregister_all (set_paused st0 true)) EvPauseOn) in E.
      apply (K st1 true); [exact E| | | | | | |reflexivity|];
        try (unfold st1; destruct (paused st0) eqn:Hp0; solve [reflexivity|exact Hp0|cbn; now rewrite map_length]).
      intros T o HC Ho. destruct o as [d|].
      * exfalso. destruct (Ho ltac:(discriminate)) as [_ Hni]. apply Hni. now left.
      * split; [|intros H; congruence]. unfold st1. destruct (paused st0); [eapply Calm_lsts; [|exact HC]; reflexivity|].
        eapply Calm_lsts; [|apply (Calm_deregister_all T (set_paused st0 true)); eapply Calm_lsts; [|exact HC]; reflexivity].
        reflexivity.
    + destruct (paused st0) eqn:Hp0.
      * set (st1 := emit (set_lsts (set_paused st0 false) (map register (lsts st0))) EvPauseOff) in E.
        destruct (accept_all L st1 []) as [s2 y2] eqn:Ea. unfold accept_all in Ea.
        destruct (accept_toks_q _ _ _ _ Ea) as (-> & (M1 & M2 & M3 & M4 & M5 & M6) & C2).
        apply (K s2 false); [exact E|exact M1|exact M5| |exact M4|exact M2|exact M3|reflexivity|].
        -- rewrite M6. unfold st1. cbn. now rewrite map_length.
        -- intros T o HC Ho. split; [|reflexivity]. apply C2. eapply (Calm_register_all T o st); [reflexivity|exact HC].
      * apply (K st0 false); [exact E|reflexivity|reflexivity|reflexivity|reflexivity|reflexivity|exact Hp0|reflexivity|].
        intros T o HC Ho. split; [eapply Calm_lsts; [|exact HC]; reflexivity|reflexivity].
    + exfalso. apply Hns. now left.
Qed.

Lemma process_timeout_calm_none T st : Calm T None st -> Calm T None (process_timeout st).
Proof.
  intros (l & Hl & H1 & H2). rewrite process_timeout_eq. destruct (ptimeout st); [|exists l; auto].
  unfold Calm. cbn. rewrite nth_error_map, Hl. cbn. exists l. split; [|auto]. unfold pto_l. now rewrite H2.
Qed.

Lemma process_timeout_calm_some T d st :
  Calm T (Some d) st -> ptimeout st <> None -> paused st = false -> (d <= now st)%N ->
  Calm T None (process_timeout st).
Proof.
  intros (l & Hl & H1 & H2) Hpt Hp Hd. rewrite process_timeout_eq. destruct (ptimeout st); [|congruence].
  unfold Calm. cbn. rewrite nth_error_map, Hl. cbn. eexists. split; [reflexivity|]. unfold pto_l. rewrite H2, Hp.
  destruct (N.ltb_spec (now st) d); [lia|]. unfold register. destruct (l_reg _); cbn; auto.
Qed.

(* Resume;Resume on a reachable state of any script *)
Lemma resume_resume_run W kinds os f ys rest :
  let st := run L (init W kinds) os in
  err st = None -> paused st = true -> wq st = IResume :: IResume :: rest ->
  let '(st2, ys2) := accept_all L (resumed (set_wq st (IResume :: rest) (wpend st))) ys in
  paused st2 = false /\
  exists ext, wq st2 = IResume :: rest ++ ext /\
    (err st2 = None ->
     handle_waker L (S (S f)) st ys = handle_waker L f (set_wq st2 (rest ++ ext) (wpend st2)) ys2).
Proof. intros st. apply resume_resume_eq. apply reachable_r. Qed.

End All.
