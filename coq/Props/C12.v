(* Props/C12.v — combinator readiness and polling obey the Service and Future contracts.
   ONLY statements, each closed by `exact <lemma>`, non-vacuity Examples, Print Assumptions.

   Reading guide.  [poll_ready e w = (e', r, l)]: one `poll_ready` of the tree e with waker w
   answers r, leaves the service in state e' and logs l.  [leaves e] lists, in evaluation order,
   every leaf of e with the answer its script gives to the NEXT poll and the map_err closures
   between it and the root; [ev_of w leaf] is the event that leaf logs when polled with waker w;
   [ready_evs l] are the leaf readiness polls in l.  [polls n w f]: the successive polls
   (waker, result, events) of the executor driving future f with fresh wakers w, w+1, ... *)
From AN Require Import Model.Svc Proofs.SvcFacts.

(* Ready(Ok) iff every leaf answers Ready(Ok) in this very call ... *)
Theorem C12_ready_conj : forall e w e' r l,
  poll_ready e w = (e', r, l) ->
  (r = ROk <-> Forall (fun x : leaf_t => snd (fst x) = ROk) (leaves e)).
Proof. exact ready_ok_iff. Qed.

(* ... and whenever the answer is not an error (Ready(Ok) or Pending), EVERY leaf was polled in
   this call, exactly once, in evaluation order, with the current waker: nothing is skipped,
   in particular and_then polls b although a is pending. *)
Theorem C12_ready_polls_all : forall e w e' r l,
  poll_ready e w = (e', r, l) -> is_rerr r = false ->
  ready_evs l = map (ev_of w) (leaves e).
Proof. exact ready_not_err_all_polled. Qed.

(* ... and every leaf has consumed exactly one scripted answer, so the theorems apply again to
   the next call (Pending^k . Ready leaves make the combinator ready after exactly max k + 1 calls). *)
Theorem C12_ready_state : forall e w e' r l,
  poll_ready e w = (e', r, l) -> is_rerr r = false -> e' = advance e.
Proof. exact ready_not_err_state. Qed.

(* No lost wake-up: if the combinator reports Pending, every leaf — so every leaf whose next
   scripted answer is Pending — has been polled with the current waker w ... *)
Theorem C12_waker : forall e w e' l,
  poll_ready e w = (e', RPending, l) ->
  forall id a ms, In (id, a, ms) (leaves e) -> In (EvReady id w a) l.
Proof. exact ready_pending_waker. Qed.

(* ... and Pending is reported only if some leaf is pending. *)
Theorem C12_pending_has_cause : forall e w e' l,
  poll_ready e w = (e', RPending, l) -> exists id ms, In (id, RPending, ms) (leaves e).
Proof. exact ready_pending_has_pending. Qed.

(* An inner readiness error is reported instead of ready: it is the error of the first erroring
   leaf in evaluation order, passed through the map_err closures above that leaf (innermost
   first); the leaves before it were polled, the leaves after it were not. *)
Theorem C12_ready_err : forall e w e' x l,
  poll_ready e w = (e', RErr x, l) ->
  exists pre id e0 ms post,
    leaves e = pre ++ (id, RErr e0, ms) :: post
    /\ Forall (fun y : leaf_t => is_rerr (snd (fst y)) = false) pre
    /\ x = fold_left (fun v m => app_m m v) ms e0
    /\ ready_evs l = map (ev_of w) (pre ++ [(id, RErr e0, ms)]).
Proof. exact ready_err_first. Qed.

(* Futures.  Every poll the executor makes on the future of ANY tree for ANY request (any fuel,
   any start waker):  does not panic (`Option::take().unwrap()`, `Ready` polled twice);  logs only
   leaf-future polls that carry the waker of this very poll and are NOT polls after completion
   (no EvPollDone), calls of later stages and closure applications;  and if it returns Pending,
   the last event of the poll is a leaf future answering Pending to the current waker. *)
Theorem C12_future_polls : forall e req n w, Forall good_poll (polls n w (call_fut e req)).
Proof. exact call_polls_good. Qed.

(* [polls] is the same execution as [run_call]: the log of run_call is the call events followed
   by the events of these polls.  (With C11_order: every later stage is entered exactly once.) *)
Theorem C12_polls_are_the_run : forall n w e req,
  snd (run_call n w e req)
  = call_evs e req ++ concat (map (fun x : nat * pres * list event => snd x) (polls n w (call_fut e req))).
Proof. exact run_call_log. Qed.

(* Factory futures (is_none guards of the and_then factory future, Option::take of the closures,
   the A/B/C state machines of apply / apply_cfg_factory).  Every poll the executor makes on the
   future of ANY factory tree with ANY config:  does not panic;  logs only init-future polls and
   readiness polls (apply_cfg_factory's wait) that carry the waker of this very poll, never a poll
   of an init future that had already completed (no EvInitDone), never a second new_service;  and
   if it returns Pending, some inner init future or some leaf's readiness answered Pending to the
   current waker in this poll. *)
Theorem C12_factory_polls : forall f c n w, Forall fgood_poll (fpolls n w (new_fut f c)).
Proof. exact new_polls_good. Qed.

Theorem C12_factory_polls_are_the_run : forall n w f c,
  snd (run_new n w f c)
  = new_evs f c ++ concat (map (fun x : nat * ipres * list event => snd x) (fpolls n w (new_fut f c))).
Proof. exact run_new_log. Qed.

(* non-vacuity: and_then over a pending and a ready-later leaf; an error mapped twice *)
Definition ex_a := Leaf 0 [RPending; ROk] (fun r => (0%nat, Ok r)).
Definition ex_b := Leaf 1 [RPending; RPending; RErr 3] (fun r => (1%nat, Ok r)).
Definition ex_t := MapErr (MAdd 100) (AndThen ex_a (MapErr (MTag 9) ex_b)).
Example C12_example_pending :
  exists e', poll_ready ex_t 5 = (e', RPending, [EvReady 0 5 RPending; EvReady 1 5 RPending])
  /\ leaves ex_t = [(0%nat, RPending, [MAdd 100]); (1%nat, RPending, [MTag 9; MAdd 100])].
Proof. eexists. vm_compute. split; reflexivity. Qed.
Example C12_example_err :
  let '(e1, _, _) := poll_ready ex_t 0 in
  let '(e2, _, _) := poll_ready e1 1 in
  exists e3, poll_ready e2 2
  = (e3, RErr 139, [EvReady 0 2 ROk; EvReady 1 2 (RErr 3); EvMap KErr (MTag 9) 3; EvMap KErr (MAdd 100) 39]).
Proof. vm_compute. eexists. reflexivity. Qed.
Example C12_example_polls :
  polls 10 7 (call_fut (AndThen ex_b (Map (MMul 2) ex_b)) 4)
  = [(7%nat, PPending, [EvPoll 1 7 PPending]);
     (8%nat, PPending, [EvPoll 1 8 (PReady (Ok 4)); EvCall 1 4; EvPoll 1 8 PPending]);
     (9%nat, PReady (Ok 8), [EvPoll 1 9 (PReady (Ok 4)); EvMap KOk (MMul 2) 4])].
Proof. vm_compute. reflexivity. Qed.

Example C12_example_factory_polls :
  fpolls 10 0 (new_fut (FAndThen (FLeafF 0 LDirect (fun _ => (0%nat, IOk ex_a))) (FLeafF 1 LDirect (fun _ => (2%nat, IOk ex_b)))) None)
  = [(0%nat, IPending, [EvInit 0 0 false; EvInit 1 0 true]);
     (1%nat, IPending, [EvInit 1 1 true]);
     (2%nat, IReady (IOk (AndThen ex_a ex_b)), [EvInit 1 2 false])].
Proof. vm_compute. reflexivity. Qed.

Print Assumptions C12_ready_conj.
Print Assumptions C12_ready_polls_all.
Print Assumptions C12_waker.
Print Assumptions C12_pending_has_cause.
Print Assumptions C12_ready_err.
Print Assumptions C12_future_polls.
Print Assumptions C12_polls_are_the_run.
Print Assumptions C12_factory_polls.
Print Assumptions C12_factory_polls_are_the_run.
Print Assumptions C12_ready_state.
