(* Driver for the extracted accept-loop model.
   modes:  srv   : case "W=2;L=1;K=TU;ops=c0:1 T A0{p0,f0:1|c0:2} H +600 O"  -> one snapshot per op, joined by " ; "
           avail : case "s<i>:<0|1> g<i> a ..." op sequence on the availability bitset -> results
   The same text is produced by harness/h_server. *)
open Gen

let rec pos_of_int n = if n = 1 then XH else if n land 1 = 1 then XI (pos_of_int (n lsr 1)) else XO (pos_of_int (n lsr 1))
let n_of_int n = if n = 0 then N0 else Npos (pos_of_int n)
let z_of_int n = if n = 0 then Z0 else if n > 0 then Zpos (pos_of_int n) else Zneg (pos_of_int (-n))
let rec int_of_pos = function XH -> 1 | XO p -> 2 * int_of_pos p | XI p -> 2 * int_of_pos p + 1
let int_of_n = function N0 -> 0 | Npos p -> int_of_pos p
let int_of_z = function Z0 -> 0 | Zpos p -> int_of_pos p | Zneg p -> - (int_of_pos p)
let rec nat_of_int n = if n <= 0 then O else S (nat_of_int (n - 1))
let rec int_of_nat = function O -> 0 | S n -> 1 + int_of_nat n

(* ---------- parsing ---------- *)
let split_on c s = if s = "" then [] else String.split_on_char c s

let parse_eop (s : string) : eop =
  let rest = String.sub s 1 (String.length s - 1) in
  let two () = match String.split_on_char ':' rest with
    | [a; b] -> (a, b) | _ -> failwith ("bad op " ^ s) in
  match s.[0] with
  | 'c' -> let (a, b) = two () in Connect (nat_of_int (int_of_string a), n_of_int (int_of_string b))
  | 'p' -> Pick (nat_of_int (int_of_string rest))
  | 'f' -> let (a, b) = two () in Finish (nat_of_int (int_of_string a), n_of_int (int_of_string b))
  | 'd' -> DrainDrop (nat_of_int (int_of_string rest))
  | 'k' -> Kill (nat_of_int (int_of_string rest))
  | 'P' -> Command CPause
  | 'R' -> Command CResume
  | 'S' -> Command CStop
  | 'r' -> Respawn (n_of_int (int_of_string rest))
  | 'i' -> let (a, b) = two () in
      Inject (nat_of_int (int_of_string a),
              (match b with "w" -> EWouldBlock | "t" -> ETransient | "o" -> EOther | _ -> failwith ("bad kind " ^ s)))
  | _ -> failwith ("bad env op " ^ s)

(* "{a,b|c}" -> [[a;b];[c]] ; "" -> [] *)
let parse_ys (s : string) : eop list list =
  if s = "" then [] else begin
    let inner = String.sub s 1 (String.length s - 2) in
    List.map (fun grp -> List.map parse_eop (split_on ',' grp)) (String.split_on_char '|' inner)
  end

let parse_op (s : string) : op =
  let body, ys =
    match String.index_opt s '{' with
    | Some i -> (String.sub s 0 i, String.sub s i (String.length s - i))
    | None -> (s, "") in
  match body.[0] with
  | 'A' -> AcceptTok (nat_of_int (int_of_string (String.sub body 1 (String.length body - 1))), parse_ys ys)
  | 'H' -> HandleWaker (parse_ys ys)
  | 'T' -> Turn (parse_ys ys)
  | 'O' -> ProcessTimeout
  | '+' -> Advance (n_of_int (int_of_string (String.sub body 1 (String.length body - 1))))
  | _ -> E (parse_eop s)

(* ---------- printing ---------- *)
let show_conns l = String.concat "," (List.map (fun c -> Printf.sprintf "%d/%d" (int_of_n c.c_id) (int_of_nat c.c_tok)) l)

let show_event = function
  | EvSkip (_, _, _) -> None
  | EvDispatch (c, tok, g, idx, _) -> Some (Printf.sprintf "D%d/%d>%d" (int_of_n c) (int_of_nat tok) (int_of_nat g))
  | EvDropNoWorker c -> None
  | EvFaulted idx -> Some (Printf.sprintf "F%d" (int_of_n idx))
  | EvConnFail (c, tok) -> Some (Printf.sprintf "X%d/%d" (int_of_n c) (int_of_nat tok))
  | EvLost c -> None
  | EvReleased c -> None
  | EvReady (toks, wk) -> Some (Printf.sprintf "Y%s%s" (String.concat "," (List.map (fun t -> string_of_int (int_of_nat t)) toks)) (if wk then "w" else ""))
  | EvPauseOn | EvPauseOff | EvKilled _ -> None
  | EvExit -> Some "EXIT"

let rec take n l = if n <= 0 then [] else match l with [] -> [] | x :: t -> x :: take (n - 1) t

let snapshot (st : state) (nev_before : int) : string =
  let evs = List.rev (take (List.length st.trace - nev_before) st.trace) in
  let evs = List.filter_map show_event evs in
  (* canonical order: fault notices last (the harness can only read them after the call returns) *)
  let isf e = String.length e > 0 && e.[0] = 'F' in
  let evs = List.filter (fun e -> not (isf e)) evs @ List.filter isf evs in
  let maxidx = List.fold_left (fun m w -> max m (int_of_n w.w_idx)) 0 st.ws in
  let bits = String.concat "" (List.init (maxidx + 1) (fun i ->
    match get st.av (n_of_int i) with Some true -> "1" | Some false -> "0" | None -> "?")) in
  let hidx = String.concat "," (List.map (fun g ->
    match nth_error st.ws g with Some w -> string_of_int (int_of_n w.w_idx) | None -> "?") st.handles) in
  let workers = String.concat " " (List.mapi (fun g w ->
    Printf.sprintf "w%d:%d:%s:q[%s]:p[%s]" g (int_of_n w.w_idx) (if w.w_open then "o" else "x")
      (show_conns w.w_queue) (show_conns w.w_picked)) st.ws) in
  let lsts = String.concat " " (List.mapi (fun t l ->
    Printf.sprintf "l%d:%s" t (match l.l_to with Some _ -> "t" | None -> "-")) st.lsts) in
  let diag = Printf.sprintf "n%d c%s t%s" (int_of_nat st.next)
    (String.concat "," (List.map (fun w -> string_of_int (int_of_z w.w_cnt)) st.ws))
    (match st.ptimeout with Some t -> string_of_int (int_of_n t) | None -> "-") in
  Printf.sprintf "%s| a%s h[%s] %s%s%s wq%d | %s | %s | %s"
    (String.concat " " evs) bits hidx
    (if st.paused then "P" else "-") (if st.stopped then "S" else "-")
    (match st.err with None -> "" | Some Panic -> " PANIC" | Some Spin -> " SPIN")
    (List.length st.wq) workers lsts diag

let srv (line : string) : string =
  let fields = List.map (fun kv -> match String.index_opt kv '=' with
    | Some i -> (String.sub kv 0 i, String.sub kv (i + 1) (String.length kv - i - 1))
    | None -> (kv, "")) (String.split_on_char ';' line) in
  let w = int_of_string (List.assoc "W" fields) in
  let l = int_of_string (List.assoc "L" fields) in
  let kinds = List.init (String.length (List.assoc "K" fields)) (fun i -> (List.assoc "K" fields).[i] = 'U') in
  let ops = List.map parse_op (List.filter (fun s -> s <> "") (String.split_on_char ' ' (List.assoc "ops" fields))) in
  let st0 = init (nat_of_int w) kinds in
  let lz = z_of_int l in
  let out = Buffer.create 256 in
  let _ = List.fold_left (fun (st, first) o ->
    let stopped_or_err = (st.err <> None) in
    if stopped_or_err then (st, first) else begin
      let nev = List.length st.trace in
      let st' = step lz st o in
      if not first then Buffer.add_string out " ; ";
      Buffer.add_string out (snapshot st' nev);
      (st', false)
    end) (st0, true) ops in
  Buffer.contents out

(* availability bitset: ops "s<i>:<0|1>" set, "g<i>" get, "a" available *)
let avail (line : string) : string =
  let ops = List.filter (fun s -> s <> "") (String.split_on_char ' ' line) in
  let out = Buffer.create 64 in
  let _ = List.fold_left (fun (a, dead) o ->
    if dead then (a, dead) else begin
      let rest = String.sub o 1 (String.length o - 1) in
      match o.[0] with
      | 's' -> (match String.split_on_char ':' rest with
          | [i; v] -> (match set a (n_of_int (int_of_string i)) (v = "1") with
              | Some a' -> Buffer.add_string out "."; (a', false)
              | None -> Buffer.add_string out "!"; (a, true))
          | _ -> failwith "bad set")
      | 'g' -> (match get a (n_of_int (int_of_string rest)) with
          | Some true -> Buffer.add_string out "1"; (a, false)
          | Some false -> Buffer.add_string out "0"; (a, false)
          | None -> Buffer.add_string out "!"; (a, true))
      | 'a' -> Buffer.add_string out (if available a then "T" else "F"); (a, false)
      | _ -> failwith "bad avail op"
    end) (empty, false) ops in
  Buffer.contents out


(* ---------- model-guided random script generation ----------
   case "seed=<n>;W=..;L=..;K=..;len=<n>;flags=<letters>"  flags: k kill/respawn, c commands, i inject,
   d direct accept-thread calls (A/H/O) besides Turn, y yield schedules, s stop, e epilogue *)
let rng = ref 1
let next_rand () = rng := (!rng * 1103515245 + 12345) land 0x3fffffff; (!rng lsr 8)
let rand n = if n <= 0 then 0 else next_rand () mod n
let pick_from l = List.nth l (rand (List.length l))

let show_eop = function
  | Connect (t, c) -> Printf.sprintf "c%d:%d" (int_of_nat t) (int_of_n c)
  | Pick g -> Printf.sprintf "p%d" (int_of_nat g)
  | Finish (g, c) -> Printf.sprintf "f%d:%d" (int_of_nat g) (int_of_n c)
  | DrainDrop g -> Printf.sprintf "d%d" (int_of_nat g)
  | Kill g -> Printf.sprintf "k%d" (int_of_nat g)
  | Command CPause -> "P" | Command CResume -> "R" | Command CStop -> "S"
  | Respawn i -> Printf.sprintf "r%d" (int_of_n i)
  | Inject (t, k) -> Printf.sprintf "i%d:%s" (int_of_nat t) (match k with EWouldBlock -> "w" | ETransient -> "t" | EOther -> "o")

let show_ys ys = if ys = [] then "" else
  "{" ^ String.concat "|" (List.map (fun g -> String.concat "," (List.map show_eop g)) ys) ^ "}"

let gen (line : string) : string =
  let fields = List.map (fun kv -> match String.index_opt kv '=' with
    | Some i -> (String.sub kv 0 i, String.sub kv (i + 1) (String.length kv - i - 1))
    | None -> (kv, "")) (String.split_on_char ';' line) in
  let geti k = int_of_string (List.assoc k fields) in
  rng := (geti "seed") * 7919 + 17;
  for _ = 1 to 5 do ignore (next_rand ()) done;
  let w = geti "W" and l = geti "L" and len = geti "len" in
  let ks = List.assoc "K" fields in
  let flags = List.assoc "flags" fields in
  let has c = String.contains flags c in
  let kinds = List.init (String.length ks) (fun i -> ks.[i] = 'U') in
  let nl = List.length kinds in
  let lz = z_of_int l in
  let st = ref (init (nat_of_int w) kinds) in
  let cid = ref 0 in
  let out = ref [] in
  (* candidate environment ops enabled in the current model state *)
  let env_cands () =
    let c = ref [] in
    let add wgt o = for _ = 1 to wgt do c := o :: !c done in
    if nl > 0 then add 5 `Connect;
    List.iteri (fun g wk ->
      if wk.w_open && wk.w_queue <> [] then (add 4 (`Op (Pick (nat_of_int g))); add 1 (`Op (DrainDrop (nat_of_int g))));
      List.iter (fun cn -> add 2 (`Op (Finish (nat_of_int g, cn.c_id)))) wk.w_picked;
      if has 'k' && wk.w_open && rand 3 = 0 then add 1 (`Op (Kill (nat_of_int g)));
      if has 'k' && not wk.w_open
         && not (List.exists (fun w2 -> w2.w_open && w2.w_idx = wk.w_idx) !st.ws) then add 3 (`Op (Respawn wk.w_idx))
    ) !st.ws;
    if has 'c' then (add 1 (`Op (Command CPause)); add 2 (`Op (Command CResume)));
    if has 's' && rand 4 = 0 then add 1 (`Op (Command CStop));
    if has 'i' && nl > 0 then add 1 `Inject;
    !c in
  let mk_env () : eop option =
    match env_cands () with
    | [] -> None
    | cs -> (match pick_from cs with
        | `Connect -> incr cid; Some (Connect (nat_of_int (rand nl), n_of_int !cid))
        | `Inject -> Some (Inject (nat_of_int (rand nl), pick_from [ETransient; EOther; EOther] (* a WouldBlock while the backlog is non-empty is not something the kernel produces *)))
        | `Op o -> Some o) in
  let mk_ys () : eop list list =
    if not (has 'y') || rand 3 <> 0 then [] else
      List.init (1 + rand 3) (fun _ -> List.filter_map (fun _ -> mk_env ()) (List.init (rand 3) (fun i -> i))) in
  let emit_op (o : op) (txt : string) =
    st := step lz !st o; out := txt :: !out in
  for _ = 1 to len do
    let r = rand 20 in
    if r < 9 then begin
      match mk_env () with Some e -> emit_op (E e) (show_eop e) | None -> ()
    end else if r < 14 || not (has 'd') then begin
      let ys = mk_ys () in emit_op (Turn ys) ("T" ^ show_ys ys)
    end else if r < 16 then begin
      let t = rand (max nl 1) in let ys = mk_ys () in
      emit_op (AcceptTok (nat_of_int t, ys)) (Printf.sprintf "A%d%s" t (show_ys ys))
    end else if r < 18 then begin
      let ys = mk_ys () in emit_op (HandleWaker ys) ("H" ^ show_ys ys)
    end else if r < 19 then emit_op ProcessTimeout "O"
    else begin
      let ms = pick_from [100; 250; 499; 500; 510; 600] in emit_op (Advance (n_of_int ms)) (Printf.sprintf "+%d" ms)
    end
  done;
  if has 'e' then begin
    (* epilogue: let everything settle *)
    if has 'c' then out := "R" :: !out;
    out := "T" :: "T" :: "T" :: "+600" :: "T" :: "T" :: !out
  end;
  Printf.sprintf "W=%d;L=%d;K=%s;ops=%s" w l ks (String.concat " " (List.rev !out))


(* ---------- end-to-end scenarios through the real ServerBuilder (mode bld / bldgen) ----------
   case "W=2;L=1;B=l,b2,u,v;ops=c0 c1 f1 P R E0 +600[;exp=...]"
     B: the builder chain — l = listen (TCP), b<k> = bind resolving to k addresses, u = bind_uds, v = listen_uds;
        tokens, socket kinds and the service a worker calls for a token come from the extracted Model/Builder.v
     ops: c<tok> a client connects (ids 1,2,..), f<cid> client cid closes (its service call ends), P / R pause / resume,
          K<tok> a client connects and the service call for it panics (the worker dies; ServerInner restarts it),
          J<t1>:<t2> the same, and a client connects to t2 while the dead worker's services are still being dropped,
          E<tok> a client connects while accept() fails with EMFILE (one-shot), +<ms> time passes,
          G (last) graceful stop: held = waited for the connections in progress, idle = none was in progress
   After every op the model settles: Turn, every worker picks up its queue, repeated; printed per op:
     <op>=<cid>@<call>w<worker idx>,...  (connections whose service call started during the op)  /a<in progress per worker index, '.'-separated> *)
let fields_of line = List.map (fun kv -> match String.index_opt kv '=' with
    | Some i -> (String.sub kv 0 i, String.sub kv (i + 1) (String.length kv - i - 1))
    | None -> (kv, "")) (String.split_on_char ';' line)

let parse_chain (s : string) : call list =
  List.map (fun it -> match it.[0] with
    | 'l' -> Listen true
    | 'b' -> Bind (nat_of_int (int_of_string (String.sub it 1 (String.length it - 1))), None)
    | 'u' -> BindUds true
    | 'v' -> ListenUds true
    | _ -> failwith ("bad builder item " ^ it)) (split_on ',' s)

let bld_setup fields =
  let w = int_of_string (List.assoc "W" fields) and l = int_of_string (List.assoc "L" fields) in
  let b = match build O (parse_chain (List.assoc "B" fields)) empty0 with Some b -> b | None -> failwith "builder chain fails" in
  let kinds = List.map (fun s -> s.s_kind = KUds) b.b_sockets in
  let svcs = match worker_services b with Some s -> s | None -> failwith "token assertion fires" in
  let call_of tok = match service_for svcs tok with Some s -> int_of_nat s.ws_call | None -> -1 in
  (w, l, kinds, call_of)

(* the oracle itself is the extracted Model/SrvE2E.v ([e2e_step]: the scenario operation, settling, restarts of faulted workers);
   this function only parses the operation and prints what happened *)
let poisoned : int list ref = ref []
(* connections of abortive clients (op A): their service call ends by itself as soon as it has started *)
let abortive : int list ref = ref []

let parse_e2e (o : string) : e2e_op =
  let rest = String.sub o 1 (String.length o - 1) in
  match o.[0] with
  | 'c' | 'A' | 'X' | 'Y' | 'S' -> XConnect (nat_of_int (int_of_string rest))   (* X: and the service of that listener fails its readiness check;
                                                                                  S: the client sends nothing and closes its sending half at once *)
  | 'f' | 'F' | 'z' -> XFinish (n_of_int (int_of_string rest))                     (* z: the service call ends by a panic inside its future *)
  | 'P' -> XPause
  | 'R' -> XResume
  | 'Q' -> XBurst (List.map (fun c -> c = 'R') (List.init (String.length rest) (String.get rest)))
  | 'E' -> XEmfile (nat_of_int (int_of_string rest))
  | '+' -> XAdvance (n_of_int (int_of_string rest))
  | 'D' -> XDie
  | 'K' -> XKill (nat_of_int (int_of_string rest))
  | 'J' -> (match String.split_on_char ':' rest with
      | [a; b] -> XKillConnect (nat_of_int (int_of_string a), nat_of_int (int_of_string b))
      | _ -> failwith ("bad op " ^ o))
  | _ -> failwith ("bad scenario op " ^ o)

(* back-pressure (ops B / b): while the services answer Pending to their readiness checks a worker receives nothing from its
   connection queue (ServerWorker::poll, state Unavailable).  The oracle does the same (Model/SrvE2E.v, parameter blk: no Pick while
   it is set): connections dispatched to such a worker stay in w_queue — they count against its limit — and are picked up by the
   settling that follows `b`.  What is shown per operation is derived from the oracle's states and events only:
     service calls that started = connections dispatched in this operation or queued at a worker before it, that are not in a worker's
                                  queue now (and were not lost with a dead worker's queue);
     in progress per worker     = started and not finished = w_picked. *)
let blocked = ref false
let armed = ref false
let queued_prev : int list ref = ref []
let where : (int, int * int) Hashtbl.t = Hashtbl.create 64     (* connection id -> (builder call of its listener, worker index) *)

let queued_of (st : state) : int list =
  List.concat_map (fun wk -> if wk.w_open then List.map (fun cn -> int_of_n cn.c_id) wk.w_queue else []) st.ws

let show_act (st : state) : string =
  let nw = List.fold_left (fun m wk -> max m (int_of_n wk.w_idx + 1)) 0 st.ws in
  let act = List.init nw (fun i -> List.fold_left (fun a wk ->
    if int_of_n wk.w_idx = i then a + List.length wk.w_picked else a) 0 st.ws) in
  String.concat "." (List.map string_of_int act)

let bld_step lz call_of (st, cid) (o : string) : (state * int) * string =
  if o = "H" then begin
    (* graceful stop with the connections held through shutdown_timeout: completes at the timeout *)
    (* a worker counts the connections it has picked up (one guard each); what is still unread in its queue is dropped with it *)
    let busy = List.exists (fun wk -> wk.w_picked <> []) st.ws in
    ((st, cid), if busy then "H=timeout" else "H=idle")
  end else
  if o = "B" then begin
    blocked := true;
    ((st, cid), Printf.sprintf "B=/a%s" (show_act st))
  end else
  if o.[0] = 'x' then
    (* a readiness failure of one service is armed: nothing happens until a worker asks that service *)
    ((st, cid), Printf.sprintf "%s=/a%s" o (show_act st))
  else
  if o = "G" then begin
    (* graceful stop as the last op: waits for the connections in progress (C06); the accept/worker model of this driver only says
       whether any is in progress *)
    let busy = List.exists (fun wk -> wk.w_picked <> []) st.ws in
    ((st, cid), if busy then "G=held" else "G=idle")
  end else begin
    let nev = List.length st.trace in
    (* b: readiness returns — nothing else happens, the settling picks everything up *)
    if o = "b" then blocked := false;
    let op = if o = "b" then XAdvance N0 else parse_e2e o in
    (match op with
     | XFinish c when o.[0] = 'F' -> ()      (* F<cid>: close that client whether or not its service call has started (probes) *)
     | XFinish c -> if not (List.exists (fun wk -> List.exists (fun cn -> cn.c_id = c) wk.w_picked) st.ws)
         then failwith ("finish of a connection that is not in progress: " ^ o)
     | XKill _ | XKillConnect _ -> poisoned := (cid + 1) :: !poisoned
     | _ -> ());
    if o.[0] = 'A' then abortive := (cid + 1) :: !abortive;
    (* Model/SrvE2E.v e2e_step_ab: the operation, settling (without picks while blocked), restarts, and a Finish for every abortive
       client's service call that has started *)
    let (st', next') = e2e_step_ab lz !blocked (List.map n_of_int !abortive) st (n_of_int (cid + 1)) op in
    let cid' = int_of_n next' - 1 in
    let evs = take (List.length st'.trace - nev) st'.trace in
    (match op with
     | XKill _ | XKillConnect _ ->
       if not (List.exists (function EvKilled _ -> true | _ -> false) evs) then failwith ("poisoned connection was not dispatched: " ^ o)
     | _ -> ());
    let panicked = List.filter_map (function
      | EvKilled g -> (match nth_error st'.ws g with Some wk -> Some (int_of_n wk.w_idx) | None -> None)
      | _ -> None) (List.rev evs) in
    List.iter (function
      | EvDispatch (c, tok, _, idx, _) -> Hashtbl.replace where (int_of_n c) (call_of tok, int_of_n idx)
      | _ -> ()) (List.rev evs);
    let dispatched = List.filter_map (function EvDispatch (c, _, _, _, _) -> Some (int_of_n c) | _ -> None) evs in
    let lost = List.filter_map (function EvLost c -> Some (int_of_n c) | _ -> None) evs in
    let queued_now = queued_of st' in
    let started = List.sort_uniq compare (List.filter (fun c ->
      not (List.mem c queued_now) && not (List.mem c lost) && not (List.mem c !poisoned)) (dispatched @ !queued_prev)) in
    queued_prev := queued_now;
    let served = List.sort compare (List.map (fun c -> let (cl, i) = Hashtbl.find where c in (c, cl, i)) started) in
    (* a connection dropped for want of a live worker is seen by its client as a close without greeting; an abortive client (op A)
       is no longer there to see it *)
    let dropped = List.sort compare (List.filter_map (function
      | EvDropNoWorker c when not (List.mem (int_of_n c) !abortive) -> Some (int_of_n c) | _ -> None) evs) in
    ((st', cid'), Printf.sprintf "%s=%s/a%s" o
       (String.concat "," (List.map (fun i -> Printf.sprintf "x@w%d" i) panicked
                           @ List.map (fun (c, cl, i) -> Printf.sprintf "%d@%dw%d" c cl i) served
                           @ List.map (fun c -> Printf.sprintf "%d@drop" c) dropped))
       (show_act st'))
  end

let bld (line : string) : string =
  let fields = fields_of line in
  let (w, l, kinds, call_of) = bld_setup fields in
  let lz = z_of_int l in
  let ops = List.filter (fun s -> s <> "") (String.split_on_char ' ' (List.assoc "ops" fields)) in
  let st0 = init (nat_of_int w) kinds in
  poisoned := []; abortive := []; blocked := false; armed := false; queued_prev := []; Hashtbl.reset where;
  let (_, outs) = List.fold_left (fun (acc, outs) o ->
    let (acc', s) = bld_step lz call_of acc o in (acc', s :: outs)) ((st0, 0), []) ops in
  String.concat " ; " (List.rev outs)

(* model-guided scenario generator: "seed=..;W=..;L=..;B=..;len=..;flags=<c pause/resume, i EMFILE>" *)
let bldgen (line : string) : string =
  let fields = fields_of line in
  let geti k = int_of_string (List.assoc k fields) in
  rng := (geti "seed") * 7919 + 17;
  for _ = 1 to 5 do ignore (next_rand ()) done;
  let (w, l, kinds, call_of) = bld_setup fields in
  let lz = z_of_int l in
  let flags = List.assoc "flags" fields in
  let has c = String.contains flags c in
  let nl = List.length kinds in
  let acc = ref (init (nat_of_int w) kinds, 0) in
  poisoned := []; abortive := []; blocked := false; armed := false; queued_prev := []; Hashtbl.reset where;
  let out = ref [] in
  let emit o = let (a, _) = bld_step lz call_of !acc o in acc := a; out := o :: !out in
  for _ = 1 to geti "len" do
    let st = fst !acc in
    let picked = List.concat_map (fun wk -> List.map (fun cn -> int_of_n cn.c_id) wk.w_picked) st.ws in
    let backoff = List.exists (fun ls -> ls.l_to <> None) st.lsts in
    let c = ref [] in
    let add wgt o = for _ = 1 to wgt do c := o :: !c done in
    add 6 `C;
    (* not while an abortive client still waits in a backlog: its service call would be dispatched during the episode and end — in
       reality — only after it *)
    let abortive_waiting = List.exists (fun ls -> List.exists (fun cn -> List.mem (int_of_n cn) !abortive) ls.l_backlog) st.lsts in
    ignore abortive_waiting;
    if has 'b' then (if !blocked then add 3 `Unblock else if not backoff then add 2 `Block);
    (* an abortive client's service call ends by itself, at a moment of its own choosing: with several workers that moment decides
       which worker takes the next connection, so there the client is only used where it is dispatched at once and alone;
       with one worker every interleaving ends in the same settled state and it may also wait in a backlog (paused, saturated) *)
    if has 'a' && (w = 1 || not !blocked) && (w = 1 || (not backoff && not st.paused && available st.av && List.for_all (fun ls -> ls.l_backlog = []) st.lsts))
    then add (if w = 1 then 3 else 2) `A;
    if picked <> [] then add 5 `F;
    if has 'c' then (if st.paused then add 4 `R else add 1 `P; if rand 8 = 0 then add 1 (if st.paused then `P else `R));
    (* bursts of commands issued back to back; a redundant first command followed by its opposite is the interesting shape *)
    if has 'q' then add 2 `Q;
    (* not as the first operation: lowering RLIMIT_NOFILE right after start-up can hit a worker thread that is still building its
       Tokio runtime (which needs descriptors); one served connection later every worker is certainly up *)
    if has 'i' && not !blocked && not backoff && not st.paused && available st.av && snd !acc > 0 then add 1 `E;
    (* a poisoned connection must be dispatched at once (flag available, not paused, registered) to a live worker: every handle's worker is open *)
    if has 'k' && not !blocked && not backoff && not st.paused && available st.av
       && List.for_all (fun g -> match nth_error st.ws (nat_of_int g) with Some wk -> wk.w_open | None -> false) (List.map int_of_nat st.handles)
       && List.for_all (fun ls -> ls.l_backlog = []) st.lsts then add 1 `K;
    (* flag m: a second worker dies before the death of the first has been noticed (it is noticed when the rotation next reaches
       it): the poisoned connection goes to the next worker of the rotation that is alive — there must be one besides it *)
    let open_handles = List.filter (fun g -> match nth_error st.ws (nat_of_int g) with Some wk -> wk.w_open | None -> false) (List.map int_of_nat st.handles) in
    if has 'm' && not !blocked && not backoff && not st.paused && available st.av
       && List.length open_handles >= 2 && List.length open_handles < List.length st.handles
       && List.for_all (fun ls -> ls.l_backlog = []) st.lsts then add 3 `K1;
    (* a readiness failure (restart of one service on the worker that takes the connection): where the connection is dispatched at
       once (so that worker asks its services now), on a listener that has a builder call of its own *)
    let own_call tok = List.length (List.filter (fun t -> call_of (nat_of_int t) = call_of (nat_of_int tok)) (List.init nl (fun i -> i))) = 1 in
    (* not as the first operation: right after start-up the workers are still making their initial readiness checks, and the armed
       failure would strike whichever worker asks first, not the one that takes the connection *)
    if has 'x' && snd !acc > 0 && not !blocked && not backoff && not st.paused && available st.av
       && List.for_all (fun ls -> ls.l_backlog = []) st.lsts
       && List.for_all (fun g -> match nth_error st.ws (nat_of_int g) with Some wk -> wk.w_open | None -> false) (List.map int_of_nat st.handles)
       && List.exists own_call (List.init nl (fun i -> i)) then add 2 `X;
    if has 'x' && !blocked && List.exists own_call (List.init nl (fun i -> i))
       && List.exists (fun wk -> wk.w_open && wk.w_queue <> []) st.ws && not !armed then add 2 `Arm;
    (* the single worker dies in a readiness check — whatever its load; not inside a back-pressure episode (it asks nothing then),
       not while the accept loop backs off or is paused with connections waiting (the fault is discovered by the next dispatch) *)
    if has 'd' && w = 1 && not !blocked && not backoff && not st.paused
       && List.for_all (fun g -> match nth_error st.ws (nat_of_int g) with Some wk -> wk.w_open | None -> false) (List.map int_of_nat st.handles)
       && snd !acc > 0 then add 2 `D;
    if backoff then add 4 `T;
    (* real time passes between the ops of the implementation run: the 500 ms back-off is left at once *)
    (* ... except for one Pause, whose effect does not depend on when the deadline passes: nothing is observable until Resume *)
    (match (if backoff then (if has 'c' && not st.paused && rand 4 = 0 then `P else `T) else pick_from !c) with
     | `C -> let tok = rand nl in
       (* a silent, half-closed client: TCP listeners only (the harness' service recognises it by its port) *)
       if has 's' && not (List.nth kinds tok) && rand 3 = 0 then emit (Printf.sprintf "S%d" tok) else emit (Printf.sprintf "c%d" tok)
     | `A -> emit (Printf.sprintf "A%d" (rand nl))
     | `D -> emit "D"
     | `Block -> emit "B" | `Unblock -> (armed := false; emit "b")
     | `X -> let toks = List.filter own_call (List.init nl (fun i -> i)) in
       emit (Printf.sprintf "%s%d" (if rand 3 = 0 then "Y" else "X") (pick_from toks))
     | `Arm -> let toks = List.filter own_call (List.init nl (fun i -> i)) in armed := true; emit (Printf.sprintf "x%d" (pick_from toks))
     | `F -> let c = pick_from picked in
       (* the service call ends by a panic inside its future (contained by the runtime: the worker lives on, the connection's guard
          is dropped while the thread unwinds) — to the server the same as an ordinary end *)
       if has 'z' && rand 3 = 0 then emit (Printf.sprintf "z%d" c) else emit (Printf.sprintf "f%d" c)
     | `P -> emit "P" | `R -> emit "R"
     | `Q -> let shapes = if st.paused then [| "PR"; "PR"; "PPR"; "RP"; "RPR"; "PRP"; "RR" |] else [| "RP"; "RP"; "RRP"; "PR"; "PRP"; "RPR"; "PP" |] in
       emit ("Q" ^ shapes.(rand (Array.length shapes)))
     | `E -> emit (Printf.sprintf "E%d" (rand nl))
     | `K -> if rand 3 = 0 then emit (Printf.sprintf "J%d:%d" (rand nl) (rand nl)) else emit (Printf.sprintf "K%d" (rand nl))
     | `K1 -> emit (Printf.sprintf "K%d" (rand nl))
     | `T -> emit "+600")
  done;
  let st = fst !acc in
  if List.exists (fun ls -> ls.l_to <> None) st.lsts then emit "+600";
  (* half of the graceful stops that end a scenario find the services still not ready: connections dispatched meanwhile sit unread
     in the workers' queues *)
  (* flag f: half of the scenarios end inside the episode as well — the forced stop that ends every scenario then finds
     connections queued at the workers, which must be released, not served *)
  if !blocked && not ((has 'g' || has 'h' || has 'f') && rand 2 = 0) then emit "b";
  if (fst !acc).paused then emit "R";
  if has 'h' then emit "H" else if has 'g' then emit "G";
  Printf.sprintf "W=%d;L=%d;B=%s;S=%s;ops=%s" w l (List.assoc "B" fields) (try List.assoc "S" fields with Not_found -> "a") (String.concat " " (List.rev !out))


(* ---------- sanity mode: the no-strand invariant (Proofs/SrvPauseB.v: BInv true /\ WQ) evaluated after every op of a script ---------- *)
let binv (line : string) : string =
  let fields = fields_of line in
  let w = int_of_string (List.assoc "W" fields) and l = int_of_string (List.assoc "L" fields) in
  let kinds = List.init (String.length (List.assoc "K" fields)) (fun i -> (List.assoc "K" fields).[i] = 'U') in
  let ops = List.map parse_op (List.filter (fun s -> s <> "") (String.split_on_char ' ' (List.assoc "ops" fields))) in
  let lz = z_of_int l in
  let st = ref (init (nat_of_int w) kinds) in
  let bad = ref "" in
  List.iteri (fun k o ->
    if !bad = "" then begin
      st := step lz !st o;
      let s = !st in
      if s.err = None then begin
        if not s.stopped && not s.paused && available s.av then
          List.iteri (fun t ls ->
            if not (ls.l_backlog = [] || ls.l_inject <> [] || (ls.l_reg && ls.l_edge) || ls.l_to <> None) then
              bad := Printf.sprintf "op %d: listener %d stranded" k t) s.lsts;
        if not s.stopped && s.wq <> [] && not s.wpend then bad := Printf.sprintf "op %d: WQ" k
      end
    end) ops;
  if !bad = "" then "ok" else !bad

(* ---------- breadth-first enumeration of the model's own state space ----------
   request "W=..;L=..;K=..;depth=<d>;max=<n>;flags=<k|c|i|d>": explores the states reachable by scripts of at most d
   operations (no yield schedules) and prints ONE script per newly found (state, operation) transition, so that every
   transition of the explored graph is replayed on the implementation at least once.  States are compared without
   their event log. *)
let bfs (line : string) : unit =
  let fields = List.map (fun kv -> match String.index_opt kv '=' with
    | Some i -> (String.sub kv 0 i, String.sub kv (i + 1) (String.length kv - i - 1))
    | None -> (kv, "")) (String.split_on_char ';' line) in
  let geti k = int_of_string (List.assoc k fields) in
  let w = geti "W" and l = geti "L" and depth = geti "depth" and maxn = geti "max" in
  let ks = List.assoc "K" fields in
  let flags = try List.assoc "flags" fields with Not_found -> "" in
  let has c = String.contains flags c in
  let kinds = List.init (String.length ks) (fun i -> ks.[i] = 'U') in
  let nl = List.length kinds in
  let lz = z_of_int l in
  let key (st : state) (cid : int) = Marshal.to_string ({ st with trace = [] }, cid) [] in
  let seen = Hashtbl.create 100003 in
  let q = Queue.create () in
  let st0 = init (nat_of_int w) kinds in
  Hashtbl.add seen (key st0 0) ();
  Queue.add (st0, 0, [], 0) q;
  let printed = ref 0 in
  let header = Printf.sprintf "W=%d;L=%d;K=%s;ops=" w l ks in
  (try
    while not (Queue.is_empty q) do
      let (st, cid, rev_script, d) = Queue.pop q in
      if d < depth && st.err = None then begin
        let cands = ref [] in
        let add (o : op) (txt : string) (cid' : int) = cands := (o, txt, cid') :: !cands in
        for t = 0 to nl - 1 do
          add (E (Connect (nat_of_int t, n_of_int (cid + 1)))) (Printf.sprintf "c%d:%d" t (cid + 1)) (cid + 1);
          if has 'd' then add (AcceptTok (nat_of_int t, [])) (Printf.sprintf "A%d" t) cid;
          if has 'i' then add (E (Inject (nat_of_int t, EOther))) (Printf.sprintf "i%d:o" t) cid
        done;
        add (Turn []) "T" cid;
        if has 'd' then (add (HandleWaker []) "H" cid; add ProcessTimeout "O" cid);
        if has 'i' then add (Advance (n_of_int 510)) "+510" cid;
        List.iteri (fun g wk ->
          if wk.w_open && wk.w_queue <> [] then begin
            add (E (Pick (nat_of_int g))) (Printf.sprintf "p%d" g) cid;
            add (E (DrainDrop (nat_of_int g))) (Printf.sprintf "d%d" g) cid
          end;
          List.iter (fun cn -> add (E (Finish (nat_of_int g, cn.c_id))) (Printf.sprintf "f%d:%d" g (int_of_n cn.c_id)) cid) wk.w_picked;
          if has 'k' && wk.w_open then add (E (Kill (nat_of_int g))) (Printf.sprintf "k%d" g) cid;
          if has 'k' && not wk.w_open && not (List.exists (fun w2 -> w2.w_open && w2.w_idx = wk.w_idx) st.ws)
             && not (List.exists (fun i -> match i with IWorker _ -> true | _ -> false) st.wq) then
            add (E (Respawn wk.w_idx)) (Printf.sprintf "r%d" (int_of_n wk.w_idx)) cid
        ) st.ws;
        if has 'c' then begin
          add (E (Command CPause)) "P" cid; add (E (Command CResume)) "R" cid
        end;
        List.iter (fun (o, txt, cid') ->
          let st' = step lz st o in
          let k = key st' cid' in
          let script = txt :: rev_script in
          (* one script per transition whose target is new; transitions into known states are covered once per source
             by printing them too when the source itself was new (it is: every queued state is new) *)
          if !printed < maxn then begin
            print_string header; print_string (String.concat " " (List.rev script)); print_char '\n'; incr printed
          end else raise Exit;
          if not (Hashtbl.mem seen k) then begin
            Hashtbl.add seen k ();
            Queue.add (st', cid', script, d + 1) q
          end) (List.rev !cands)
      end
    done
  with Exit -> ());
  prerr_string (Printf.sprintf "bfs: %d states, %d scripts\n" (Hashtbl.length seen) !printed)

let () =
  if Sys.argv.(1) = "bfs" then begin (try while true do bfs (input_line stdin) done with End_of_file -> ()); exit 0 end;
  let f = match Sys.argv.(1) with
    | "srv" -> srv | "avail" -> avail | "gen" -> gen | "bld" -> bld | "bldgen" -> bldgen | "binv" -> binv
    | m -> failwith ("unknown mode " ^ m) in
  try while true do
    let line = input_line stdin in
    print_string (try f line with e -> "DRIVER_ERROR " ^ Printexc.to_string e); print_char '\n'
  done with End_of_file -> ()
