(* Model/Rt.v — labelled transition system for actix-rt (C09, C10).
   Code modelled: actix-rt/src/system.rs (SystemController::poll, stop_with_code, run/run_with_code),
   arbiter.rs (with_tokio_rt start-up/shut-down sequence, ArbiterRunner::poll, ArbiterHandle::{spawn,
   spawn_fn,stop}, Arbiter::join), runtime.rs (block_on).   No proofs here (Proofs/RtFacts.v).

   Environment assumptions written into the model (trusted, see notes/rt.md):
   * Tokio's unbounded mpsc is FIFO and linearisable: a channel is a list, send = append at the end
     (only while the receiver exists), receive = pop the head;
   * a LocalSet starts locally spawned tasks in spawn order: [lq] is a FIFO list;
   * a panic inside a spawned task is caught by Tokio's task harness (the JoinHandle gets the error),
     the arbiter thread and its loop go on: [KPanic] has no effect on the arbiter;
   * OS threads / thread-locals: the arbiter thread installs its System and ArbiterHandle before it
     registers (arbiter.rs:131-138); [a_thr]/[a_sys] stand for what a task reads from them.

   Atomic actions = labels.  One coordinator executes the script's operations in order (that is what the
   harness does: it fixes the global order of sends); every other thread moves by internal labels. *)
From Coq Require Export List ZArith Bool Arith Lia.
Export ListNotations.
Open Scope nat_scope.

(* what a spawned future/function does once it has started *)
Inductive kind :=
| KDone                 (* completes (also used for the harness' "busy" tasks: same logic, only timing) *)
| KPend                 (* pends forever *)
| KPanic                (* panics: contained by Tokio, see above *)
| KStopSys (c : Z)      (* System::current().stop_with_code(c) *)
| KStopSelf.            (* Arbiter::current().stop() *)

Record task := mkTask { tid : nat; tkind : kind }.
Inductive cmd := Stop | Execute (t : task).                      (* ArbiterCommand *)
Inductive phase := Running | Ended | Dropped.
  (* Running: ArbiterRunner is being polled.  Ended: it returned Ready (Stop received), block_on is
     returning.  Dropped: the receiver is dropped, DeregisterArbiter is sent, the thread finishes. *)
Inductive syscmd := Exit (c : Z) | Register (a : nat) | Deregister (a : nat).   (* SystemCommand *)

(* one line of the per-task execution log *)
Record ev := mkEv { e_tid : nat; e_thr : nat; e_sys : nat }.

Record arb := mkArb {
  chan : list cmd;        (* mpsc feeding ArbiterRunner *)
  lq   : list task;       (* spawn_local'ed, not yet started *)
  ph   : phase;
  alog : list ev;         (* tasks started on this arbiter, oldest first *)
  a_thr : nat;            (* identity of its thread *)
  a_sys : nat;            (* id of the System installed in its thread-local *)
  a_pre : bool;           (* ghost: created before any Exit was issued *)
  hist : list cmd         (* ghost: every command ever enqueued, in channel order *)
}.

(* script operations, executed in order by the coordinator; tid of a spawned task = position of its op *)
Inductive op :=
| ONew                              (* Arbiter::new()  (k-th ONew creates arbiter k) *)
| OSpawn (k : nat) (kd : kind)      (* spawn / spawn_fn on arbiter k (owner or any cloned handle) *)
| OStop (k : nat)                   (* Arbiter::stop / ArbiterHandle::stop *)
| OSysStop (c : Z)                  (* System::stop_with_code(c), from any thread *)
| OWaitRun                          (* wait until run_with_code has returned (watchdog) *)
| OJoin (k : nat)                   (* Arbiter::join (watchdog) *)
| ODrop (k : nat)                   (* drop the Arbiter value (the thread is detached, nothing is sent) *)
| OAwait (k i : nat).               (* wait until the task with tid i has started on arbiter k (watchdog) *)

Inductive res := RTrue | RFalse | RUnit | RJoined | RHang | RRet | RStarted.

Record st := mkSt {
  arbs  : list arb;
  reg   : list nat;            (* SystemController.arbiters (keys) *)
  sysq  : list syscmd;         (* sys_tx -> cmd_rx *)
  exitc : option Z;            (* Some c: stop_tx has been taken and c sent through the one-shot *)
  alive : bool;                (* the system thread is still inside run_with_code (cmd_rx exists) *)
  ret   : option Z;            (* value run_with_code returned *)
  pc    : nat;                 (* number of script ops executed *)
  rest  : list op;             (* remaining script *)
  olog  : list res;            (* results of the executed ops, oldest first *)
  issued : bool                (* ghost: some Exit has been issued *)
}.

Inductive label := LCoord | LRunner (a : nat) | LTask (a : nat) | LSys | LSysRet | LDrop (a : nat).

Definition init (ops : list op) : st := mkSt [] [] [] None true None 0 ops [] false.

(* ---------- helpers ---------- *)
Fixpoint upd {A} (k : nat) (f : A -> A) (l : list A) : list A :=
  match l, k with
  | [], _ => []
  | x :: t, O => f x :: t
  | x :: t, S k' => x :: upd k' f t
  end.

Definition is_dropped (p : phase) : bool := match p with Dropped => true | _ => false end.
Definition is_running (p : phase) : bool := match p with Running => true | _ => false end.

(* UnboundedSender::send: Ok (and enqueued) iff the receiver still exists *)
Definition push (c : cmd) (a : arb) : arb :=
  if is_dropped (ph a) then a
  else mkArb (chan a ++ [c]) (lq a) (ph a) (alog a) (a_thr a) (a_sys a) (a_pre a) (hist a ++ [c]).
Definition rx_alive (k : nat) (l : list arb) : bool :=
  match nth_error l k with Some a => negb (is_dropped (ph a)) | None => false end.

Definition sys_send (c : syscmd) (s : st) : list syscmd := if alive s then sysq s ++ [c] else sysq s.
Definition is_exit (c : syscmd) : bool := match c with Exit _ => true | _ => false end.

Fixpoint remove_nat (x : nat) (l : list nat) : list nat :=
  match l with [] => [] | y :: t => if Nat.eqb x y then remove_nat x t else y :: remove_nat x t end.

(* `for arb in self.arbiters.values() { arb.stop(); }` *)
Fixpoint stop_all (ids : list nat) (l : list arb) : list arb :=
  match ids with [] => l | k :: t => stop_all t (upd k (push Stop) l) end.

(* ---------- quiescence: no internal label is enabled (this is where a watchdog may fire) ---------- *)
Definition arb_idle (a : arb) : bool :=
  match ph a with
  | Running => match chan a, lq a with [], [] => true | _, _ => false end
  | Ended => false
  | Dropped => true
  end.
Definition sys_idle (s : st) : bool :=
  negb (alive s) || (match sysq s with [] => true | _ => false end && match exitc s with None => true | _ => false end).
Definition quiescent (s : st) : bool := forallb arb_idle (arbs s) && sys_idle s.

Definition started_on (i : nat) (a : arb) : bool := existsb (fun e => Nat.eqb (e_tid e) i) (alog a).

(* ---------- the coordinator: next script operation ---------- *)
Definition with_op (s : st) (r : res) (ops' : list op) (arbs' : list arb) (sysq' : list syscmd) (iss : bool) : st :=
  mkSt arbs' (reg s) sysq' (exitc s) (alive s) (ret s) (S (pc s)) ops' (olog s ++ [r]) iss.

Definition send_op (s : st) (ops' : list op) (k : nat) (c : cmd) : st :=
  if rx_alive k (arbs s)
  then with_op s RTrue ops' (upd k (push c) (arbs s)) (sysq s) (issued s)
  else with_op s RFalse ops' (arbs s) (sysq s) (issued s).

(* a blocking operation: proceeds when its condition holds, gives up (watchdog) only at quiescence,
   i.e. under the fairness assumption "every thread keeps polling" a hang is a real deadlock *)
Definition wait_op (s : st) (ops' : list op) (cond : bool) (rok : res) : st :=
  if cond then with_op s rok ops' (arbs s) (sysq s) (issued s)
  else if quiescent s then with_op s RHang ops' (arbs s) (sysq s) (issued s)
  else s.

Definition coord (s : st) : st :=
  match rest s with
  | [] => s
  | o :: ops' =>
    match o with
    | ONew =>
        (* arbiter.rs:114-155: thread started, System/HANDLE thread-locals installed, RegisterArbiter
           sent, ready hand-shake: all before `new` returns *)
        let id := length (arbs s) in
        with_op s RUnit ops'
          (arbs s ++ [mkArb [] [] Running [] (2 + id) 0 (negb (issued s)) []])
          (sys_send (Register id) s) (issued s)
    | OSpawn k kd => send_op s ops' k (Execute (mkTask (pc s) kd))
    | OStop k => send_op s ops' k Stop
    | OSysStop c => with_op s RUnit ops' (arbs s) (sys_send (Exit c) s) true
    | OWaitRun => wait_op s ops' (negb (alive s)) RRet
    | OJoin k => wait_op s ops' (match nth_error (arbs s) k with Some a => is_dropped (ph a) | None => true end) RJoined
    | ODrop k => with_op s RUnit ops' (arbs s) (sysq s) (issued s)
    | OAwait k i => wait_op s ops' (match nth_error (arbs s) k with Some a => started_on i a | None => false end) RStarted
    end
  end.

(* ---------- internal labels ---------- *)
Definition set_arbs (s : st) (l : list arb) : st :=
  mkSt l (reg s) (sysq s) (exitc s) (alive s) (ret s) (pc s) (rest s) (olog s) (issued s).

(* ArbiterRunner::poll, one command: Stop => Ready (nothing spawned locally will start any more, the
   LocalSet is dropped with the thread's runtime), Execute => spawn_local *)
Definition runner (a : arb) : arb :=
  match ph a, chan a with
  | Running, Stop :: c => mkArb c (lq a) Ended (alog a) (a_thr a) (a_sys a) (a_pre a) (hist a)
  | Running, Execute t :: c => mkArb c (lq a ++ [t]) Running (alog a) (a_thr a) (a_sys a) (a_pre a) (hist a)
  | _, _ => a
  end.

(* the LocalSet starts the oldest spawned task; it reads the thread-locals and logs *)
Definition start_task (a : arb) : arb :=
  match ph a, lq a with
  | Running, t :: q => mkArb (chan a) q Running (alog a ++ [mkEv (tid t) (a_thr a) (a_sys a)]) (a_thr a) (a_sys a) (a_pre a) (hist a)
  | _, _ => a
  end.

Definition task_step (s : st) (k : nat) : st :=
  match nth_error (arbs s) k with
  | Some a =>
    match ph a, lq a with
    | Running, t :: _ =>
      let l1 := upd k start_task (arbs s) in
      match tkind t with
      | KStopSys c => mkSt l1 (reg s) (sys_send (Exit c) s) (exitc s) (alive s) (ret s) (pc s) (rest s) (olog s) true
      | KStopSelf => set_arbs s (upd k (push Stop) l1)
      | _ => set_arbs s l1
      end
    | _, _ => s
    end
  | None => s
  end.

(* SystemController::poll, one command *)
Definition sys_step (s : st) : st :=
  if alive s then
    match sysq s with
    | [] => s
    | Exit c :: q =>
        mkSt (stop_all (reg s) (arbs s)) (reg s) q (match exitc s with None => Some c | e => e end)
             (alive s) (ret s) (pc s) (rest s) (olog s) (issued s)
    | Register k :: q =>
        mkSt (arbs s) (k :: remove_nat k (reg s)) q (exitc s) (alive s) (ret s) (pc s) (rest s) (olog s) (issued s)
    | Deregister k :: q =>
        mkSt (arbs s) (remove_nat k (reg s)) q (exitc s) (alive s) (ret s) (pc s) (rest s) (olog s) (issued s)
    end
  else s.

(* block_on(stop_rx) returns the code; the runtime (with SystemController and cmd_rx) is dropped *)
Definition sys_ret (s : st) : st :=
  match alive s, exitc s with
  | true, Some c => mkSt (arbs s) (reg s) (sysq s) (exitc s) false (Some c) (pc s) (rest s) (olog s) (issued s)
  | _, _ => s
  end.

(* the arbiter thread leaves block_on: receiver dropped, DeregisterArbiter sent, thread finishes *)
Definition drop_arb (a : arb) : arb := mkArb (chan a) (lq a) Dropped (alog a) (a_thr a) (a_sys a) (a_pre a) (hist a).
Definition drop_step (s : st) (k : nat) : st :=
  match nth_error (arbs s) k with
  | Some a => match ph a with
              | Ended => mkSt (upd k drop_arb (arbs s)) (reg s) (sys_send (Deregister k) s) (exitc s) (alive s)
                              (ret s) (pc s) (rest s) (olog s) (issued s)
              | _ => s
              end
  | None => s
  end.

Definition step (s : st) (l : label) : st :=
  match l with
  | LCoord => coord s
  | LRunner k => set_arbs s (upd k runner (arbs s))
  | LTask k => task_step s k
  | LSys => sys_step s
  | LSysRet => sys_ret s
  | LDrop k => drop_step s k
  end.

Definition run (ops : list op) (sched : list label) : st := fold_left step sched (init ops).

(* ---------- what a user observes ---------- *)
Inductive retv := VCode (c : Z) | VOk | VErr.
(* SystemRunner::run: 0 => Ok(()), non-zero => Err;  run_with_code: the code *)
Definition run_view (userun : bool) (c : Z) : retv :=
  if userun then (if Z.eqb c 0 then VOk else VErr) else VCode c.

Record log := mkLog {
  g_ret  : option retv;          (* what run / run_with_code returned (None: has not returned) *)
  g_arbs : list (list ev);       (* per arbiter: tasks started, in order *)
  g_ops  : list res              (* results of the script operations executed so far *)
}.
Definition observable_log (userun : bool) (s : st) : log :=
  mkLog (option_map (run_view userun) (ret s)) (map alog (arbs s)) (olog s).

(* ---------- the acceptance predicate (monitor): a fold over (op, result) + final checks ---------- *)
Record marb := mkMarb {
  m_sent  : list nat;   (* tids that may start, in order: sends that returned true before the cut *)
  m_cut   : bool;       (* a direct stop() returned true, or join returned: later sends never start *)
  m_gone  : bool;       (* a send returned false or join returned: every later send returns false *)
  m_lstop : bool;       (* a stop source for this arbiter exists (stop(), or a self-stopping task sent) *)
  m_cov   : bool;       (* created before any exit source: covered by "stops every arbiter" *)
  m_must  : bool;       (* stop() was called on it: join must return *)
  m_selfs : list nat    (* self-stopping tasks that may start *)
}.
Record mon := mkMon {
  m_arbs   : list marb;
  m_src    : bool;              (* an exit source exists: stop_with_code called, or a KStopSys task sent *)
  m_direct : option Z;          (* code of the first direct stop_with_code *)
  m_cands  : list (nat * Z);    (* KStopSys tasks sent before it: (tid, code) *)
  m_ret    : bool;              (* OWaitRun has observed that run returned *)
  m_hangs  : list nat;          (* tids that must never start (a join of their arbiter hung) *)
  m_waited : list (nat * nat);  (* (k, tid): OAwait saw tid started on k *)
  m_ok     : bool
}.
Definition mon0 : mon := mkMon [] false None [] false [] [] true.

Definition eff_cut (m : mon) (a : marb) : bool := m_cut a || (m_cov a && m_ret m).
Definition may_stop (m : mon) (a : marb) : bool := m_lstop a || m_src m.

Definition set_marbs (m : mon) (l : list marb) (ok : bool) : mon :=
  mkMon l (m_src m) (m_direct m) (m_cands m) (m_ret m) (m_hangs m) (m_waited m) (m_ok m && ok).
Definition set_ok (m : mon) (ok : bool) : mon := set_marbs m (m_arbs m) ok.

Definition is_true (r : res) := match r with RTrue => true | _ => false end.
Definition is_false (r : res) := match r with RFalse => true | _ => false end.
Definition is_unit (r : res) := match r with RUnit => true | _ => false end.
Definition is_self (kd : kind) := match kd with KStopSelf => true | _ => false end.

(* a send (spawn or stop) to an existing arbiter: result must be a bool; false needs a stop source and
   is final; returns the check and the updated gone flag *)
Definition send_ok (m : mon) (a : marb) (r : res) : bool :=
  match r with
  | RTrue => negb (m_gone a)
  | RFalse => may_stop m a
  | _ => false
  end.

Definition m_spawn (m : mon) (i : nat) (kd : kind) (r : res) (a : marb) : marb :=
  let live := is_true r && negb (eff_cut m a) in
  mkMarb (if live then m_sent a ++ [i] else m_sent a) (m_cut a) (m_gone a || is_false r)
         (m_lstop a || (is_true r && is_self kd)) (m_cov a) (m_must a)
         (if live && is_self kd then m_selfs a ++ [i] else m_selfs a).
Definition m_stop (r : res) (a : marb) : marb :=
  mkMarb (m_sent a) (m_cut a || is_true r) (m_gone a || is_false r) true (m_cov a) true (m_selfs a).
Definition m_cutnow (a : marb) : marb :=
  mkMarb (m_sent a) true (m_gone a) (m_lstop a) (m_cov a) (m_must a) (m_selfs a).
Definition m_joined (a : marb) : marb :=
  mkMarb (m_sent a) true true (m_lstop a) (m_cov a) (m_must a) (m_selfs a).

Definition mstep (m : mon) (i : nat) (o : op) (r : res) : mon :=
  match o with
  | ONew => set_marbs m (m_arbs m ++ [mkMarb [] false false false (negb (m_src m)) false []]) (is_unit r)
  | OSpawn k kd =>
      match nth_error (m_arbs m) k with
      | None => set_ok m (is_false r)
      | Some a =>
          let m1 := set_marbs m (upd k (m_spawn m i kd r) (m_arbs m)) (send_ok m a r) in
          match kd, r with
          | KStopSys c, RTrue =>
              mkMon (m_arbs m1) true (m_direct m1)
                    (match m_direct m1 with None => m_cands m1 ++ [(i, c)] | Some _ => m_cands m1 end)
                    (m_ret m1) (m_hangs m1) (m_waited m1) (m_ok m1)
          | _, _ => m1
          end
      end
  | OStop k =>
      match nth_error (m_arbs m) k with
      | None => set_ok m (is_false r)
      | Some a => set_marbs m (upd k (m_stop r) (m_arbs m)) (send_ok m a r)
      end
  | OSysStop c =>
      mkMon (m_arbs m) true (match m_direct m with None => Some c | d => d end) (m_cands m) (m_ret m)
            (m_hangs m) (m_waited m) (m_ok m && is_unit r)
  | OWaitRun =>
      match r with
      | RRet => mkMon (m_arbs m) (m_src m) (m_direct m) (m_cands m) true (m_hangs m) (m_waited m) (m_ok m)
      | RHang => set_ok m (match m_direct m with None => true | Some _ => false end)
      | _ => set_ok m false
      end
  | OJoin k =>
      match nth_error (m_arbs m) k with
      | None => set_ok m (match r with RJoined => true | _ => false end)
      | Some a =>
          match r with
          | RJoined => set_marbs m (upd k m_joined (m_arbs m)) true
          | RHang => mkMon (m_arbs m) (m_src m) (m_direct m) (m_cands m) (m_ret m) (m_hangs m ++ m_selfs a)
                           (m_waited m)
                           (m_ok m && negb (m_must a || (m_cov a && match m_direct m with Some _ => true | None => false end)))
          | _ => set_ok m false
          end
      end
  | ODrop k => set_ok m (is_unit r)
  | OAwait k i' =>
      match r with
      | RStarted =>
          (* a self-stopping task that has been seen started has called stop(): a cut like a direct stop *)
          mkMon (upd k (fun a => if existsb (Nat.eqb i') (m_selfs a) then m_cutnow a else a) (m_arbs m))
                (m_src m) (m_direct m) (m_cands m) (m_ret m) (m_hangs m) (m_waited m ++ [(k, i')]) (m_ok m)
      | RHang => set_ok m (match nth_error (m_arbs m) k with
                           | Some a => negb (existsb (Nat.eqb i') (m_sent a) && negb (may_stop m a))
                           | None => true end)
      | _ => set_ok m false
      end
  end.

Fixpoint mfold (m : mon) (i : nat) (ops : list op) (rs : list res) : mon :=
  match ops, rs with
  | o :: ops', r :: rs' => mfold (mstep m i o r) (S i) ops' rs'
  | _, _ => m
  end.

(* ---- final checks against the execution log ---- *)
Fixpoint is_prefix (a b : list nat) : bool :=
  match a, b with
  | [], _ => true
  | x :: a', y :: b' => Nat.eqb x y && is_prefix a' b'
  | _ :: _, [] => false
  end.
Definition tids (l : list ev) : list nat := map e_tid l.
Definition started_any (g : log) (i : nat) : bool := existsb (fun l => existsb (Nat.eqb i) (tids l)) (g_arbs g).

(* arbiter k: started tasks are a prefix of what may start (FIFO, at most once, nothing after stop), each
   ran on thread 2+k (the harness numbers threads so that this means "its own thread, shared with no
   other arbiter, not the system's or a sender's thread") with System id 0 (= its own system) *)
Fixpoint check_arbs (k : nat) (ls : list (list ev)) (ms : list marb) : bool :=
  match ls, ms with
  | [], [] => true
  | l :: ls', a :: ms' =>
      is_prefix (tids l) (m_sent a)
      && forallb (fun e => Nat.eqb (e_thr e) (2 + k) && Nat.eqb (e_sys e) 0) l
      && check_arbs (S k) ls' ms'
  | _, _ => false
  end.

Definition retv_eqb (a b : retv) : bool :=
  match a, b with
  | VCode x, VCode y => Z.eqb x y
  | VOk, VOk => true
  | VErr, VErr => true
  | _, _ => false
  end.

(* the first stop wins: the code is that of the first direct stop_with_code, or of a KStopSys task that
   was sent before it and did start *)
Definition allowed_codes (m : mon) (g : log) : list Z :=
  (match m_direct m with Some c => [c] | None => [] end)
  ++ map snd (filter (fun p => started_any g (fst p)) (m_cands m)).
Definition check_ret (userun : bool) (m : mon) (g : log) : bool :=
  match g_ret g with
  | Some v => existsb (fun c => retv_eqb v (run_view userun c)) (allowed_codes m g)
  | None => negb (m_ret m)
  end.

Definition check_waited (m : mon) (g : log) : bool :=
  forallb (fun p => match nth_error (g_arbs g) (fst p) with
                    | Some l => existsb (Nat.eqb (snd p)) (tids l)
                    | None => false end) (m_waited m).

Definition Rt_accepts_why (userun : bool) (ops : list op) (g : log) : nat :=
  let m := mfold mon0 0 ops (g_ops g) in
  if negb (m_ok m) then 1
  else if negb (check_arbs 0 (g_arbs g) (m_arbs m)) then 2
  else if negb (check_ret userun m g) then 3
  else if negb (forallb (fun i => negb (started_any g i)) (m_hangs m)) then 4
  else if negb (check_waited m g) then 5
  else if negb (Nat.leb (length (g_ops g)) (length ops)) then 6
  else 0.
Definition Rt_accepts (userun : bool) (ops : list op) (g : log) : bool :=
  Nat.eqb (Rt_accepts_why userun ops g) 0.

(* ---------- Runtime::block_on (runtime.rs:134-140) ----------
   The future is a script: it is Pending [n] times (each time it has arranged its own wake-up), then
   Ready v.  LocalSet::block_on polls it, and between two polls runs the tasks spawned locally so far;
   it returns as soon as the future is Ready.  Returns (output, number of local tasks run). *)
Fixpoint block_on (pend : nat) (v : Z) (spawned ran : nat) : Z * nat :=
  match pend with
  | O => (v, ran)
  | S n => block_on n v 0 (ran + spawned)
  end.
