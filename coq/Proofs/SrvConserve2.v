(* Proofs/SrvConserve2.v — C01, part 2: the postcondition [Post] of SrvConserve.v carried through every
   accept-thread function of Model/Srv.v (send_connection, forced_send, accept_one, accept_loop, accept,
   accept_toks/accept_all, handle_waker, process_timeout, step, run) and established for [init]. *)
From Coq Require Import List Arith ZArith NArith Bool Lia.
From AN Require Import Model.Srv Proofs.ListFacts Proofs.SrvConserve.
Import ListNotations.

Section Walk2.
Variable L : Z.
Variable nl : nat.
Variable P : list (nat * N).

Local Notation PostW := (Post nl P).

(* the accept thread stops with an error: whatever it had in the hand is gone, and [err] says so *)
Lemma Post_err a st ys st' : Quiet st st' -> err st' <> None -> PostW a [] st ys st' ys.
Proof.
  intros HQ He. destruct (Post_of_Quiet nl P a st ys st' HQ) as (A1 & A2 & A3). split; [|split].
  - intros H. destruct (A1 H) as (B1 & B2 & _). split; [exact B1|]. split; [exact B2|constructor].
  - exact A2.
  - intros c. destruct (A3 c) as (B1 & B2 & B3). unfold hc at 1 3. cbn [map]. rewrite cnt_nil.
    split; [lia|]. split; [lia|]. intros H. contradiction.
Qed.

(* an event emitted while some worker generation is closed (so the fault-free clause is void) *)
Lemma Post_emit_closed a b st ys e :
  (exists g w, nth_error (ws st) g = Some w /\ w_open w = false) ->
  (Forall (hand_ok P) a -> ev_ok P e /\ Forall (hand_ok P) b) ->
  (forall c, cnt c (ev_gone e) + hc c b = hc c a) -> ev_disp e = [] ->
  PostW a b st ys (emit st e) ys.
Proof.
  intros (g & w & Hg & Ho) Hev Hcnt Hd. split; [|split].
  - intros (HI & Hy & Ha). destruct (Hev Ha) as [He Hb]. split; [|auto].
    eapply SInv_gen; [exact HI|reflexivity| | |].
    + intros tok b0 c Hb0 Hc. left. eauto.
    + exists [e]. split; [reflexivity|]. constructor; [exact He|constructor].
    + intros g0 w0 x Hg0 Hx. left. eauto.
  - intros (_ & HA & _). rewrite (HA _ _ Hg) in Ho. discriminate.
  - intros c. destruct (tot_change c st (emit st e) [e] eq_refl eq_refl eq_refl) as [-> ->].
    unfold gone_of, disp_of. cbn [flat_map]. rewrite Hd, !app_nil_r, cnt_nil. specialize (Hcnt c).
    split; [lia|]. split; [lia|]. cbn [err emit]. intros H. split; [exact H|lia].
Qed.

Lemma hc_one c x : hc c [x] = cnt c [c_id x].
Proof. reflexivity. Qed.
Lemma hc_nil c : hc c [] = 0.
Proof. reflexivity. Qed.

(* the successful send: the connection goes from the hand into the queue of generation g *)
Lemma send_ok_post st ys g w x :
  nth_error (ws st) g = Some w ->
  PostW [x] [] st ys
    (emit (upd_worker st g (set_w_queue w (w_queue w ++ [x])))
          (EvDispatch (c_id x) (c_tok x) g (w_idx w) (length (w_queue w) + length (w_picked w)))) ys.
Proof.
  intros Hg. set (ev := EvDispatch _ _ _ _ _). set (w' := set_w_queue w (w_queue w ++ [x])).
  split; [|split].
  - intros (HI & Hy & Ha). inversion Ha as [|? ? Hx _]; subst. split; [|split; [exact Hy|constructor]].
    eapply SInv_gen; [exact HI|reflexivity| | |].
    + intros tok b0 c Hb0 Hc. left. eauto.
    + exists [ev]. split; [reflexivity|]. constructor; [exact Hx|constructor].
    + intros g0 w0 y Hg0 Hy0. cbn [ws emit upd_worker set_ws] in Hg0.
      destruct (nth_error_replace_nth_inv _ _ _ _ _ Hg0) as [(-> & -> & _)|(Hne & H1)]; [|left; eauto].
      cbn [w_queue w_picked w' set_w_queue] in Hy0. rewrite <- app_assoc in Hy0.
      apply in_app_or in Hy0 as [Hq|Hr].
      * left. exists w. split; [exact Hg|]. split; [reflexivity|]. apply in_or_app. now left.
      * cbn [app In] in Hr. destruct Hr as [<-|Hp].
        -- right. split; [exact Hx|]. eexists. cbn [trace emit]. left. reflexivity.
        -- left. exists w. split; [exact Hg|]. split; [reflexivity|]. apply in_or_app. now right.
  - intros (Hk & HA & HF). split; [exact Hk|]. split.
    + eapply AllOpen_upd_ws; [exact HA|reflexivity|]. cbn. eauto.
    + cbn [trace emit]. constructor; [reflexivity|exact HF].
  - intros c.
    destruct (tot_upd_ws c st (emit (upd_worker st g w') ev) g w w' [ev] Hg eq_refl eq_refl eq_refl) as [H1 H2].
    unfold wq_ids, wp_ids in H1. cbn [w' w_queue w_picked set_w_queue gone_of disp_of flat_map ev_gone ev_disp ev app] in H1, H2.
    rewrite map_app, cnt_app in H1. cbn [map] in H1. rewrite cnt_nil in H1. rewrite hc_one, hc_nil.
    split; [lia|]. split; [lia|]. cbn [err emit upd_worker set_ws]. intros H. split; [exact H|lia].
Qed.

(* inc_counter: only the counter of generation g changes *)
Lemma inc_post a st ys g w2 v :
  nth_error (ws st) g = Some w2 -> PostW a a st ys (upd_worker st g (set_w_cnt w2 v)) ys.
Proof.
  intros Hg. eapply Post_worker with (g := g) (w := w2) (evs := []); [exact Hg|reflexivity|reflexivity|reflexivity|reflexivity|reflexivity| | | |].
  - intros y Hy. exact Hy.
  - intros e [].
  - intros c. unfold wq_ids, wp_ids. cbn [w_queue w_picked set_w_cnt gone_of flat_map]. rewrite cnt_nil. lia.
  - intros _. split; [reflexivity|constructor].
Qed.

Definition hand_of (r : sres) : list conn := match r with SOk => [] | SRetry x => [x] end.

Lemma send_connection_post st x ys st' ys' r :
  send_connection L st x ys = (st', ys', r) -> PostW [x] (hand_of r) st ys st' ys'.
Proof.
  unfold send_connection.
  destruct (nth_error (handles st) (next st)) as [g|];
    [|intros H; injection H as <- <- <-; apply Post_err; [apply Quiet_set_err|cbn; destruct (err st); discriminate]].
  destruct (nth_error (ws st) g) as [w|] eqn:Eg;
    [|intros H; injection H as <- <- <-; apply Post_err; [apply Quiet_set_err|cbn; destruct (err st); discriminate]].
  destruct (w_open w) eqn:Eo.
  - (* sent *)
    set (st1 := emit _ _).
    assert (H1 : PostW [x] [] st ys st1 ys) by (apply send_ok_post; exact Eg).
    assert (H2 : PostW [] [] st1 ys (env_steps L st1 (hd [] ys)) (tl ys)).
    { destruct ys as [|y r0]; cbn [hd tl]; [apply Post_refl|apply env_steps_post]. }
    set (st2 := env_steps L st1 (hd [] ys)) in *.
    destruct (nth_error (ws st2) g) as [w2|] eqn:Eg2.
    + intros H; injection H as <- <- <-. cbn [hand_of].
      eapply Post_trans; [exact H1|]. eapply Post_trans; [exact H2|].
      eapply Post_trans; [apply inc_post; exact Eg2|].
      eapply Post_trans; [|apply Post_of_Quiet, Quiet_do_set_next].
      destruct (Z.eqb _ _); [apply Post_of_Quiet, Quiet_av_set|apply Post_refl].
    + intros H; injection H as <- <- <-. cbn [hand_of].
      eapply Post_trans; [exact H1|]. eapply Post_trans; [exact H2|]. apply Post_of_Quiet, Quiet_set_err.
  - (* the worker is gone: remove_next, then drop ("no workers") or hand the connection back *)
    set (st1 := set_handles st _). set (st2 := emit st1 (EvFaulted (w_idx w))). set (st3 := av_set st2 (w_idx w) false).
    assert (Hcl : exists g0 w0, nth_error (ws st1) g0 = Some w0 /\ w_open w0 = false) by (exists g, w; auto).
    assert (H2 : PostW [x] [x] st ys st2 ys).
    { eapply Post_trans; [apply Post_of_Quiet, Quiet_set_handles|]. apply Post_emit_closed; [exact Hcl| | |reflexivity].
      - intros Ha. split; [exact I|exact Ha].
      - intros c. cbn [ev_gone]. rewrite cnt_nil. lia. }
    assert (H3 : PostW [x] [x] st ys st3 ys) by (eapply Post_trans; [exact H2|apply Post_of_Quiet, Quiet_av_set]).
    assert (Hcl3 : exists g0 w0, nth_error (ws st3) g0 = Some w0 /\ w_open w0 = false).
    { destruct (Quiet_av_set st2 (w_idx w) false) as (Hw & _). fold st3 in Hw. rewrite Hw. exact Hcl. }
    destruct (handles st3).
    + intros H; injection H as <- <- <-. cbn [hand_of]. eapply Post_trans; [exact H3|].
      apply Post_emit_closed; [exact Hcl3| | |reflexivity].
      * intros Ha. inversion Ha as [|? ? Hx _]; subst. split; [exists (c_tok x); exact Hx|constructor].
      * intros c. cbn [ev_gone]. rewrite hc_one, hc_nil. lia.
    + intros H; injection H as <- <- <-. cbn [hand_of]. eapply Post_trans; [exact H3|].
      match goal with |- context [if ?b then _ else _] => destruct b end;
        [apply Post_of_Quiet, Quiet_set_next|apply Post_refl].
Qed.

Lemma forced_send_post : forall fuel st x ys st' ys',
  forced_send L fuel st x ys = (st', ys') -> PostW [x] [] st ys st' ys'.
Proof.
  induction fuel as [|f IH]; intros st x ys st' ys'; cbn [forced_send].
  - intros H; injection H as <- <-. apply Post_err; [apply Quiet_set_err|cbn; destruct (err st); discriminate].
  - destruct (err st) eqn:Ee.
    + intros H; injection H as <- <-. apply Post_err; [apply Quiet_refl|congruence].
    + destruct (send_connection L st x ys) as [[st1 ys1] r] eqn:Es.
      pose proof (send_connection_post _ _ _ _ _ _ Es) as H1. destruct r as [|x']; cbn [hand_of] in H1.
      * intros H; injection H as <- <-. exact H1.
      * intros H. eapply Post_trans; [exact H1|]. eapply IH. exact H.
Qed.

Lemma accept_one_post : forall fuel st x ys st' ys',
  accept_one L fuel st x ys = (st', ys') -> PostW [x] [] st ys st' ys'.
Proof.
  induction fuel as [|f IH]; intros st x ys st' ys'; cbn [accept_one].
  - intros H; injection H as <- <-. apply Post_err; [apply Quiet_set_err|cbn; destruct (err st); discriminate].
  - destruct (err st) eqn:Ee; [intros H; injection H as <- <-; apply Post_err; [apply Quiet_refl|congruence]|].
    destruct (nth_error (handles st) (next st)) as [g|];
      [|intros H; injection H as <- <-; apply Post_err; [apply Quiet_set_err|cbn; destruct (err st); discriminate]].
    destruct (nth_error (ws st) g) as [w|] eqn:Eg;
      [|intros H; injection H as <- <-; apply Post_err; [apply Quiet_set_err|cbn; destruct (err st); discriminate]].
    pose proof (Quiet_av_get st (w_idx w)) as Q0. destruct (av_get st (w_idx w)) as [st0 b]. cbn [fst] in Q0.
    destruct b.
    + destruct (send_connection L st0 x ys) as [[st1 ys1] r] eqn:Es.
      pose proof (send_connection_post _ _ _ _ _ _ Es) as H1. destruct r as [|x']; cbn [hand_of] in H1.
      * intros H; injection H as <- <-. eapply Post_trans; [apply Post_of_Quiet; exact Q0|exact H1].
      * intros H. eapply Post_trans; [apply Post_of_Quiet; exact Q0|]. eapply Post_trans; [exact H1|]. eapply IH. exact H.
    + set (st1 := do_set_next _).
      assert (Q1 : Quiet st st1).
      { subst st1. eapply Quiet_trans; [exact Q0|]. eapply Quiet_trans; [|apply Quiet_do_set_next].
        eapply Quiet_trans; [|apply Quiet_av_set]. apply Quiet_emit; reflexivity. }
      destruct (available (av st1)).
      * intros H. eapply Post_trans; [apply Post_of_Quiet; exact Q1|]. eapply IH. exact H.
      * intros H. eapply Post_trans; [apply Post_of_Quiet; exact Q1|]. eapply forced_send_post. exact H.
Qed.

(* accept(): the head of listener tok's backlog goes into the hand, tagged with tok *)
Lemma take_backlog_post st ys tok l c rest l1 :
  nth_error (lsts st) tok = Some l -> l_backlog l = c :: rest -> l_backlog l1 = rest ->
  PostW [] [{| c_id := c; c_tok := tok |}] st ys (upd_lst st tok l1) ys.
Proof.
  intros El Eb E1. pose proof (bl_nth _ _ _ El) as Hbl. rewrite Eb in Hbl.
  assert (Hbl' : bl (upd_lst st tok l1) = replace_nth tok rest (bl st)) by (rewrite bl_upd_lst, E1; reflexivity).
  split; [|split].
  - intros (HI & Hy & _). pose proof HI as (_ & I2 & _). split; [|split; [exact Hy|]].
    + eapply SInv_gen; [exact HI|rewrite Hbl'; apply length_replace_nth| | |].
      * intros tok0 b c0 Hb Hc. rewrite Hbl' in Hb. left.
        destruct (nth_error_replace_nth_inv _ _ _ _ _ Hb) as [(-> & -> & _)|(Hne & H1)]; [|eauto].
        exists (c :: rest). split; [exact Hbl|now right].
      * exists []. split; [reflexivity|constructor].
      * intros g w x Hg Hx. left. eauto.
    + constructor; [|constructor]. unfold hand_ok. cbn [c_id c_tok]. eapply I2; [exact Hbl|now left].
  - intros (Hk & HA & HF). split; [exact Hk|]. split; assumption.
  - intros c0. destruct (tot_upd_bl c0 st (upd_lst st tok l1) tok _ _ Hbl Hbl' eq_refl eq_refl) as [H1 H2].
    rewrite (cnt_cons c0 c rest) in H1, H2. rewrite hc_one, hc_nil. cbn [c_id].
    split; [lia|]. split; [lia|]. intros H. split; [exact H|lia].
Qed.

Lemma accept_loop_post : forall fuel st tok ys st' ys',
  accept_loop L fuel st tok ys = (st', ys') -> PostW [] [] st ys st' ys'.
Proof.
  induction fuel as [|f IH]; intros st tok ys st' ys'; cbn [accept_loop].
  - intros H; injection H as <- <-. apply Post_of_Quiet, Quiet_set_err.
  - destruct (err st); [intros H; injection H as <- <-; apply Post_refl|].
    destruct (available (av st)); [|intros H; injection H as <- <-; apply Post_refl].
    destruct (nth_error (lsts st) tok) as [l|] eqn:El;
      [|intros H; injection H as <- <-; apply Post_of_Quiet, Quiet_set_err].
    destruct (l_inject l) as [|k irest] eqn:Ei.
    + destruct (l_backlog l) as [|c rest] eqn:Eb; [intros H; injection H as <- <-; apply Post_refl|].
      match goal with |- context [upd_lst st tok ?l0] => set (l1 := l0) end.
      set (st1 := upd_lst st tok l1).
      destruct (accept_one L (accept_one_fuel st1) st1 {| c_id := c; c_tok := tok |} ys) as [st2 ys2] eqn:E1.
      intros H. eapply Post_trans; [apply (take_backlog_post st ys tok l c rest l1 El Eb eq_refl)|].
      eapply Post_trans; [eapply accept_one_post; exact E1|]. eapply IH; exact H.
    + destruct k.
      * intros H; injection H as <- <-. apply Post_of_Quiet. eapply Quiet_upd_lst; [exact El|reflexivity].
      * intros H. eapply Post_trans; [|eapply IH; exact H].
        apply Post_of_Quiet. eapply Quiet_upd_lst; [exact El|reflexivity].
      * intros H; injection H as <- <-. apply Post_of_Quiet.
        eapply Quiet_trans; [|apply Quiet_set_timeout]. eapply Quiet_upd_lst; [exact El|reflexivity].
Qed.

Lemma accept_post st tok ys st' ys' : accept L st tok ys = (st', ys') -> PostW [] [] st ys st' ys'.
Proof.
  unfold accept. destruct (paused st); [intros H; injection H as <- <-; apply Post_refl|apply accept_loop_post].
Qed.

Lemma accept_toks_post toks : forall st ys st' ys',
  accept_toks L st toks ys = (st', ys') -> PostW [] [] st ys st' ys'.
Proof.
  induction toks as [|t r IH]; intros st ys st' ys'; cbn [accept_toks].
  - intros H; injection H as <- <-. apply Post_refl.
  - destruct (accept L st t ys) as [st1 ys1] eqn:E1. intros H.
    eapply Post_trans; [eapply accept_post; exact E1|eapply IH; exact H].
Qed.

Lemma accept_all_post st ys st' ys' : accept_all L st ys = (st', ys') -> PostW [] [] st ys st' ys'.
Proof. apply accept_toks_post. Qed.

Lemma Quiet_map_lsts' s0 s (f : lst -> lst) ls :
  Quiet s0 s -> map l_backlog ls = bl s -> (forall l, l_backlog (f l) = l_backlog l) ->
  Quiet s0 (set_lsts s (map f ls)).
Proof.
  intros HQ Hb Hf. eapply Quiet_trans; [exact HQ|]. apply Quiet_set_lsts.
  rewrite map_map, <- Hb. apply map_ext. exact Hf.
Qed.

(* peel the outermost state constructor of the target of a [Quiet] goal *)
Ltac quiet_peel :=
  lazymatch goal with
  | |- Quiet ?s ?s => apply Quiet_refl
  | |- Quiet _ (emit _ _) => eapply Quiet_trans; [|apply Quiet_emit; reflexivity]
  | |- Quiet _ (set_wq _ _ _) => eapply Quiet_trans; [|apply Quiet_set_wq]
  | |- Quiet _ (av_set _ _ _) => eapply Quiet_trans; [|apply Quiet_av_set]
  | |- Quiet _ (set_handles _ _) => eapply Quiet_trans; [|apply Quiet_set_handles]
  | |- Quiet _ (set_paused _ _) => eapply Quiet_trans; [|apply Quiet_set_paused]
  | |- Quiet _ (set_stopped _ _) => eapply Quiet_trans; [|apply Quiet_set_stopped]
  | |- Quiet _ (set_err _ _) => eapply Quiet_trans; [|apply Quiet_set_err]
  | |- Quiet _ (set_now _ _) => eapply Quiet_trans; [|apply Quiet_set_now]
  | |- Quiet _ (deregister_all _) => eapply Quiet_trans; [|apply Quiet_deregister_all]
  | |- Quiet _ (process_timeout _) => eapply Quiet_trans; [|apply Quiet_process_timeout]
  | |- Quiet _ (set_lsts _ (map register _)) => apply Quiet_map_lsts'; [|reflexivity|apply register_backlog]
  | |- Quiet _ (set_lsts _ (clear_edges _)) => unfold clear_edges; apply Quiet_map_lsts'; [|reflexivity|reflexivity]
  | |- Quiet _ (if ?b then _ else _) => destruct b
  end.
Ltac quiet := repeat quiet_peel.

Lemma handle_waker_post : forall fuel st ys st' ys',
  handle_waker L fuel st ys = (st', ys') -> PostW [] [] st ys st' ys'.
Proof.
  induction fuel as [|f IH]; intros st ys st' ys'; cbn [handle_waker].
  - intros H; injection H as <- <-. apply Post_of_Quiet, Quiet_set_err.
  - destruct (err st); [intros H; injection H as <- <-; apply Post_refl|].
    destruct (wq st) as [|i rest]; [intros H; injection H as <- <-; apply Post_refl|].
    set (st0 := set_wq st rest (wpend st)).
    assert (Q0 : Quiet st st0) by apply Quiet_set_wq.
    destruct i as [idx|g| | |].
    + (* WorkerAvailable *)
      set (st1 := if existsb _ (handles st0) then _ else _).
      assert (Q1 : Quiet st st1) by (eapply Quiet_trans; [exact Q0|]; subst st1; quiet).
      destruct (paused st1).
      * intros H. eapply Post_trans; [apply Post_of_Quiet; exact Q1|]. eapply IH; exact H.
      * destruct (accept_all L st1 ys) as [st2 ys2] eqn:E2. intros H.
        eapply Post_trans; [apply Post_of_Quiet; exact Q1|].
        eapply Post_trans; [eapply accept_all_post; exact E2|]. eapply IH; exact H.
    + (* a new worker handle *)
      destruct (nth_error (ws st0) g) as [w|].
      2:{ intros H; injection H as <- <-. apply Post_of_Quiet. eapply Quiet_trans; [exact Q0|apply Quiet_set_err]. }
      set (st1 := set_handles _ _).
      assert (Q1 : Quiet st st1) by (eapply Quiet_trans; [exact Q0|]; subst st1; quiet).
      destruct (paused st1).
      * intros H. eapply Post_trans; [apply Post_of_Quiet; exact Q1|]. eapply IH; exact H.
      * destruct (accept_all L st1 ys) as [st2 ys2] eqn:E2. intros H.
        eapply Post_trans; [apply Post_of_Quiet; exact Q1|].
        eapply Post_trans; [eapply accept_all_post; exact E2|]. eapply IH; exact H.
    + (* Pause *)
      intros H. eapply Post_trans; [|eapply IH; exact H].
      apply Post_of_Quiet. eapply Quiet_trans; [exact Q0|]. quiet.
    + (* Resume *)
      destruct (paused st0).
      * match goal with |- context [accept_all L ?s ys] => set (st1 := s) end.
        assert (Q1 : Quiet st st1) by (eapply Quiet_trans; [exact Q0|]; subst st1; quiet).
        destruct (accept_all L st1 ys) as [st2 ys2] eqn:E2. intros H.
        eapply Post_trans; [apply Post_of_Quiet; exact Q1|].
        eapply Post_trans; [eapply accept_all_post; exact E2|]. eapply IH; exact H.
      * intros H. eapply Post_trans; [apply Post_of_Quiet; exact Q0|]. eapply IH; exact H.
    + (* Stop *)
      intros H; injection H as <- <-. apply Post_of_Quiet. eapply Quiet_trans; [exact Q0|]. quiet.
Qed.

(* ---------- every operation, every run ---------- *)
Definition op_ys (o : op) : ysched :=
  match o with
  | E e => [[e]]
  | AcceptTok _ ys | HandleWaker ys | Turn ys => ys
  | _ => []
  end.
Definition script_ys (os : list op) : ysched := flat_map op_ys os.

Lemma step_post st o : PostW [] [] st (op_ys o) (step L st o) [].
Proof.
  destruct o as [e|tok ys|ys| |ys|ms]; cbn [step op_ys].
  - eapply Post_trans; [apply env_step_post|apply Post_skip_nil].
  - destruct (live st); [|apply Post_drop].
    destruct (accept L st tok ys) as [st' ys'] eqn:E1. cbn [fst].
    eapply Post_trans; [eapply accept_post; exact E1|apply Post_drop].
  - destruct (live st); [|apply Post_drop].
    destruct (handle_waker L (handle_waker_fuel st ys) st ys) as [st' ys'] eqn:E1. cbn [fst].
    eapply Post_trans; [eapply handle_waker_post; exact E1|apply Post_drop].
  - destruct (live st); [|apply Post_refl]. apply Post_of_Quiet, Quiet_process_timeout.
  - destruct (live st); [|apply Post_drop].
    match goal with |- context [accept_toks L ?s ?t ys] => set (st0 := s); set (toks := t) end.
    assert (Q0 : Quiet st st0) by (subst st0; quiet).
    destruct (accept_toks L st0 toks ys) as [st1 ys1] eqn:E1.
    assert (H1 : PostW [] [] st ys st1 ys1).
    { eapply Post_trans; [apply Post_of_Quiet; exact Q0|eapply accept_toks_post; exact E1]. }
    destruct (wpend st).
    + destruct (handle_waker L (handle_waker_fuel st1 ys1) st1 ys1) as [st2 ys2] eqn:E2.
      eapply Post_trans; [exact H1|]. eapply Post_trans; [eapply handle_waker_post; exact E2|].
      eapply Post_trans; [apply Post_drop|]. destruct (live st2); [apply Post_of_Quiet, Quiet_process_timeout|apply Post_refl].
    + eapply Post_trans; [exact H1|]. eapply Post_trans; [apply Post_drop|].
      destruct (live st1); [apply Post_of_Quiet, Quiet_process_timeout|apply Post_refl].
  - apply Post_of_Quiet, Quiet_set_now.
Qed.

Lemma run_post os : forall st, PostW [] [] st (script_ys os) (run L st os) [].
Proof.
  induction os as [|o os IH]; intros st; cbn [run fold_left script_ys flat_map].
  - apply Post_refl.
  - eapply Post_trans; [|apply IH].
    pose proof (Post_frame_app nl P [] [] st (op_ys o) (step L st o) [] (script_ys os) (step_post st o)) as H.
    exact H.
Qed.

(* ---------- the initial state ---------- *)
Lemma init_bl W kinds : bl (init W kinds) = map (fun _ => []) kinds.
Proof. unfold bl, init. cbn [lsts]. rewrite map_map. reflexivity. Qed.

Lemma concat_nils {A B} (l : list A) : concat (map (fun _ => @nil B) l) = [].
Proof. induction l; cbn; auto. Qed.

Lemma init_ws_empty W kinds g w :
  nth_error (ws (init W kinds)) g = Some w -> w_queue w = [] /\ w_picked w = [] /\ w_open w = true.
Proof.
  unfold init. cbn [ws]. intros H. apply nth_error_In in H. apply in_map_iff in H as (i & <- & _). cbn. auto.
Qed.

Lemma flat_map_nils {A B} (f : A -> list B) l : (forall x, In x l -> f x = []) -> flat_map f l = [].
Proof. induction l as [|h t IH]; intros H; cbn; [reflexivity|]. rewrite (H h (or_introl eq_refl)), IH; [reflexivity|]. intros x Hx. apply H. now right. Qed.

Lemma init_tot W kinds c : tot c (init W kinds) = 0 /\ und c (init W kinds) = 0.
Proof.
  unfold tot, und, backlog_ids, queued, picked, gone, disp. rewrite init_bl, concat_nils.
  rewrite !flat_map_nils; [split; reflexivity| |].
  - intros w Hw. unfold init in Hw. cbn [ws] in Hw. apply in_map_iff in Hw as (i & <- & _). reflexivity.
  - intros w Hw. unfold init in Hw. cbn [ws] in Hw. apply in_map_iff in Hw as (i & <- & _). reflexivity.
Qed.

Lemma init_sinv W kinds : nl = length kinds -> SInv nl P (init W kinds).
Proof.
  intros Hnl. unfold SInv. rewrite init_bl, map_length. split; [auto|]. split; [|split].
  - intros tok b c Hb Hc. apply nth_error_In in Hb. apply in_map_iff in Hb as (k & <- & _). destruct Hc.
  - intros g w x Hg Hx. destruct (init_ws_empty _ _ _ _ Hg) as (E1 & E2 & _). rewrite E1, E2 in Hx. destruct Hx.
  - constructor.
Qed.

Lemma init_allopen W kinds : AllOpen (init W kinds).
Proof. intros g w Hg. now destruct (init_ws_empty _ _ _ _ Hg) as (_ & _ & E). Qed.

End Walk2.
