#!/usr/bin/env python3
"""MANIFEST.setup_cmd: build everything from files on disk (offline). Individual failures are reported but do
not abort: every check rebuilds what it needs and reports a broken build itself."""
import os
import sys
import time

sys.path.insert(0, os.path.dirname(os.path.abspath(__file__)))
import common  # noqa: E402
from common import sh, log, COQ, OCAML, HARNESS, NCPU  # noqa: E402

t0 = time.time()
common.gen_coqproject()
rc, out = sh(["make", "-k", "-j%d" % NCPU], cwd=COQ, timeout=7200)
log("[setup] coq make rc=%d (%.0fs)" % (rc, time.time() - t0))
if rc != 0:
    log(out[-3000:])
for g in sorted(os.listdir(OCAML)):
    if os.path.exists(os.path.join(OCAML, g, "driver.ml")):
        try:
            common.build_driver(g)
            log("[setup] ocaml driver %s ok" % g)
        except Exception as e:  # noqa: BLE001
            log("[setup] ocaml driver %s FAILED: %s" % (g, str(e)[-1500:]))
for h in sorted(os.listdir(HARNESS)):
    if os.path.exists(os.path.join(HARNESS, h, "Cargo.toml")):
        t1 = time.time()
        try:
            common.build_harness(h, timeout=3600)
            log("[setup] harness %s ok (%.0fs)" % (h, time.time() - t1))
        except Exception as e:  # noqa: BLE001
            log("[setup] harness %s FAILED: %s" % (h, str(e)[-2000:]))
log("[setup] done in %.0fs" % (time.time() - t0))
