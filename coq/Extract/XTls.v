(* Extraction of the actix-tls models (ExtrOcamlBasic only; numbers stay positive/Z/N/nat). *)
From Coq Require Import Extraction ExtrOcamlBasic.
From AN Require Import Model.Connect Model.TlsAccept.
Extraction Language OCaml.
Extraction "../ocaml/tls/gen.ml"
  hostname port parse_u16 build ci_hostname ci_get_port ci_addrs ci_take_addrs
  resolve tcp_connect connect tls_connect connect_tls uri_hostname uri_port uri_ci_port
  init step run run_from shift_calls native_step native_run.
