"""C13 — Framed decoding does not depend on how the bytes arrive (actix-codec Framed, read half)."""
import itertools
import zlib
from common import Stream

META = {
    "id": "C13",
    "driver": "codec",
    "harness": "h_codec",
    "coq_targets": ["Extract/XCodec.vo"],
    "level": "proof",
    "design_ref": "§5 C13",
    "technique": "Coq proof (induction over the transport script with a state invariant; codec law prefix_stable; instances "
                 "LinesCodec and the length-prefixed test codec; separate theorem for BytesCodec) + extracted-model vs real "
                 "Framed<scripted AsyncRead, codec> differential run through Stream::poll_next",
    "level_text": "Theorems C13_* hold for ALL transport scripts (every chunking, every Pending/IoErr placement, no length bound) on a "
                  "Gallina model of Framed::next_item (flags EOF/READABLE, read_buf); the model is tied to framed.rs by running the "
                  "extracted model and the real Framed on the same scripts: all strings up to a small length over the codec's "
                  "delimiter alphabet x all compositions into chunks x Pending placements x one I/O error position, plus long random "
                  "streams; every poll result AND the number of Decoder calls per poll are compared; an independent Python reference "
                  "decoder of the whole stream is the monitor.",
    "level_note": "Trusted: Coq kernel, extraction, OCaml driver, Rust harness (scripted AsyncRead, Counting codec wrapper), BytesMut "
                  "modelled as a byte list (capacity/reserve not modelled; the harness flags a read that is offered less than LW room).",
    "rule": "stream c13enum: for each codec (lines over {61,0d,0a,ff}; lp, lpd, lps over {00,01,02,61,ff}; bytes over {61,62}) every string of "
            "length <= L, every composition into non-empty chunks, every subset of reads preceded by one Pending (sampled above length "
            "Lp), no I/O error or one I/O error before any read; plus explicit z / empty-chunk EOF markers followed by junk. "
            "stream c13rand: random streams of 1..20 KiB (lines with lines up to 12 KiB, CRLF, invalid UTF-8; lp frames incl. bad "
            "headers and truncation; raw bytes), random chunk sizes <= 1024, Pending and I/O error placements. "
            "stream c13big: the same kind of stream delivered in chunks of up to 9000 bytes which the mock splits to the room Framed "
            "offers (compared modulo Pending/calls: chunk independence itself is the oracle). non-trivial = at least two reads of data, "
            "or a Pending, or an I/O error.",
    "trusted_base": ["bytes::BytesMut modelled as a list (split_to/advance/extend); reserve/capacity not modelled",
                     "tokio_util::io::poll_read_buf = 'append what the transport put into the ReadBuf; 0 bytes means EOF'"],
    "assumptions": ["the transport is any AsyncRead whose answers are Ready(n bytes)/Ready(0)/Pending/Err; it is polled again after Pending",
                    "codecs are stateless functions of the buffer (LinesCodec, BytesCodec and the harness' LpCodec are)"],
}

ALPHA = {"lines": ["61", "0d", "0a", "ff"], "lp": ["00", "01", "02", "61", "ff"], "lpd": ["00", "01", "02", "61", "ff"], "lps": ["00", "01", "02", "61", "ff"],
         "bytes": ["61", "62"]}


def blob(b):
    return b.hex() if len(b) <= 24 else "#%d.%08x" % (len(b), zlib.crc32(b) & 0xFFFFFFFF)


def parse_case(case):
    """-> (codec, tokens); a "+x" suffix of the codec (conversions before every poll) is dropped: it must not change anything"""
    codec, script = case.split(";", 1)
    toks = script.split(",") if script else []
    return codec.split("+")[0], toks


def codec_field(case):
    return case.split(";", 1)[0]


def stream_of(toks):
    """bytes delivered before the first EOF marker, number of I/O errors before it"""
    out = bytearray()
    errs = 0
    for t in toks:
        if t == "z" or t == "c":
            break
        if t[0] in "cb":            # b<hex>: the read buffer the Framed was built with (FramedParts::with_read_buf)
            out += bytes.fromhex(t[1:])
        elif t == "e":
            errs += 1
    return bytes(out), errs


def is_utf8(b):
    try:
        b.decode("utf-8")
        return True
    except UnicodeDecodeError:
        return False


def reference(codec, s):
    """independent whole-stream decoder: (frames, eof frames, endless) in trace syntax"""
    if codec == "lines":
        parts = s.split(b"\n")
        tail = parts.pop()
        fr = []
        for ln in parts:
            if ln.endswith(b"\r"):
                ln = ln[:-1]
            fr.append("IO:" + blob(ln) if is_utf8(ln) else "IE")
        ef = []
        if tail.endswith(b"\r"):
            tail = tail[:-1]
        if tail:
            ef.append("IO:" + blob(tail) if is_utf8(tail) else "IE")
        return fr, ef, None
    if codec in ("lp", "lpd", "lps"):
        fr = []
        i = 0
        while i < len(s):
            n = s[i]
            if n == 255:
                fr.append("IH")
                i += 1
            elif len(s) - i - 1 >= n:
                fr.append("IO:" + blob(s[i + 1:i + 1 + n]))
                i += 1 + n
            else:
                break
        # third component: the item the codec goes on answering at end of stream, for ever (None: it says None)
        #   lpd (provided decode_eof) on a truncated frame: "bytes remaining" without consuming;
        #   lps (trailer): an end marker once nothing is left — on an empty buffer
        if codec == "lps":
            return fr, (["IT"] if i < len(s) else []), "IS"
        if i < len(s):
            return (fr, ["IT"], None) if codec == "lp" else (fr, [], "IR")
        return fr, [], None
    raise ValueError(codec)


def entries(trace):
    body = trace.split("|")[0]
    return [e.rsplit("@", 1)[0] for e in body.split(",")] if body else []


def fuel_of(toks):
    return len([t for t in toks if t[0] != "b"]) + sum((len(t) - 1) // 2 for t in toks if t[0] in "cb") + 8


def monitor(case, impl, model):
    """C13 on the implementation's trace: frames of the whole stream, in order, then the codec's EOF frames, then None;
    I/O errors surfaced as items.  Only poll results are looked at (not the Decoder call counts)."""
    if impl.startswith(("PANIC", "CRASH", "HANG", "SKIPPED")):
        return False
    codec, toks = parse_case(case)
    s, nerr = stream_of(toks)
    ents = entries(impl)
    upto = ents.index("N") + 1 if "N" in ents else len(ents)
    if ents[:upto].count("X") != nerr:
        return False
    items = [e for e in ents if e not in ("P", "X")]
    if "N" in items:
        # the property text ends at the first None; what later polls return is compared with the model (C13_fused), not judged here
        items = items[:items.index("N") + 1]
    if codec == "bytes":
        # frames are whatever was buffered: their concatenation is the stream, then None (3 polls)
        pos = 0
        k = 0
        while k < len(items) and items[k].startswith("IO:"):
            it = items[k][3:]
            n = int(it[1:].split(".")[0]) if it.startswith("#") else len(it) // 2
            if n == 0 or blob(s[pos:pos + n]) != it:
                return False
            pos += n
            k += 1
        return pos == len(s) and items[k:] == ["N"]
    fr, ef, endless = reference(codec, s)
    if endless:
        # the codec goes on answering at end of stream (provided decode_eof on a truncated frame: an error, without consuming;
        # a trailer from an empty buffer): Framed relays it on every poll and never says None
        n = len(items) - len(fr) - len(ef)
        return len(ents) == fuel_of(toks) and n > 0 and items == fr + ef + [endless] * n
    return items == fr + ef + ["N"]


def compare_exact(i, m):
    return i == m


def compare_items(i, m):
    """c13big: the mock splits chunks to the room it is offered, so only the frames are comparable"""
    strip = lambda t: [e for e in entries(t) if e != "P"]
    return strip(i) == strip(m) and "room<LW" not in i


def nontrivial(case, model):
    codec, toks = parse_case(case)
    return sum(1 for t in toks if t[0] == "c" and len(t) > 1) >= 2 or "p" in toks or "e" in toks


def shrink(case):
    codec, toks = codec_field(case), parse_case(case)[1]
    n = len(toks)
    k = n // 2
    while k >= 1:
        for i in range(0, n - k + 1, max(1, k)):
            yield codec + ";" + ",".join(toks[:i] + toks[i + k:])
        k //= 2
    for i, t in enumerate(toks):
        if t[0] == "c" and len(t) > 3:
            b = t[1:]
            h = (len(b) // 4) * 2
            for nb in (b[:h], b[h:], b[2:], b[:-2]):
                yield codec + ";" + ",".join(toks[:i] + ["c" + nb] + toks[i + 1:])
    # merge two adjacent chunks
    for i in range(n - 1):
        if toks[i][0] == "c" and toks[i + 1][0] == "c":
            yield codec + ";" + ",".join(toks[:i] + [toks[i] + toks[i + 1][1:]] + toks[i + 2:])


def finding_key(case, impl, model):
    return "c13-" + parse_case(case)[0]


# ---------------------------------------------------------------------------------------------
def compositions(letters):
    """all ways to cut the list of letters into non-empty consecutive chunks"""
    n = len(letters)
    if n == 0:
        yield []
        return
    for mask in range(1 << (n - 1)):
        out = []
        cur = letters[0]
        for i in range(1, n):
            if mask >> (i - 1) & 1:
                out.append(cur)
                cur = letters[i]
            else:
                cur += letters[i]
        out.append(cur)
        yield out


def enum_cases(codec, L, Lp, rng):
    """strings <= L; all Pending placements up to length Lp, three sampled placements above"""
    cases = []
    alpha = ALPHA[codec]
    for n in range(0, L + 1):
        for tup in itertools.product(alpha, repeat=n):
            for chunks in compositions(list(tup)):
                reads = len(chunks) + 1          # the last read is the EOF
                if n <= Lp:
                    pmasks = range(1 << reads)
                else:
                    pmasks = {0, (1 << reads) - 1, rng.getrandbits(reads), rng.getrandbits(reads)} if n <= Lp + 1 \
                        else {rng.getrandbits(reads), rng.getrandbits(reads)}
                for pm in pmasks:
                    base = []
                    for i in range(reads):
                        if pm >> i & 1:
                            base.append("p")
                        if i < len(chunks):
                            base.append("c" + chunks[i])
                    cases.append(codec + ";" + ",".join(base))
                    # one I/O error before read i (after its Pending, if any)
                    for epos in range(reads):
                        toks = []
                        for i in range(reads):
                            if pm >> i & 1:
                                toks.append("p")
                            if i == epos:
                                toks.append("e")
                            if i < len(chunks):
                                toks.append("c" + chunks[i])
                        cases.append(codec + ";" + ",".join(toks))
    return cases


def eof_marker_cases():
    """explicit 0-byte reads (z, empty chunk) in the middle of a script: everything after them is never read"""
    out = []
    for codec in ("lines", "lp", "lpd", "lps", "bytes"):
        a = ALPHA[codec]
        for pre in ([], ["c" + a[0]], ["c" + a[0] + a[-1], "p"], ["c" + a[len(a) // 2] + a[0]], ["p", "c" + a[1]]):
            for mark in ("z", "c"):
                for post in ([], ["c" + a[0]], ["e"], ["p", "c" + a[len(a) // 2] + a[0]], ["z"]):
                    out.append(codec + ";" + ",".join(pre + [mark] + post))
    return out


def rand_stream(codec, rng, size):
    out = bytearray()
    if codec == "lines":
        while len(out) < size:
            r = rng.random()
            if r < 0.08:
                n = rng.randint(7000, 12000)          # a line longer than HW
            elif r < 0.25:
                n = rng.randint(900, 1200)            # around LW
            elif r < 0.5:
                n = rng.randint(0, 3)
            else:
                n = rng.randint(0, 200)
            line = bytearray(rng.choice(b"abcxyz \r") for _ in range(n))
            if rng.random() < 0.15 and n > 0:
                line[rng.randrange(n)] = rng.choice([0xff, 0xc3, 0xa9, 0x80])
            if rng.random() < 0.05 and n > 1:
                j = rng.randrange(n - 1)
                line[j:j + 2] = b"\xc3\xa9"
            out += line
            if rng.random() < 0.3:
                out += b"\r"
            out += b"\n"
        if rng.random() < 0.6:                        # unterminated tail, sometimes ending in CR
            del out[-1]
            if rng.random() < 0.3:
                out += b"\r"
    elif codec in ("lp", "lpd", "lps"):
        while len(out) < size:
            r = rng.random()
            if r < 0.04:
                out.append(255)
                continue
            n = rng.choice([0, 1, 2, 254, 253]) if r < 0.3 else rng.randint(0, 254)
            out.append(n)
            out += bytes(rng.getrandbits(8) for _ in range(n))
        if rng.random() < 0.5:
            del out[-rng.randint(1, 3):]              # usually truncates the last frame
    else:
        out += bytes(rng.getrandbits(8) for _ in range(size))
    return bytes(out)


def rand_case(codec, rng, big=False):
    size = rng.choice([1024, 1100, 2000, 5000, 8192, 8300, 12000, 20000]) + rng.randint(-40, 40)
    small_chunks = rng.random() < 0.25
    if small_chunks:
        size = min(size, 2100)
    s = rand_stream(codec, rng, size)
    toks = []
    i = 0
    err_at = rng.randrange(len(s)) if rng.random() < 0.3 else -1
    while i < len(s):
        if big:
            n = rng.choice([1, 100, 1024, 1025, 4000, 7168, 8192, 9000])
        elif small_chunks:
            n = rng.randint(1, 16)
        else:
            n = rng.choice([1, 2, rng.randint(1, 1024), rng.randint(1, 1024), 1023, 1024, rng.randint(200, 600)])
        if rng.random() < 0.15:
            toks.append("p")
            if rng.random() < 0.2:
                toks.append("p")
        if 0 <= err_at <= i:
            toks.append("e")
            err_at = -1
        toks.append("c" + s[i:i + n].hex())
        i += n
    if rng.random() < 0.3:
        toks.append("p")
    if rng.random() < 0.2:
        toks.append("z")
    return codec + ";" + ",".join(toks)


def zl(h):
    return "[" + "; ".join(str(int(h[i:i + 2], 16)) for i in range(0, len(h), 2)) + "]"


COQ_CODEC = {"lines": ("Lines.decode Lines.decode_eof", {"IE": "Item IErr"}, "Item (IOk %s)"),
             "lp": ("lp_decode lp_decode_eof", {"IH": "Item LBadHdr", "IT": "Item LTrunc", "IR": "Item LRemaining"}, "Item (LOk %s)"),
             "lpd": ("lp_decode lpd_decode_eof", {"IH": "Item LBadHdr", "IT": "Item LTrunc", "IR": "Item LRemaining"}, "Item (LOk %s)"),
             "lps": ("lp_decode lps_decode_eof", {"IH": "Item LBadHdr", "IT": "Item LTrunc", "IS": "Item LEnd"}, "Item (LOk %s)"),
             "bytes": ("bytes_decode bytes_decode_eof", {"IR": "Item BRemaining"}, "Item (BOk %s)")}


def to_coq(case, model):
    codec, toks = parse_case(case)
    if any(t[0] == "b" for t in toks):
        return None
    if sum(len(t) for t in toks) > 40 or "#" in model or "|" in model or model == "PANIC":
        return None
    fn, fixed, okfmt = COQ_CODEC[codec]
    sc = []
    for t in toks:
        sc.append({"p": "RPending", "z": "REof", "e": "RErr"}.get(t) or "RChunk %s" % zl(t[1:]))
    outs = []
    for e in model.split(","):
        r, c = e.rsplit("@", 1)
        if r in ("P", "N", "X"):
            g = {"P": "Pending", "N": "Done", "X": "IoError"}[r]
        elif r in fixed:
            g = fixed[r]
        else:
            g = okfmt % zl(r[3:])
        outs.append("(%s, %s%%nat)" % (g, c))
    return ("run_read %s %d%%nat 2%%nat [%s] rinit" % (fn, fuel_of(toks), "; ".join(sc)), "[%s]" % "; ".join(outs))


def streams(ctx):
    quick = ctx.tier == "quick"
    rng = ctx.rng
    enum = eof_marker_cases()
    # (codec, max length, full Pending product up to)
    plan = [("lines", 5, 3), ("lp", 4, 3), ("lpd", 3, 2), ("lps", 3, 3), ("bytes", 6, 3)] if quick else \
           [("lines", 6, 4), ("lp", 5, 4), ("lpd", 4, 3), ("lps", 4, 4), ("bytes", 8, 4)]
    for codec, L, Lp in plan:
        enum += enum_cases(codec, L, Lp, rng)
    s1 = Stream("c13enum", "c13", enum, monitor=monitor, nontrivial=nontrivial, shrink=shrink, compare=compare_exact,
                finding_key=finding_key, to_coq=to_coq, coq_imports="From AN Require Import Model.Lines Model.Framed.",
                exhaustive=False, timeout=300 if quick else 1500,
                describe="per codec: all strings of length <= L over its alphabet x all compositions x Pending placements x "
                         "(no | one) I/O error position; plan (codec, L, full Pending product up to) = %s; %d cases" % (plan, len(enum)))
    nr = 150 if quick else 3000
    rnd = [rand_case(c, rng) for c in ("lines", "lp", "bytes", "lines", "lp") for _ in range(nr)]
    s2 = Stream("c13rand", "c13", rnd, monitor=monitor, nontrivial=nontrivial, shrink=shrink, compare=compare_exact,
                finding_key=finding_key, timeout=300 if quick else 1500,
                describe="%d random streams of 1..20 KiB (lines up to 12 KiB long, CRLF, invalid UTF-8; lp frames with bad headers "
                         "and truncation; raw bytes), chunk sizes 1..1024, Pending and one I/O error placed at random" % len(rnd))
    nb = 100 if quick else 2000
    big = [rand_case(c, rng, big=True) for c in ("lines", "lp") for _ in range(nb)]
    s3 = Stream("c13big", "c13", big, monitor=monitor, nontrivial=nontrivial, shrink=shrink, compare=compare_items,
                finding_key=finding_key, timeout=300 if quick else 1500,
                describe="%d random streams delivered in chunks of up to 9000 bytes; the mock hands over what fits into the room "
                         "Framed offers (so the real reserve/capacity logic decides the chunking); frames compared" % len(big))
    # Framed built from parts with a pre-filled read buffer, and the state-preserving conversions before every poll
    base = [c for c in enum if c.split(";")[0] in ("lines", "lp", "lps", "bytes")]
    rng.shuffle(base)
    parts = []
    for c in base[:1500 if quick else 20000] + rnd[:60 if quick else 600]:
        codec, toks = parse_case(c)
        parts.append(codec + "+x;" + ",".join(toks))
        k = next((i for i, t in enumerate(toks) if t[0] == "c" and len(t) > 1), None)
        if k is not None and "e" not in toks[:k]:
            pre = ["b" + toks[k][1:]] + toks[:k] + toks[k + 1:]
            parts.append(codec + ";" + ",".join(pre))
            parts.append(codec + "+x;" + ",".join(pre))
            whole = stream_of(toks)[0]
            parts.append(codec + ";b" + whole.hex() + rng.choice(["", ",z", ",p", ",p,z", ",e"]))
    s4 = Stream("c13parts", "c13", parts, monitor=monitor, nontrivial=nontrivial, shrink=shrink, compare=compare_exact,
                finding_key=finding_key, timeout=300 if quick else 1500,
                describe="%d variants of enumerated and random scripts: Framed::from_parts(FramedParts::with_read_buf(..)) with the first chunk "
                         "(or the whole stream) already in the read buffer, and into_parts/from_parts, into_map_io, into_map_codec applied "
                         "before every poll ('+x'); the model is unchanged by construction (conversions carry buffers and flags over)" % len(parts))
    # duplex use: the same Framed driven as a Sink between the reads (readiness, sends, flushes, close of the write direction)
    dup = []
    for c in base[:1200 if quick else 20000] + rnd[:80 if quick else 1500]:
        codec, toks = parse_case(c)
        dup.append("%s+w%d;%s" % (codec, rng.randrange(1000), ",".join(toks)))
    s5 = Stream("c13duplex", "c13", dup, monitor=monitor, nontrivial=nontrivial, shrink=shrink, compare=compare_exact,
                finding_key=finding_key, timeout=300 if quick else 1500,
                describe="%d enumerated and random scripts with Sink calls on the same Framed (poll_ready, start_send of small items, "
                         "poll_flush, poll_close) placed pseudo-randomly before the reads ('+w<seed>'); the frames read must be those of "
                         "the read-only model: the write half does not touch what is read" % len(dup))
    return [s1, s2, s3, s4, s5]
