(* Extraction of the accept-loop model (ExtrOcamlBasic only; numbers stay positive/Z/N/nat). *)
From Coq Require Import Extraction ExtrOcamlBasic.
From AN Require Import Model.Avail Model.Srv Model.Builder Model.SrvE2E.
Extraction Language OCaml.
Extraction "../ocaml/server/gen.ml" Srv.init Srv.step Srv.run Avail.get Avail.set Avail.available Avail.empty Avail.offset
  Builder.build Builder.empty Builder.worker_services Builder.service_for Builder.accept_socket
  SrvE2E.e2e_step SrvE2E.e2e_ops SrvE2E.e2e_step_ab.
