(* Proofs/RtFacts.v — invariants of the actix-rt transition system (Model/Rt.v) and soundness of the
   acceptance predicate.  All proofs for C09/C10 live here. *)
From AN Require Import Model.Rt.

(* ---------- Runtime::block_on ---------- *)
Lemma block_on_output : forall pend v spawned ran, fst (block_on pend v spawned ran) = v.
Proof. induction pend as [|n IH]; intros v spawned ran; cbn [block_on]; [reflexivity | apply IH]. Qed.

(* ---------- lists, upd ---------- *)
Lemma upd_length : forall A (f : A -> A) l k, length (upd k f l) = length l.
Proof. induction l as [|x t IH]; intros [|k]; cbn; auto. Qed.

Lemma nth_upd_same : forall A (f : A -> A) l k, nth_error (upd k f l) k = option_map f (nth_error l k).
Proof. induction l as [|x t IH]; intros [|k]; cbn; auto. Qed.

Lemma nth_upd_other : forall A (f : A -> A) l k j, j <> k -> nth_error (upd k f l) j = nth_error l j.
Proof.
  induction l as [|x t IH]; intros [|k] [|j] H; cbn; auto; try congruence.
Qed.

Lemma nth_upd : forall A (f : A -> A) l k j,
  nth_error (upd k f l) j = if Nat.eqb j k then option_map f (nth_error l k) else nth_error l j.
Proof.
  intros. destruct (Nat.eqb_spec j k) as [->|N]; [apply nth_upd_same | apply nth_upd_other; auto].
Qed.

Lemma upd_none : forall A (f : A -> A) l k, nth_error l k = None -> upd k f l = l.
Proof. induction l as [|x t IH]; intros [|k] H; cbn in *; auto; try discriminate. f_equal; auto. Qed.

Lemma nth_app_new : forall A (l : list A) x, nth_error (l ++ [x]) (length l) = Some x.
Proof. intros. rewrite nth_error_app2 by lia. rewrite Nat.sub_diag. reflexivity. Qed.

Lemma nth_snoc : forall A (l : list A) x k y,
  nth_error (l ++ [x]) k = Some y -> (k < length l /\ nth_error l k = Some y) \/ (k = length l /\ y = x).
Proof.
  intros A l x k y H. destruct (Nat.lt_ge_cases k (length l)) as [L|G].
  - left. split; auto. rewrite nth_error_app1 in H; auto.
  - right. rewrite nth_error_app2 in H by lia.
    destruct (k - length l) as [|d] eqn:E; cbn in H.
    + inversion H. split; [lia | auto].
    + destruct d; discriminate.
Qed.

(* ---------- prefix ---------- *)
Lemma is_prefix_spec : forall a b, is_prefix a b = true <-> exists r, b = a ++ r.
Proof.
  induction a as [|x a IH]; intros b; cbn.
  - split; eauto.
  - destruct b as [|y b].
    + split; [discriminate | intros [r H]; discriminate].
    + rewrite andb_true_iff, Nat.eqb_eq, IH. split.
      * intros [-> [r ->]]. eauto.
      * intros [r H]. inversion H. eauto.
Qed.

Lemma is_prefix_refl : forall a, is_prefix a a = true.
Proof. intros. apply is_prefix_spec. exists []. now rewrite app_nil_r. Qed.

Lemma is_prefix_trans : forall a b c, is_prefix a b = true -> is_prefix b c = true -> is_prefix a c = true.
Proof.
  intros a b c H1 H2. apply is_prefix_spec in H1 as [r1 ->]. apply is_prefix_spec in H2 as [r2 ->].
  apply is_prefix_spec. exists (r1 ++ r2). now rewrite app_assoc.
Qed.

Lemma is_prefix_app : forall a r, is_prefix a (a ++ r) = true.
Proof. intros. apply is_prefix_spec. eauto. Qed.

(* ---------- commands: Stop, the commands before the first Stop, task ids ---------- *)
Definition is_stop (c : cmd) : bool := match c with Stop => true | _ => false end.
Definition has_stop (l : list cmd) : bool := existsb is_stop l.
Fixpoint pre_stop (l : list cmd) : list cmd :=
  match l with
  | [] => []
  | Stop :: _ => []
  | c :: t => c :: pre_stop t
  end.
Fixpoint execs (l : list cmd) : list nat :=
  match l with
  | [] => []
  | Stop :: t => execs t
  | Execute x :: t => tid x :: execs t
  end.

Lemma has_stop_app : forall a b, has_stop (a ++ b) = has_stop a || has_stop b.
Proof. intros. unfold has_stop. apply existsb_app. Qed.

Lemma execs_app : forall a b, execs (a ++ b) = execs a ++ execs b.
Proof. induction a as [|[|x] a IH]; intros; cbn; auto. now rewrite IH. Qed.

Lemma pre_stop_app_stop : forall a b, has_stop a = true -> pre_stop (a ++ b) = pre_stop a.
Proof.
  induction a as [|[|x] a IH]; intros b H; cbn in *; auto; try discriminate. f_equal. auto.
Qed.

Lemma pre_stop_app_nostop : forall a b, has_stop a = false -> pre_stop (a ++ b) = a ++ pre_stop b.
Proof.
  induction a as [|[|x] a IH]; intros b H; cbn in *; auto; try discriminate. f_equal. auto.
Qed.

Lemma pre_stop_nostop : forall a, has_stop a = false -> pre_stop a = a.
Proof. intros. rewrite <- (app_nil_r a) at 1. rewrite pre_stop_app_nostop; auto. cbn. apply app_nil_r. Qed.

Lemma pre_stop_prefix : forall a, exists r, a = pre_stop a ++ r.
Proof.
  induction a as [|[|x] a [r IH]]; cbn.
  - exists []. auto.
  - eexists. reflexivity.
  - exists r. now rewrite <- IH.
Qed.

Lemma execs_pre_stop_prefix : forall a, is_prefix (execs (pre_stop a)) (execs a) = true.
Proof.
  intros. destruct (pre_stop_prefix a) as [r H]. rewrite H at 2. rewrite execs_app. apply is_prefix_app.
Qed.

Lemma execs_lt : forall l n, (forall t, In (Execute t) l -> tid t < n) -> forall i, In i (execs l) -> i < n.
Proof.
  induction l as [|[|x] l IH]; intros n H i Hi; cbn in *; try contradiction.
  - apply (IH n); auto.
  - destruct Hi as [<-|Hi]; [apply H; auto | apply (IH n); auto].
Qed.

Lemma execs_in : forall l i, In i (execs l) -> exists t, In (Execute t) l /\ tid t = i.
Proof.
  induction l as [|[|x] l IH]; intros i Hi; cbn in *; try contradiction.
  - destruct (IH i Hi) as (t & A & B). eauto.
  - destruct Hi as [<-|Hi]; [eauto | destruct (IH i Hi) as (t & A & B); eauto].
Qed.

Lemma NoDup_snoc : forall (l : list nat) x, NoDup l -> ~ In x l -> NoDup (l ++ [x]).
Proof.
  induction l as [|y l IH]; intros x N H; cbn.
  - constructor; auto.
  - inversion N; subst. constructor.
    + intros X. apply in_app_or in X as [X|[X|[]]]; [auto | subst; apply H; left; auto].
    + apply IH; auto. intros X. apply H. right. auto.
Qed.

Lemma nodup_push_stop : forall l, NoDup (execs l) -> NoDup (execs (l ++ [Stop])).
Proof. intros. rewrite execs_app. cbn. now rewrite app_nil_r. Qed.

Lemma nodup_push_exec : forall l n t, NoDup (execs l) -> (forall x, In (Execute x) l -> tid x < n) -> tid t = n ->
  NoDup (execs (l ++ [Execute t])).
Proof.
  intros l n t N H E. rewrite execs_app. cbn. apply NoDup_snoc; auto. intros X.
  apply (execs_lt _ _ H) in X. lia.
Qed.

(* ---------- per-arbiter invariant (FIFO core) ---------- *)
Definition started (a : arb) : list nat := tids (alog a).

Record AInv (n : nat) (a : arb) : Prop := {
  ai_run : ph a = Running -> exists dn, hist a = dn ++ chan a /\ has_stop dn = false
                                     /\ execs dn = started a ++ map tid (lq a);
  ai_end : ph a <> Running -> is_prefix (started a) (execs (pre_stop (hist a))) = true /\ has_stop (hist a) = true;
  ai_lt : forall t, In (Execute t) (hist a) -> tid t < n;
  ai_inj : forall t t', In (Execute t) (hist a) -> In (Execute t') (hist a) -> tid t = tid t' -> t = t';
  ai_lq : forall t, In t (lq a) -> In (Execute t) (hist a);
  ai_self : forall t, In (Execute t) (hist a) -> tkind t = KStopSelf -> In (tid t) (started a) -> has_stop (hist a) = true;
  ai_id : forall e, In e (alog a) -> e_thr e = a_thr a /\ e_sys e = a_sys a;
  ai_nodup : NoDup (execs (hist a))
}.

Lemma AInv_mono : forall n n' a, n <= n' -> AInv n a -> AInv n' a.
Proof.
  intros n n' a L [H1 H2 H3 H4 H5 H6 H7 H8]. constructor; auto. intros t Ht. specialize (H3 t Ht). lia.
Qed.

Lemma AInv_new : forall n thr sy pre, AInv n (mkArb [] [] Running [] thr sy pre []).
Proof.
  constructor; cbn; try (intros; contradiction); try congruence; try constructor.
  intros _. exists []. auto.
Qed.

Lemma push_dropped : forall c a, ph a = Dropped -> push c a = a.
Proof. intros c a H. unfold push. now rewrite H. Qed.

Lemma push_live : forall c a, ph a <> Dropped ->
  push c a = mkArb (chan a ++ [c]) (lq a) (ph a) (alog a) (a_thr a) (a_sys a) (a_pre a) (hist a ++ [c]).
Proof. intros c a H. unfold push. destruct (ph a); cbn; congruence. Qed.

Lemma ph_push : forall c a, ph (push c a) = ph a.
Proof. intros. unfold push. destruct (ph a) eqn:E; cbn; auto. Qed.
Lemma alog_push : forall c a, alog (push c a) = alog a.
Proof. intros. unfold push. destruct (ph a) eqn:E; cbn; auto. Qed.

Lemma AInv_push_stop : forall n a, AInv n a -> AInv n (push Stop a).
Proof.
  intros n a I.
  destruct (ph a) eqn:P; [ | | rewrite push_dropped by auto; exact I ]; destruct I as [H1 H2 H3 H4 H5 H6 H7 H8].
  - rewrite push_live by congruence. rewrite P. constructor; cbn; unfold started in *; cbn.
    + intros _. destruct (H1 P) as (dn & E1 & E2 & E3). exists dn. rewrite E1, app_assoc. auto.
    + congruence.
    + intros t Ht. apply in_app_or in Ht as [Ht|[Ht|[]]]; [auto | discriminate].
    + intros t t' Ht Ht'. apply in_app_or in Ht as [Ht|[Ht|[]]]; [|discriminate].
      apply in_app_or in Ht' as [Ht'|[Ht'|[]]]; [auto | discriminate].
    + intros t Ht. apply in_or_app. left. auto.
    + intros. rewrite has_stop_app. cbn. apply orb_true_r.
    + auto.
    + now apply nodup_push_stop.
  - rewrite push_live by congruence. rewrite P. constructor; cbn; unfold started in *; cbn.
    + congruence.
    + intros _. destruct H2 as [E1 E2]; [congruence|]. rewrite pre_stop_app_stop by auto. rewrite has_stop_app, E2. auto.
    + intros t Ht. apply in_app_or in Ht as [Ht|[Ht|[]]]; [auto | discriminate].
    + intros t t' Ht Ht'. apply in_app_or in Ht as [Ht|[Ht|[]]]; [|discriminate].
      apply in_app_or in Ht' as [Ht'|[Ht'|[]]]; [auto | discriminate].
    + intros t Ht. apply in_or_app. left. auto.
    + intros. rewrite has_stop_app. cbn. apply orb_true_r.
    + auto.
    + now apply nodup_push_stop.
Qed.

Lemma AInv_push_exec : forall n a kd, AInv n a -> AInv (S n) (push (Execute (mkTask n kd)) a).
Proof.
  intros n a kd I. destruct (ph a) eqn:P; [ | | rewrite push_dropped by auto; eapply AInv_mono; [|eauto]; lia ].
  - destruct I as [H1 H2 H3 H4 H5 H6 H7 H8].
    rewrite push_live by congruence. rewrite P. constructor; cbn; unfold started in *; cbn.
    + intros _. destruct (H1 P) as (dn & E1 & E2 & E3). exists dn. rewrite E1, app_assoc. auto.
    + congruence.
    + intros t Ht. apply in_app_or in Ht as [Ht|[Ht|[]]]; [specialize (H3 t Ht); lia | inversion Ht; cbn; lia].
    + intros t t' Ht Ht' E. apply in_app_or in Ht as [Ht|[Ht|[]]]; apply in_app_or in Ht' as [Ht'|[Ht'|[]]].
      * auto.
      * inversion Ht'; subst t'. specialize (H3 t Ht). cbn in E. lia.
      * inversion Ht; subst t. specialize (H3 t' Ht'). cbn in E. lia.
      * congruence.
    + intros t Ht. apply in_or_app. left. auto.
    + intros t Ht K S0. apply in_app_or in Ht as [Ht|[Ht|[]]].
      * rewrite has_stop_app. rewrite (H6 t Ht K S0). auto.
      * inversion Ht; subst t. cbn in S0.
        destruct (H1 P) as (dn & E1 & E2 & E3).
        assert (In n (execs (hist a))) as Hin.
        { rewrite E1, execs_app, E3. apply in_or_app. left. apply in_or_app. left. exact S0. }
        exfalso. apply (execs_lt _ _ H3) in Hin. lia.
    + auto.
    + eapply nodup_push_exec; eauto.
  - destruct I as [H1 H2 H3 H4 H5 H6 H7 H8].
    rewrite push_live by congruence. rewrite P. constructor; cbn; unfold started in *; cbn.
    + congruence.
    + intros _. destruct H2 as [E1 E2]; [congruence|]. rewrite pre_stop_app_stop by auto. rewrite has_stop_app, E2. auto.
    + intros t Ht. apply in_app_or in Ht as [Ht|[Ht|[]]]; [specialize (H3 t Ht); lia | inversion Ht; cbn; lia].
    + intros t t' Ht Ht' E. apply in_app_or in Ht as [Ht|[Ht|[]]]; apply in_app_or in Ht' as [Ht'|[Ht'|[]]].
      * auto.
      * inversion Ht'; subst t'. specialize (H3 t Ht). cbn in E. lia.
      * inversion Ht; subst t. specialize (H3 t' Ht'). cbn in E. lia.
      * congruence.
    + intros t Ht. apply in_or_app. left. auto.
    + intros. destruct H2 as [E1 E2]; [congruence|]. rewrite has_stop_app, E2. auto.
    + auto.
    + eapply nodup_push_exec; eauto.
Qed.

Lemma AInv_runner : forall n a, AInv n a -> AInv n (runner a).
Proof.
  intros n a I. unfold runner. destruct (ph a) eqn:P; auto. destruct (chan a) as [|[|t] c] eqn:C; auto;
    destruct I as [H1 H2 H3 H4 H5 H6 H7 H8]; destruct (H1 P) as (dn & E1 & E2 & E3); rewrite C in E1.
  - (* Stop: the loop ends *)
    constructor; cbn; unfold started in *; cbn; auto; try congruence.
    intros _. rewrite E1. rewrite pre_stop_app_nostop by auto. cbn. rewrite app_nil_r, E3.
    split; [apply is_prefix_app|]. rewrite has_stop_app. cbn. apply orb_true_r.
  - (* Execute: spawn_local *)
    constructor; cbn; unfold started in *; cbn; auto; try congruence.
    + intros _. exists (dn ++ [Execute t]). rewrite E1, <- app_assoc. cbn. split; auto. split.
      * rewrite has_stop_app, E2. reflexivity.
      * rewrite execs_app, E3, map_app. cbn. now rewrite app_assoc.
    + intros x Hx. apply in_app_or in Hx as [Hx|[<-|[]]]; auto. rewrite E1. apply in_or_app. right. left. auto.
Qed.

Lemma AInv_drop : forall n a, ph a = Ended -> AInv n a -> AInv n (drop_arb a).
Proof.
  intros n a P [H1 H2 H3 H4 H5 H6 H7 H8]. unfold drop_arb.
  constructor; cbn; unfold started in *; cbn; auto; try congruence.
  intros _. apply H2. congruence.
Qed.

Lemma tids_app : forall a b, tids (a ++ b) = tids a ++ tids b.
Proof. intros. unfold tids. apply map_app. Qed.

(* starting the oldest spawned task *)
Lemma AInv_start_plain : forall n a t q, ph a = Running -> lq a = t :: q -> tkind t <> KStopSelf ->
  AInv n a -> AInv n (start_task a).
Proof.
  intros n a t q P L K [H1 H2 H3 H4 H5 H6 H7 H8]. destruct (H1 P) as (dn & E1 & E2 & E3).
  unfold start_task. rewrite P, L.
  constructor; cbn; unfold started in *; cbn; try congruence; auto.
  - intros _. exists dn. split; auto. split; auto.
    rewrite E3, L, tids_app. cbn. now rewrite <- app_assoc.
  - intros x Hx. apply H5. rewrite L. right. auto.
  - intros x Hx Kx Sx. rewrite tids_app in Sx. apply in_app_or in Sx as [Sx|[Sx|[]]]; [eauto|].
    cbn in Sx. assert (t = x) as <-; [|congruence].
    apply H4; auto. apply H5. rewrite L. left. auto.
  - intros e He. apply in_app_or in He as [He|[<-|[]]]; auto.
Qed.

(* ... and, if it is a self-stopping one, Arbiter::current().stop() in the same step *)
Lemma AInv_start_self : forall n a t q, ph a = Running -> lq a = t :: q ->
  AInv n a -> AInv n (push Stop (start_task a)).
Proof.
  intros n a t q P L [H1 H2 H3 H4 H5 H6 H7 H8]. destruct (H1 P) as (dn & E1 & E2 & E3).
  unfold start_task. rewrite P, L. rewrite push_live by (cbn; congruence). cbn.
  constructor; cbn; unfold started in *; cbn; try congruence.
  - intros _. exists dn. rewrite E1, app_assoc. split; auto. split; auto.
    rewrite E3, L, tids_app. cbn. now rewrite <- app_assoc.
  - intros x Hx. apply in_app_or in Hx as [Hx|[Hx|[]]]; [auto|discriminate].
  - intros x x' Hx Hx'. apply in_app_or in Hx as [Hx|[Hx|[]]]; [|discriminate].
    apply in_app_or in Hx' as [Hx'|[Hx'|[]]]; [auto|discriminate].
  - intros x Hx. apply in_or_app. left. apply H5. rewrite L. right. auto.
  - intros. rewrite has_stop_app. cbn. apply orb_true_r.
  - intros e He. apply in_app_or in He as [He|[<-|[]]]; auto.
  - now apply nodup_push_stop.
Qed.

(* ---------- iterated stop (SystemController's Exit), registry helpers ---------- *)
Lemma iter_succ_r : forall A (f : A -> A) n x, Nat.iter (S n) f x = Nat.iter n f (f x).
Proof. intros A f n. induction n as [|n IH]; intros x; [reflexivity|]. cbn [Nat.iter nat_rect] in *. now rewrite IH. Qed.

Lemma stop_all_nth : forall ids l k,
  nth_error (stop_all ids l) k = option_map (Nat.iter (count_occ Nat.eq_dec ids k) (push Stop)) (nth_error l k).
Proof.
  induction ids as [|i t IH]; intros l k; cbn [stop_all count_occ].
  - cbn. destruct (nth_error l k); reflexivity.
  - rewrite IH, nth_upd. destruct (Nat.eq_dec i k) as [->|N].
    + rewrite Nat.eqb_refl. destruct (nth_error l k); cbn [option_map]; auto.
      f_equal. symmetry. apply iter_succ_r.
    + destruct (Nat.eqb_spec k i); [congruence | reflexivity].
Qed.

Lemma stop_all_length : forall ids l, length (stop_all ids l) = length l.
Proof. induction ids as [|i t IH]; intros; cbn; auto. now rewrite IH, upd_length. Qed.

Lemma iter_push_inv : forall (P : arb -> Prop), (forall a, P a -> P (push Stop a)) ->
  forall n a, P a -> P (Nat.iter n (push Stop) a).
Proof. intros P H n. induction n as [|n IH]; intros a Pa; [exact Pa|]. cbn [Nat.iter nat_rect]. apply H. apply IH. exact Pa. Qed.

Lemma has_stop_push_stop : forall a, ph a <> Dropped -> has_stop (chan (push Stop a)) = true.
Proof. intros a H. rewrite push_live by auto. cbn. rewrite has_stop_app. cbn. apply orb_true_r. Qed.

Lemma lq_push : forall c a, lq (push c a) = lq a.
Proof. intros. unfold push. destruct (ph a) eqn:E; cbn; auto. Qed.
Lemma pre_push : forall c a, a_pre (push c a) = a_pre a.
Proof. intros. unfold push. destruct (ph a) eqn:E; cbn; auto. Qed.
Lemma thr_push : forall c a, a_thr (push c a) = a_thr a.
Proof. intros. unfold push. destruct (ph a) eqn:E; cbn; auto. Qed.
Lemma sys_push : forall c a, a_sys (push c a) = a_sys a.
Proof. intros. unfold push. destruct (ph a) eqn:E; cbn; auto. Qed.
Lemma has_stop_chan_push : forall c a, has_stop (chan a) = true -> has_stop (chan (push c a)) = true.
Proof.
  intros c a H. unfold push. destruct (ph a) eqn:E; cbn; auto; rewrite has_stop_app, H; auto.
Qed.

(* an arbiter that is bound to end: it has ended, or Stop is in its channel *)
Definition stopping (a : arb) : Prop := ph a <> Running \/ has_stop (chan a) = true.

Lemma stopping_push : forall c a, stopping a -> stopping (push c a).
Proof. intros c a [H|H]; [left; now rewrite ph_push | right; now apply has_stop_chan_push]. Qed.

Lemma stopping_iter : forall n a, stopping a -> stopping (Nat.iter n (push Stop) a).
Proof. intros n a. apply iter_push_inv. intros. now apply stopping_push. Qed.

Lemma stopping_push_stop : forall a, stopping (push Stop a).
Proof.
  intros a. destruct (ph a) eqn:P.
  - right. apply has_stop_push_stop. congruence.
  - left. rewrite ph_push. congruence.
  - left. rewrite ph_push. congruence.
Qed.

Lemma stopping_iter_pos : forall n a, n > 0 -> stopping (Nat.iter n (push Stop) a).
Proof.
  intros [|n] a H; [lia|]. rewrite iter_succ_r. apply stopping_iter. apply stopping_push_stop.
Qed.

Lemma stopping_runner : forall a, stopping a -> stopping (runner a).
Proof.
  intros a [H|H]; unfold runner; destruct (ph a) eqn:P; try (left; congruence).
  destruct (chan a) as [|[|t] c]; cbn in *; try discriminate.
  - left. cbn. congruence.
  - right. cbn. auto.
Qed.

Lemma stopping_start : forall a, stopping a -> stopping (start_task a).
Proof.
  intros a [H|H]; unfold start_task; destruct (ph a) eqn:P; try (left; congruence).
  destruct (lq a); [right; auto | right; cbn; auto].
Qed.

Lemma stopping_drop : forall a, stopping (drop_arb a).
Proof. intros. left. cbn. congruence. Qed.

(* system commands before the first Exit *)
Fixpoint pre_exit (q : list syscmd) : list syscmd :=
  match q with
  | [] => []
  | Exit _ :: _ => []
  | c :: t => c :: pre_exit t
  end.
Definition has_exit (q : list syscmd) : bool := existsb is_exit q.

Lemma pre_exit_snoc_in : forall q c x, In x (pre_exit q) -> In x (pre_exit (q ++ [c])).
Proof.
  induction q as [|[e|r|d] q IH]; intros c x H; cbn in *; try contradiction;
    (destruct H as [H|H]; [left; auto | right; auto]).
Qed.

Lemma pre_exit_snoc_new : forall q c, has_exit q = false -> is_exit c = false -> In c (pre_exit (q ++ [c])).
Proof.
  induction q as [|[e|r|d] q IH]; intros c H Hc; cbn in *; try discriminate.
  - destruct c; cbn in *; try discriminate; auto.
  - right. auto.
  - right. auto.
Qed.

Lemma has_exit_app : forall a b, has_exit (a ++ b) = has_exit a || has_exit b.
Proof. intros. unfold has_exit. apply existsb_app. Qed.

Lemma pre_exit_in : forall q x, In x (pre_exit q) -> In x q.
Proof.
  induction q as [|[e|r|d] q IH]; intros x H; cbn in *; try contradiction;
    (destruct H as [H|H]; [left; auto | right; auto]).
Qed.

Lemma in_remove_nat : forall x y l, In y (remove_nat x l) <-> In y l /\ y <> x.
Proof.
  induction l as [|z l IH]; cbn; [tauto|].
  destruct (Nat.eqb_spec x z) as [->|N]; cbn; rewrite IH; intuition congruence.
Qed.

(* ---------- the global invariant of the transition system ---------- *)
Definition doomed (s : st) (a : arb) : Prop :=
  stopping a \/ (alive s = true /\ exitc s = None /\ has_exit (sysq s) = true).

Definition arb_ok (n k : nat) (a : arb) : Prop := AInv n a /\ a_thr a = 2 + k /\ a_sys a = 0.

Definition reg_ok (rg : list nat) (q : list syscmd) (k : nat) (a : arb) : Prop :=
  a_pre a = true ->
  ph a = Dropped \/ ((In k rg \/ In (Register k) (pre_exit q)) /\ ~ In (Deregister k) q).

Record GInv (s : st) : Prop := {
  g_arb : forall k a, nth_error (arbs s) k = Some a -> arb_ok (pc s) k a;
  g_iss : issued s = false -> alive s = true /\ exitc s = None /\ has_exit (sysq s) = false;
  g_alive : alive s = false -> exitc s <> None;
  gi_ret : ret s = (if alive s then None else exitc s);
  g_reg : forall k a, nth_error (arbs s) k = Some a -> reg_ok (reg s) (sysq s) k a;
  g_doom : forall k a, nth_error (arbs s) k = Some a -> a_pre a = true -> issued s = true -> doomed s a;
  g_pc : pc s = length (olog s);
  g_bound : forall j, In (Deregister j) (sysq s) -> j < length (arbs s)
}.

Lemma GInv_init : forall ops, GInv (init ops).
Proof.
  intros. constructor; cbn; auto; try discriminate; try (intros [|k] a H; discriminate). intros j [].
Qed.

(* what a local move of one arbiter (or a send to it) must respect *)
Record local_ok (n n' : nat) (a a' : arb) : Prop := {
  lo_inv : AInv n a -> AInv n' a';
  lo_thr : a_thr a' = a_thr a;
  lo_sys : a_sys a' = a_sys a;
  lo_pre : a_pre a' = a_pre a;
  lo_drop : ph a = Dropped -> ph a' = Dropped;
  lo_stopping : stopping a -> stopping a'
}.

Lemma local_ok_refl : forall n n' a, n <= n' -> local_ok n n' a a.
Proof. intros. constructor; auto. intros. eapply AInv_mono; eauto. Qed.

Lemma local_ok_push_stop : forall n a, local_ok n n a (push Stop a).
Proof.
  intros. constructor.
  - apply AInv_push_stop.
  - apply thr_push.
  - apply sys_push.
  - apply pre_push.
  - intros. now rewrite ph_push.
  - apply stopping_push.
Qed.

Lemma local_ok_push_exec : forall n a kd, local_ok n (S n) a (push (Execute (mkTask n kd)) a).
Proof.
  intros. constructor.
  - apply AInv_push_exec.
  - apply thr_push.
  - apply sys_push.
  - apply pre_push.
  - intros. now rewrite ph_push.
  - apply stopping_push.
Qed.

Lemma local_ok_runner : forall n a, local_ok n n a (runner a).
Proof.
  intros. constructor; try apply AInv_runner; try apply stopping_runner;
    unfold runner; destruct (ph a) eqn:P; auto; try congruence; destruct (chan a) as [|[|t] c]; auto; congruence.
Qed.

Lemma local_ok_trans : forall n1 n2 n3 a b c, local_ok n1 n2 a b -> local_ok n2 n3 b c -> local_ok n1 n3 a c.
Proof.
  intros n1 n2 n3 a b c [A1 A2 A3 A4 A5 A6] [B1 B2 B3 B4 B5 B6]. constructor; auto; congruence.
Qed.

(* frame: only arbiter k moves, by a local_ok move; the system side does not change *)
Lemma GInv_local : forall s s' k f,
  GInv s ->
  arbs s' = upd k f (arbs s) -> reg s' = reg s -> sysq s' = sysq s -> exitc s' = exitc s -> alive s' = alive s ->
  ret s' = ret s -> issued s' = issued s -> pc s' = length (olog s') ->
  (forall a, nth_error (arbs s) k = Some a -> local_ok (pc s) (pc s') a (f a)) -> pc s <= pc s' ->
  GInv s'.
Proof.
  intros s s' k f [G1 G2 G3 G4 G5 G6 G7 G8] EA ER EQ EX EL ET EI EP LO LE.
  constructor; rewrite ?ER, ?EQ, ?EX, ?EL, ?ET, ?EI; auto.
  - intros j a H. rewrite EA, nth_upd in H. destruct (Nat.eqb_spec j k) as [->|N].
    + destruct (nth_error (arbs s) k) as [a0|] eqn:E; [|discriminate]. inversion H; subst a.
      destruct (G1 k a0 E) as (I1 & I2 & I3). destruct (LO a0 eq_refl) as [L1 L2 L3 L4 L5 L6].
      unfold arb_ok. split; [auto | split; congruence].
    + destruct (G1 j a H) as (I1 & I2 & I3). unfold arb_ok. split; [eapply AInv_mono; eauto | split; auto].
  - intros j a H. rewrite EA, nth_upd in H. destruct (Nat.eqb_spec j k) as [->|N]; [|apply G5; auto].
    destruct (nth_error (arbs s) k) as [a0|] eqn:E; [|discriminate]. inversion H; subst a.
    destruct (LO a0 eq_refl) as [L1 L2 L3 L4 L5 L6]. intros Hp. rewrite L4 in Hp.
    destruct (G5 k a0 E Hp) as [D|D]; [left; auto | right; auto].
  - intros j a H Hp Hi. unfold doomed. rewrite EL, EX, EQ.
    rewrite EA, nth_upd in H. destruct (Nat.eqb_spec j k) as [->|N]; [|apply (G6 j); auto].
    destruct (nth_error (arbs s) k) as [a0|] eqn:E; [|discriminate]. inversion H; subst a.
    destruct (LO a0 eq_refl) as [L1 L2 L3 L4 L5 L6]. rewrite L4 in Hp.
    destruct (G6 k a0 E Hp Hi) as [D|D]; [left; auto | right; auto].
  - rewrite EA, upd_length. auto.
Qed.

Lemma upd_upd : forall A (f g : A -> A) l k, upd k g (upd k f l) = upd k (fun x => g (f x)) l.
Proof. induction l as [|x t IH]; intros [|k]; cbn; auto. now rewrite IH. Qed.

Lemma stopping_start_push : forall a, stopping (push Stop (start_task a)).
Proof. intros. apply stopping_push_stop. Qed.

Lemma start_fields : forall a, a_thr (start_task a) = a_thr a /\ a_sys (start_task a) = a_sys a
  /\ a_pre (start_task a) = a_pre a /\ ph (start_task a) = ph a.
Proof. intros. unfold start_task. destruct (ph a) eqn:P; auto. destruct (lq a); cbn; auto. Qed.

Lemma local_ok_start_plain : forall n a t q, ph a = Running -> lq a = t :: q -> tkind t <> KStopSelf ->
  local_ok n n a (start_task a).
Proof.
  intros n a t q P L K. destruct (start_fields a) as (F1 & F2 & F3 & F4). constructor; auto.
  - eapply AInv_start_plain; eauto.
  - congruence.
  - apply stopping_start.
Qed.

Lemma local_ok_start_self : forall n a t q, ph a = Running -> lq a = t :: q ->
  local_ok n n a (push Stop (start_task a)).
Proof.
  intros n a t q P L. destruct (start_fields a) as (F1 & F2 & F3 & F4). constructor.
  - eapply AInv_start_self; eauto.
  - now rewrite thr_push.
  - now rewrite sys_push.
  - now rewrite pre_push.
  - congruence.
  - intros _. apply stopping_push_stop.
Qed.

Lemma GInv_runner : forall s k, GInv s -> GInv (step s (LRunner k)).
Proof.
  intros s k G. cbn [step]. eapply (GInv_local s _ k runner); eauto; cbn; auto.
  - apply G.
  - intros. apply local_ok_runner.
Qed.

(* sys_send appends only while the system thread is inside run *)
Lemma sys_send_cases : forall c s, (alive s = true /\ sys_send c s = sysq s ++ [c]) \/ (alive s = false /\ sys_send c s = sysq s).
Proof. intros. unfold sys_send. destruct (alive s); auto. Qed.

Lemma reg_ok_send : forall rg q k a c, reg_ok rg q k a ->
  (c = Deregister k -> ph a = Dropped) -> reg_ok rg (q ++ [c]) k a.
Proof.
  intros rg q k a c R HC Hp. destruct (R Hp) as [D|[I N]]; [left; auto|].
  assert (In k rg \/ In (Register k) (pre_exit (q ++ [c]))) as I'.
  { destruct I as [I|I]; [left; auto | right; now apply pre_exit_snoc_in]. }
  destruct c as [e|r|d].
  - right. split; auto. intros X. apply in_app_or in X as [X|[X|[]]]; [auto | discriminate].
  - right. split; auto. intros X. apply in_app_or in X as [X|[X|[]]]; [auto | discriminate].
  - destruct (Nat.eq_dec d k) as [->|ND]; [left; auto|].
    right. split; auto. intros X. apply in_app_or in X as [X|[X|[]]]; [auto | congruence].
Qed.

Lemma reg_ok_sys_send : forall s k a c, reg_ok (reg s) (sysq s) k a ->
  (c = Deregister k -> ph a = Dropped) -> reg_ok (reg s) (sys_send c s) k a.
Proof.
  intros s k a c R HC. destruct (sys_send_cases c s) as [[_ ->]|[_ ->]]; auto. now apply reg_ok_send.
Qed.

(* frame: arbiter k moves locally and one command is sent to the system (not a Register) *)
Lemma GInv_local_send : forall s s' k f c,
  GInv s ->
  arbs s' = upd k f (arbs s) -> reg s' = reg s -> sysq s' = sys_send c s -> exitc s' = exitc s -> alive s' = alive s ->
  ret s' = ret s -> issued s' = (issued s || is_exit c) -> pc s' = length (olog s') ->
  (forall a, nth_error (arbs s) k = Some a -> local_ok (pc s) (pc s') a (f a)) -> pc s <= pc s' ->
  (forall j, c = Deregister j -> j = k /\ k < length (arbs s) /\ forall a, nth_error (arbs s) k = Some a -> ph (f a) = Dropped) ->
  (forall j, c <> Register j) ->
  GInv s'.
Proof.
  intros s s' k f c [G1 G2 G3 G4 G5 G6 G7 G8] EA ER EQ EX EL ET EI EP LO LE HD HR.
  constructor; rewrite ?ER, ?EQ, ?EX, ?EL, ?ET; auto.
  - intros j a H. rewrite EA, nth_upd in H. destruct (Nat.eqb_spec j k) as [->|N].
    + destruct (nth_error (arbs s) k) as [a0|] eqn:E; [|discriminate]. inversion H; subst a.
      destruct (G1 k a0 E) as (I1 & I2 & I3). destruct (LO a0 eq_refl) as [L1 L2 L3 L4 L5 L6].
      unfold arb_ok. split; [auto | split; congruence].
    + destruct (G1 j a H) as (I1 & I2 & I3). unfold arb_ok. split; [eapply AInv_mono; eauto | split; auto].
  - rewrite EI. intros Hi. apply orb_false_iff in Hi as [Hi Hc]. destruct (G2 Hi) as (A1 & A2 & A3).
    repeat split; auto. unfold sys_send. rewrite A1, has_exit_app, A3. cbn. now rewrite Hc.
  - intros j a H. rewrite EA, nth_upd in H. destruct (Nat.eqb_spec j k) as [->|N].
    + destruct (nth_error (arbs s) k) as [a0|] eqn:E; [|discriminate]. inversion H; subst a.
      destruct (LO a0 eq_refl) as [L1 L2 L3 L4 L5 L6].
      apply reg_ok_sys_send.
      * intros Hp. rewrite L4 in Hp. destruct (G5 k a0 E Hp) as [D|D]; [left; auto | right; auto].
      * intros Hc. destruct (HD k Hc) as (_ & _ & HD'). auto.
    + apply reg_ok_sys_send; [apply G5; auto|]. intros Hc. destruct (HD j Hc) as (HD' & _). congruence.
  - rewrite EI. intros j a H Hp Hi. unfold doomed. rewrite EL, EX, EQ.
    assert (exists a0, nth_error (arbs s) j = Some a0 /\ a_pre a0 = true /\ (stopping a0 -> stopping a)) as (a0 & E0 & P0 & S0).
    { rewrite EA, nth_upd in H. destruct (Nat.eqb_spec j k) as [->|N]; [|eauto].
      destruct (nth_error (arbs s) k) as [a0|] eqn:E; [|discriminate]. inversion H; subst a.
      destruct (LO a0 eq_refl) as [L1 L2 L3 L4 L5 L6]. exists a0. rewrite <- L4. auto. }
    destruct (issued s) eqn:Is.
    + destruct (G6 j a0 E0 P0 eq_refl) as [D|(D1 & D2 & D3)]; [left; auto|]. right. repeat split; auto.
      unfold sys_send. rewrite D1, has_exit_app, D3. auto.
    + cbn in Hi. destruct (G2 eq_refl) as (A1 & A2 & A3). right. repeat split; auto.
      unfold sys_send. rewrite A1, has_exit_app. cbn. rewrite Hi. apply orb_true_r.
  - rewrite EA, upd_length. intros j Hj. destruct (sys_send_cases c s) as [[_ Es]|[_ Es]]; rewrite Es in Hj; auto.
    apply in_app_or in Hj as [Hj|[Hj|[]]]; auto. destruct (HD j Hj) as (-> & B & _). auto.
Qed.

Lemma upd_id : forall A (l : list A) k, upd k (fun x => x) l = l.
Proof. induction l as [|x t IH]; intros [|k]; cbn; auto. now rewrite IH. Qed.

Lemma GInv_task : forall s k, GInv s -> GInv (step s (LTask k)).
Proof.
  intros s k G. cbn [step]. unfold task_step.
  destruct (nth_error (arbs s) k) as [a|] eqn:E; auto.
  destruct (ph a) eqn:P; auto. destruct (lq a) as [|t q] eqn:L; auto.
  destruct (tkind t) eqn:K.
  1,2,3: eapply (GInv_local s _ k start_task); eauto; cbn; try apply G; auto;
    intros a' E'; rewrite E in E'; inversion E'; subst a'; eapply local_ok_start_plain; eauto; congruence.
  - eapply (GInv_local_send s _ k start_task (Exit c)); eauto; cbn; try apply G; auto.
    + now rewrite orb_true_r.
    + intros a' E'; rewrite E in E'; inversion E'; subst a'; eapply local_ok_start_plain; eauto; congruence.
    + intros j Hj; discriminate.
    + intros j Hj; discriminate.
  - rewrite upd_upd. eapply (GInv_local s _ k (fun x => push Stop (start_task x))); eauto; cbn; try apply G; auto.
    intros a' E'; rewrite E in E'; inversion E'; subst a'; eapply local_ok_start_self; eauto.
Qed.

Lemma GInv_drop : forall s k, GInv s -> GInv (step s (LDrop k)).
Proof.
  intros s k G. cbn [step]. unfold drop_step.
  destruct (nth_error (arbs s) k) as [a|] eqn:E; auto. destruct (ph a) eqn:P; auto.
  eapply (GInv_local_send s _ k drop_arb (Deregister k)); eauto; cbn; try apply G; auto.
  - now rewrite orb_false_r.
  - intros a' E'; rewrite E in E'; inversion E'; subst a'. constructor; cbn; auto.
    + now apply AInv_drop.
    + intros. apply stopping_drop.
  - intros j Hj. inversion Hj. subst j. split; auto. split; [apply nth_error_Some; congruence|].
    intros a' E'. reflexivity.
  - intros j Hj; discriminate.
Qed.

Lemma GInv_sysret : forall s, GInv s -> GInv (step s LSysRet).
Proof.
  intros s G. cbn [step]. unfold sys_ret. destruct (alive s) eqn:A; auto. destruct (exitc s) as [c|] eqn:X; auto.
  destruct G as [G1 G2 G3 G4 G5 G6 G7 G8]. constructor; cbn; auto.
  - intros Hi. destruct (G2 Hi) as (_ & B & _). congruence.
  - intros _. congruence.
  - intros k a H Hp Hi. destruct (G6 k a H Hp Hi) as [D|(_ & D & _)]; [left; auto | congruence].
Qed.

Lemma arb_ok_iter : forall n k m a, arb_ok n k a -> arb_ok n k (Nat.iter m (push Stop) a).
Proof.
  intros n k m a. apply iter_push_inv. intros b (I1 & I2 & I3). unfold arb_ok.
  rewrite thr_push, sys_push. split; auto. now apply AInv_push_stop.
Qed.

Lemma iter_fields : forall m a, a_pre (Nat.iter m (push Stop) a) = a_pre a /\ ph (Nat.iter m (push Stop) a) = ph a.
Proof.
  induction m as [|m IH]; intros a; [auto|]. cbn [Nat.iter nat_rect]. rewrite pre_push, ph_push. apply IH.
Qed.

Lemma GInv_sys : forall s, GInv s -> GInv (step s LSys).
Proof.
  intros s G. cbn [step]. unfold sys_step. destruct (alive s) eqn:A; auto.
  destruct (sysq s) as [|[c|j|j] q] eqn:Q; auto; destruct G as [G1 G2 G3 G4 G5 G6 G7 G8].
  - (* Exit *)
    constructor; cbn; auto.
    + intros k a H. rewrite stop_all_nth in H. destruct (nth_error (arbs s) k) as [a0|] eqn:E; [|discriminate].
      inversion H. apply arb_ok_iter. auto.
    + intros Hi. destruct (G2 Hi) as (_ & _ & B). rewrite Q in B. discriminate.
    + congruence.
    + now rewrite A in *.
    + intros k a H. rewrite stop_all_nth in H. destruct (nth_error (arbs s) k) as [a0|] eqn:E; [|discriminate].
      inversion H. intros Hp. destruct (iter_fields (count_occ Nat.eq_dec (reg s) k) a0) as [F1 F2].
      rewrite F1 in Hp. rewrite F2. specialize (G5 k a0 E Hp). rewrite Q in G5. cbn in G5.
      destruct G5 as [D|[[I|[]] N]]; [left; auto | right; split; [left; auto | intros X; apply N; right; auto]].
    + intros k a H Hp Hi. left. rewrite stop_all_nth in H.
      destruct (nth_error (arbs s) k) as [a0|] eqn:E; [|discriminate]. inversion H.
      destruct (iter_fields (count_occ Nat.eq_dec (reg s) k) a0) as [F1 F2]. rewrite <- H1, F1 in Hp.
      destruct (G6 k a0 E Hp Hi) as [D|(_ & D2 & _)]; [now apply stopping_iter|].
      specialize (G5 k a0 E Hp). rewrite Q in G5. cbn in G5. destruct G5 as [D|[[I|[]] N]].
      * left. rewrite F2. congruence.
      * apply stopping_iter_pos. now apply count_occ_In.
    + intros j0 Hj. rewrite stop_all_length. apply G8. rewrite Q. right. auto.
  - (* Register *)
    constructor; cbn; auto.
    + intros Hi. destruct (G2 Hi) as (B1 & B2 & B3). rewrite Q in B3. cbn in B3. auto.
    + congruence.
    + now rewrite A in *.
    + intros k a H Hp. specialize (G5 k a H Hp). rewrite Q in G5. cbn in G5.
      destruct G5 as [D|[I N]]; auto. right. split; [|intros X; apply N; right; auto].
      destruct (Nat.eq_dec k j) as [->|ND]; [left; left; auto|].
      destruct I as [I|[I|I]]; [left; right; apply in_remove_nat; auto | congruence | right; auto].
    + intros k a H Hp Hi. destruct (G6 k a H Hp Hi) as [D|(D1 & D2 & D3)]; [left; auto|]. right.
      rewrite Q in D3. cbn in *. auto.
    + intros j0 Hj. apply G8. rewrite Q. right. auto.
  - (* Deregister *)
    constructor; cbn; auto.
    + intros Hi. destruct (G2 Hi) as (B1 & B2 & B3). rewrite Q in B3. cbn in B3. auto.
    + congruence.
    + now rewrite A in *.
    + intros k a H Hp. specialize (G5 k a H Hp). rewrite Q in G5. cbn in G5.
      destruct G5 as [D|[I N]]; auto. right. split; [|intros X; apply N; right; auto].
      assert (k <> j) by (intros ->; apply N; left; auto).
      destruct I as [I|[I|I]]; [left; apply in_remove_nat; auto | discriminate | right; auto].
    + intros k a H Hp Hi. destruct (G6 k a H Hp Hi) as [D|(D1 & D2 & D3)]; [left; auto|]. right.
      rewrite Q in D3. cbn in *. auto.
    + intros j0 Hj. apply G8. rewrite Q. right. auto.
Qed.

(* ---------- the coordinator ---------- *)
Lemma GInv_bump : forall s r ops', GInv s -> GInv (with_op s r ops' (arbs s) (sysq s) (issued s)).
Proof.
  intros s r ops' G. eapply (GInv_local s _ 0 (fun x => x)); eauto; try reflexivity;
    try (symmetry; apply upd_id).
  - cbn. rewrite app_length. cbn. rewrite (g_pc _ G). lia.
  - intros. apply local_ok_refl. cbn. lia.
  - cbn. lia.
Qed.

Lemma GInv_send_op : forall s ops' k c,
  (forall a, local_ok (pc s) (S (pc s)) a (push c a)) ->
  GInv s -> GInv (send_op s ops' k c).
Proof.
  intros s ops' k c LO G. unfold send_op. destruct (rx_alive k (arbs s)); [|now apply GInv_bump].
  eapply (GInv_local s _ k (push c)); eauto; try reflexivity.
  - cbn. rewrite app_length. cbn. rewrite (g_pc _ G). lia.
  - cbn. lia.
Qed.

Lemma GInv_wait_op : forall s ops' c r, GInv s -> GInv (wait_op s ops' c r).
Proof.
  intros. unfold wait_op. destruct c; [now apply GInv_bump|]. destruct (quiescent s); auto. now apply GInv_bump.
Qed.

Lemma GInv_new : forall s ops', GInv s ->
  GInv (with_op s RUnit ops' (arbs s ++ [mkArb [] [] Running [] (2 + length (arbs s)) 0 (negb (issued s)) []])
               (sys_send (Register (length (arbs s))) s) (issued s)).
Proof.
  intros s ops' [G1 G2 G3 G4 G5 G6 G7 G8]. constructor; cbn; auto.
  - intros k a H. apply nth_snoc in H as [[L H]|[-> ->]].
    + destruct (G1 k a H) as (I1 & I2 & I3). split; [eapply AInv_mono; [|eauto]; lia | auto].
    + split; [apply AInv_new | auto].
  - intros Hi. destruct (G2 Hi) as (A1 & A2 & A3). repeat split; auto.
    unfold sys_send. rewrite A1. cbv iota. unfold has_exit in *. rewrite existsb_app, A3. reflexivity.
  - intros k a H. apply nth_snoc in H as [[L H]|[-> ->]].
    + apply reg_ok_sys_send; auto. discriminate.
    + intros Hp. cbn in Hp. apply negb_true_iff in Hp. destruct (G2 Hp) as (A1 & A2 & A3).
      right. unfold sys_send. rewrite A1. split.
      * right. apply pre_exit_snoc_new; auto.
      * intros X. apply in_app_or in X as [X|[X|[]]]; [|discriminate]. specialize (G8 _ X). lia.
  - intros k a H Hp Hi. apply nth_snoc in H as [[L H]|[-> ->]].
    + destruct (G6 k a H Hp Hi) as [D|(D1 & D2 & D3)]; [left; auto|]. right. repeat split; auto.
      cbn. unfold sys_send. rewrite D1. cbv iota. unfold has_exit in *. rewrite existsb_app, D3. reflexivity.
    + cbn in Hp. rewrite Hi in Hp. discriminate.
  - rewrite app_length. cbn. lia.
  - intros j Hj. rewrite app_length. cbn.
    destruct (sys_send_cases (Register (length (arbs s))) s) as [[_ Es]|[_ Es]]; rewrite Es in Hj.
    + apply in_app_or in Hj as [Hj|[Hj|[]]]; [specialize (G8 _ Hj); lia | discriminate].
    + specialize (G8 _ Hj). lia.
Qed.

Lemma GInv_coord : forall s, GInv s -> GInv (step s LCoord).
Proof.
  intros s G. cbn [step]. unfold coord. destruct (rest s) as [|o ops']; auto.
  destruct o as [|k kd|k|c| |k|k|k i].
  - now apply GInv_new.
  - apply GInv_send_op; auto. intros. apply local_ok_push_exec.
  - apply GInv_send_op; auto. intros. eapply local_ok_trans; [apply local_ok_push_stop | apply local_ok_refl; lia].
  - eapply (GInv_local_send s _ 0 (fun x => x) (Exit c)); eauto; try reflexivity;
      try (symmetry; apply upd_id); try (intros j Hj; discriminate).
    + cbn. now rewrite orb_true_r.
    + cbn. rewrite app_length. cbn. rewrite (g_pc _ G). lia.
    + intros. apply local_ok_refl. cbn. lia.
    + cbn. lia.
  - now apply GInv_wait_op.
  - now apply GInv_wait_op.
  - now apply GInv_bump.
  - now apply GInv_wait_op.
Qed.

Theorem GInv_step : forall s l, GInv s -> GInv (step s l).
Proof.
  intros s [| k | k | | | k] G.
  - now apply GInv_coord.
  - now apply GInv_runner.
  - now apply GInv_task.
  - now apply GInv_sys.
  - now apply GInv_sysret.
  - now apply GInv_drop.
Qed.

Lemma fold_step_inv : forall (P : st -> Prop), (forall s l, P s -> P (step s l)) ->
  forall sched s, P s -> P (fold_left step sched s).
Proof. intros P H. induction sched as [|l t IH]; intros s Ps; cbn; auto. Qed.

Theorem GInv_run : forall ops sched, GInv (run ops sched).
Proof. intros. unfold run. apply fold_step_inv; [apply GInv_step | apply GInv_init]. Qed.
