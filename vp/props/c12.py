"""C12 — combinator readiness and polling obey the Service and Future contracts."""
import re
from common import Stream
from props import c11 as base

META = dict(base.META)
META.update({
    "id": "C12",
    "technique": "Coq proof (exact characterisation of poll_ready by structural induction; liveness invariant over future states "
                 "preserved by every Pending poll) + extracted-model vs real-combinator differential run with waker identities",
    "level_text": "C12_ready_conj / C12_ready_polls_all / C12_ready_state / C12_waker / C12_pending_has_cause / C12_ready_err hold for ALL "
                  "service trees, ALL readiness scripts (arbitrary answer lists) and wakers (exact characterisation of one poll_ready: "
                  "result = conjunction, every leaf polled once in order with the current waker unless an earlier leaf erred, first error "
                  "mapped through the map_err closures above it); C12_future_polls for EVERY poll of the future of ANY tree and request "
                  "(no panic, no poll after completion, current waker only, Pending only if the last inner poll answered Pending; any fuel); "
                  "C12_factory_polls the same for ALL factory trees (is_none guards, Option::take, A/B/C state machines). "
                  "Tied to /repo/actix-service by the differential run: every leaf poll is logged with the identity of the waker "
                  "it was given (fresh per top-level poll, read back from the RawWaker data pointer); leaves record polls after completion.",
    "rule": "stream svc12: random service trees as in C11 with readiness-heavy op scripts (1..4 poll_ready, then calls); plus the small "
            "exhaustive family. Non-trivial = some poll_ready answers Pending or an error, or some call goes through a Pending poll. "
            "stream fac12: random factory trees (concurrent and sequential init futures, apply_cfg_factory readiness wait).",
})


def ready_err_expected(ms, e0):
    for m in ms:
        e0 = base.app_m(m, e0)
    return e0


def count_ready(evs, polled):
    for e in evs:
        m = re.match(r"r(\d+)@", e)
        if m and m.group(1) in polled:
            polled[m.group(1)] += 1


def why_svc(case, impl, model):
    """the C12 predicates on the implementation trace of a service case ('' = holds)"""
    obs = base.parse_trace(impl)
    if obs is None:
        return "crash"
    tree = base.sx_parse(base.split_case(case)[0])
    return check_obs(base.svc_leaves(tree), obs, 0, None)


def check_obs(leaves, obs, w0, polled0):
    scripts = {i: base.rs_list(s) for i, s, _ in leaves}
    mappers = {i: m for i, _, m in leaves}
    polled = {i: 0 for i in scripts}
    if polled0:
        polled.update(polled0)
    w = w0
    for kind, evs, res in obs:
        if kind == "R":
            revs = []
            for e in evs:
                m = re.match(r"r(\d+)@(\S+):(p|o|e-?\d+)$", e)
                if m:
                    revs.append((m.group(1), m.group(2), m.group(3)))
            # expected next answers at entry
            nxt = {i: (scripts[i][polled[i]] if polled[i] < len(scripts[i]) else "o") for i in scripts}
            answers = [a for _, _, a in revs]
            if res == "X":
                return "ready-panic"
            if res == "o":
                # ready only if every inner service is ready (each polled now, with this waker, answered Ok)
                ids = [i for i, _, _ in revs]
                if sorted(ids) != sorted(scripts.keys()) or any(a != "o" for a in answers):
                    return "ready-conj"
                if any(ww != str(w) for _, ww, _ in revs):
                    return "ready-waker"
            elif res == "p":
                if any(a.startswith("e") for a in answers):
                    return "ready-err-lost"
                for i in scripts:
                    if nxt[i] == "p" and (i, str(w), "p") not in revs:
                        return "waker"
            elif res.startswith("e"):
                errs = [(i, a) for i, _, a in revs if a.startswith("e")]
                if not errs:
                    return "ready-err-spurious"
                i, a = errs[0]
                if str(ready_err_expected(mappers.get(i, []), int(a[1:]))) != res[1:]:
                    return "ready-err-map"
            else:
                return "shape"
            if res == "o" and any(a == "p" for a in answers):
                return "ready-conj"
            for i, _, _ in revs:
                if i in polled:
                    polled[i] += 1
            w += 1
        elif kind == "C":
            r, _, np = res.partition("/")
            try:
                np = int(np)
            except ValueError:
                return "shape"
            if r == "X":
                return "panic"
            if r == "P":
                return "stuck"
            if any(e[0] in "xy" for e in evs):
                return "repoll"
            # group future polls by waker
            last = {}
            order = []
            for e in evs:
                m = re.match(r"f(\d+)@(\S+):(\S+)$", e)
                if m:
                    ww = m.group(2)
                    if not ww.isdigit() or not (w <= int(ww) < w + np):
                        return "future-waker"
                    if order and int(ww) < order[-1]:
                        return "future-waker"
                    order.append(int(ww))
                    last[int(ww)] = m.group(3)
            for k in range(w, w + np - 1):
                # this poll returned Pending: the inner future polled last in it must have answered Pending
                if last.get(k) != "p":
                    return "pending-only-if"
            # a later stage is entered at most once per call
            calls = [e for e in evs if e[0] == "c"]
            ids = [re.match(r"c(\d+)\(", e).group(1) for e in calls]
            if len(ids) != len(set(ids)):
                return "stage-twice"
            w += np
        else:
            return "shape"
    return ""


def why_fac(case, impl, model):
    """C12 on a factory case: the polls of the factory future, then the ops on the built service"""
    obs = base.parse_trace(impl)
    if obs is None or not obs or obs[0][0] != "N":
        return "crash"
    tree = base.sx_parse(base.split_case(case)[0])
    leaves = base.fac_leaves(tree)
    _, evs, res = obs[0]
    r, _, np = res.partition("/")
    try:
        np = int(np)
    except ValueError:
        return "shape"
    if r == "X":
        return "factory-panic"
    if r == "P":
        return "factory-stuck"
    if any(e[0] in "xy" for e in evs):
        return "factory-repoll"
    pend = set()
    order = []
    for e in evs:
        m = re.match(r"[ir](\d+)@(\S+):(\S+)$", e)
        if m:
            ww = m.group(2)
            if not ww.isdigit() or not (0 <= int(ww) < np):
                return "factory-waker"
            if order and int(ww) < order[-1]:
                return "factory-waker"
            order.append(int(ww))
            if m.group(3) == "p":
                pend.add(int(ww))
    for k in range(np - 1):
        # this poll returned Pending: some inner future / readiness must have answered Pending to its waker
        if k not in pend:
            return "factory-pending-only-if"
    # every leaf factory at most once
    news = [e for e in evs if e[0] == "n"]
    if len(news) != len(set(re.match(r"n(\d+)", e).group(1) for e in news)):
        return "factory-twice"
    polled = {i: 0 for i, _, _ in leaves}
    count_ready(evs, polled)
    return check_obs(leaves, obs[1:], np, polled)


def monitor_fac(case, impl, model):
    return why_fac(case, impl, model) == ""


def monitor_svc(case, impl, model):
    return why_svc(case, impl, model) == ""


def nontrivial(case, model):
    tr, _ = base.split_model(model)
    obs = base.parse_trace(tr) or []
    return any((k == "R" and res != "o") or (k == "C" and any(e.endswith(":p") for e in evs)) for k, evs, res in obs)


def streams(ctx):
    n = 6000 if ctx.tier == "quick" else 150000
    ex = base.exhaustive_small(ctx.tier != "quick")
    cases = ex + [base.gen_svc_case(ctx.rng, True) for _ in range(n)]
    s1 = Stream("svc12", "svc", cases, monitor=monitor_svc, nontrivial=nontrivial, shrink=base.shrink_svc,
                compare=base.compare, to_coq=base.to_coq_svc, coq_imports=base.COQ_IMPORTS, finding_key=lambda c, i, m: why_svc(c, i, m),
                describe="%d structured + %d random service trees, readiness-heavy ops" % (len(ex), n))
    nf = 6000 if ctx.tier == "quick" else 150000
    exf = base.exhaustive_fac_small()
    fcases = exf + [base.gen_fac_case(ctx.rng, True) for _ in range(nf)]
    s2 = Stream("fac12", "fac", fcases, monitor=monitor_fac, nontrivial=base.nontrivial_fac, shrink=base.shrink_fac,
                compare=base.compare, to_coq=base.to_coq_fac, coq_imports=base.COQ_IMPORTS, finding_key=lambda c, i, m: why_fac(c, i, m),
                describe="%d structured + %d random factory trees, then readiness-heavy ops" % (len(exf), nf))
    return [s1, s2]
