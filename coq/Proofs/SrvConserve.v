(* Proofs/SrvConserve.v — C01, part 1: where a connection can be, counting, and the algebra of the
   postconditions that are carried through every function of Model/Srv.v.

   A connection id is, at any time, in one of four kinds of places:
     backlog_ids : in the accept queue of a listener (connected, not yet accepted)
     queued      : in the connection queue of a worker generation (sent, not yet picked up)
     picked      : picked up by a worker (a counter guard is alive for it)
     gone        : left the system with an explicit ghost event
                   (EvReleased / EvLost / EvDropNoWorker / EvConnFail)
   All statements are per id [c], as inequalities between occurrence counts, so that the walk through
   the model is linear arithmetic ([lia]) plus list facts.  Nothing here depends on the fault-free
   hypothesis of SrvInv.v: Kill/Respawn, panics and spins of the accept loop are all covered (a
   connection in the hand of an accept loop that panics is the only way to vanish: [err <> None]). *)
From Coq Require Import List Arith ZArith NArith Bool Lia.
From AN Require Import Model.Srv Proofs.ListFacts.
Import ListNotations.

(* ---------- counting ---------- *)
Definition cnt (c : N) (l : list N) : nat := count_occ N.eq_dec l c.
Arguments cnt : simpl never.

(* [lia] is confused by equations between N-valued projections that also occur below [cnt]: drop them first *)
Ltac clia :=
  repeat match goal with
         | H : @eq N _ _ |- _ => clear H
         | H : ~ @eq N _ _ |- _ => clear H
         end; lia.

Lemma cnt_nil c : cnt c [] = 0.
Proof. reflexivity. Qed.

Lemma cnt_app c l1 l2 : cnt c (l1 ++ l2) = cnt c l1 + cnt c l2.
Proof. apply count_occ_app. Qed.

Lemma cnt_cons c x l : cnt c (x :: l) = cnt c [x] + cnt c l.
Proof. change (x :: l) with ([x] ++ l). apply cnt_app. Qed.

Lemma cnt_one_eq c : cnt c [c] = 1.
Proof. unfold cnt. cbn [count_occ]. destruct (N.eq_dec c c); congruence. Qed.

Lemma cnt_one_le c x : cnt c [x] <= 1.
Proof. unfold cnt. cbn [count_occ]. destruct (N.eq_dec x c); lia. Qed.

Lemma cnt_In c l : In c l <-> 1 <= cnt c l.
Proof. unfold cnt. rewrite (count_occ_In N.eq_dec). lia. Qed.

Lemma NoDup_cnt l : NoDup l <-> forall c, cnt c l <= 1.
Proof. apply NoDup_count_occ. Qed.

Lemma cnt_rev c l : cnt c (rev l) = cnt c l.
Proof. apply count_occ_rev. Qed.

Lemma cnt_flat_map_app {A} (f : A -> list N) c l1 l2 :
  cnt c (flat_map f (l1 ++ l2)) = cnt c (flat_map f l1) + cnt c (flat_map f l2).
Proof. now rewrite flat_map_app, cnt_app. Qed.

Lemma cnt_flat_map_replace {A} (f : A -> list N) c n x y l :
  nth_error l n = Some x ->
  cnt c (flat_map f (replace_nth n y l)) + cnt c (f x) = cnt c (flat_map f l) + cnt c (f y).
Proof.
  revert n; induction l as [|h t IH]; intros [|n] H; cbn in H; try discriminate.
  - injection H as ->. cbn. rewrite !cnt_app. lia.
  - cbn. rewrite !cnt_app. specialize (IH _ H). lia.
Qed.

Lemma cnt_concat_replace c n (x y : list N) l :
  nth_error l n = Some x ->
  cnt c (concat (replace_nth n y l)) + cnt c x = cnt c (concat l) + cnt c y.
Proof.
  revert n; induction l as [|h t IH]; intros [|n] H; cbn in H; try discriminate.
  - injection H as ->. cbn. rewrite !cnt_app. lia.
  - cbn. rewrite !cnt_app. specialize (IH _ H). lia.
Qed.

Lemma map_replace_nth {A B} (f : A -> B) n x l : map f (replace_nth n x l) = replace_nth n (f x) (map f l).
Proof. revert n; induction l as [|h t IH]; intros [|n]; cbn; congruence. Qed.

Lemma nth_error_replace_nth_inv {A} n m (x y : A) l :
  nth_error (replace_nth n x l) m = Some y ->
  (m = n /\ y = x /\ n < length l) \/ (m <> n /\ nth_error l m = Some y).
Proof.
  rewrite nth_error_replace_nth. destruct (Nat.eqb_spec n m) as [<-|Hne].
  - destruct (Nat.ltb_spec n (length l)); [|discriminate]. intros E. injection E as <-. left. auto.
  - intros E. right. split; [congruence|exact E].
Qed.

(* ---------- the places ---------- *)
Definition wq_ids (w : worker) : list N := map c_id (w_queue w).
Definition wp_ids (w : worker) : list N := map c_id (w_picked w).

Definition bl (st : state) : list (list N) := map l_backlog (lsts st).
Definition backlog_ids (st : state) : list N := concat (bl st).
Definition queued (st : state) : list N := flat_map wq_ids (ws st).
Definition picked (st : state) : list N := flat_map wp_ids (ws st).

(* new constructors of [event] (other ghost events) fall into the default branches *)
Definition ev_gone (e : event) : list N :=
  match e with
  | EvReleased c | EvLost c | EvDropNoWorker c => [c]
  | EvConnFail c _ => [c]
  | _ => []
  end.
Definition ev_disp (e : event) : list N :=
  match e with EvDispatch c _ _ _ _ => [c] | _ => [] end.

Definition gone_of (tr : list event) : list N := flat_map ev_gone tr.
Definition disp_of (tr : list event) : list N := flat_map ev_disp tr.
Definition gone (st : state) : list N := gone_of (trace st).
Definition disp (st : state) : list N := disp_of (trace st).

Definition places (st : state) : list N := backlog_ids st ++ queued st ++ picked st ++ gone st.

(* per id: how often it occurs in the places; how often it is "not yet dispatched or dispatched" *)
Definition tot (c : N) (st : state) : nat :=
  cnt c (backlog_ids st) + cnt c (queued st) + cnt c (picked st) + cnt c (gone st).
Definition und (c : N) (st : state) : nat := cnt c (backlog_ids st) + cnt c (disp st).

Lemma tot_places c st : cnt c (places st) = tot c st.
Proof. unfold places, tot. rewrite !cnt_app. lia. Qed.

(* events that move no connection *)
Definition neutral (e : event) : bool :=
  match e with
  | EvDispatch _ _ _ _ _ | EvDropNoWorker _ | EvConnFail _ _ | EvLost _ | EvReleased _ | EvFaulted _ => false
  | _ => true
  end.

Lemma neutral_gone e : neutral e = true -> ev_gone e = [].
Proof. destruct e; cbn; congruence. Qed.
Lemma neutral_disp e : neutral e = true -> ev_disp e = [].
Proof. destruct e; cbn; congruence. Qed.

(* fault events: only a Kill can cause them *)
Definition fault_ev (e : event) : bool :=
  match e with EvLost _ | EvDropNoWorker _ | EvFaulted _ => true | _ => false end.
Definition NoFault (tr : list event) : Prop := Forall (fun e => fault_ev e = false) tr.
Definition AllOpen (st : state) : Prop := forall g w, nth_error (ws st) g = Some w -> w_open w = true.

(* ---------- ids used by a script ---------- *)
Definition eop_conns (o : eop) : list (nat * N) := match o with Connect tok c => [(tok, c)] | _ => [] end.
Definition ys_conns (ys : ysched) : list (nat * N) := flat_map (flat_map eop_conns) ys.
Definition ycids (ys : ysched) : list N := map snd (ys_conns ys).
Definition yc (c : N) (ys : ysched) : nat := cnt c (ycids ys).

Definition nk_eop (o : eop) : bool := match o with Kill _ => false | _ => true end.
Definition nk_ys (ys : ysched) : bool := forallb (forallb nk_eop) ys.

Lemma ycids_cons y ys : ycids (y :: ys) = map snd (flat_map eop_conns y) ++ ycids ys.
Proof. unfold ycids, ys_conns. cbn. now rewrite map_app. Qed.

Lemma yc_cons c y ys : yc c (y :: ys) = cnt c (map snd (flat_map eop_conns y)) + yc c ys.
Proof. unfold yc. now rewrite ycids_cons, cnt_app. Qed.

Lemma yc_app c y1 y2 : yc c (y1 ++ y2) = yc c y1 + yc c y2.
Proof. unfold yc, ycids, ys_conns. now rewrite flat_map_app, map_app, cnt_app. Qed.

Lemma yc_nil c : yc c [] = 0.
Proof. reflexivity. Qed.

Lemma yc_hd_tl c ys : yc c ys = yc c [hd [] ys] + yc c (tl ys).
Proof. destruct ys as [|y r]; [reflexivity|]. cbn [hd tl]. rewrite (yc_cons c y r), (yc_cons c y []), yc_nil. lia. Qed.

(* ---------- trace extensions ---------- *)
Lemma gone_of_app t1 t2 : gone_of (t1 ++ t2) = gone_of t1 ++ gone_of t2.
Proof. apply flat_map_app. Qed.
Lemma disp_of_app t1 t2 : disp_of (t1 ++ t2) = disp_of t1 ++ disp_of t2.
Proof. apply flat_map_app. Qed.

Lemma neutral_all evs : forallb neutral evs = true -> gone_of evs = [] /\ disp_of evs = [].
Proof.
  induction evs as [|e r IH]; intros H; [split; reflexivity|]. cbn [forallb] in H.
  apply andb_true_iff in H as [He Hr]. unfold gone_of, disp_of in *. cbn [flat_map].
  destruct (IH Hr) as [-> ->]. now rewrite (neutral_gone e He), (neutral_disp e He).
Qed.

Lemma neutral_nofault evs : forallb neutral evs = true -> NoFault evs.
Proof.
  intros H. apply Forall_forall. intros e He. rewrite forallb_forall in H. specialize (H e He).
  destruct e; cbn in *; congruence.
Qed.

Lemma NoFault_app t1 t2 : NoFault t1 -> NoFault t2 -> NoFault (t1 ++ t2).
Proof. intros H1 H2. apply Forall_app. split; assumption. Qed.

(* a state change that touches only one part *)
Lemma tot_change c st st' evs :
  ws st' = ws st -> bl st' = bl st -> trace st' = evs ++ trace st ->
  tot c st' = tot c st + cnt c (gone_of evs) /\ und c st' = und c st + cnt c (disp_of evs).
Proof.
  intros Hw Hb Ht. unfold tot, und, backlog_ids, queued, picked, gone, disp.
  rewrite Hw, Hb, Ht, gone_of_app, disp_of_app, !cnt_app. lia.
Qed.

Lemma tot_upd_ws c st st' g w w' evs :
  nth_error (ws st) g = Some w -> ws st' = replace_nth g w' (ws st) -> bl st' = bl st ->
  trace st' = evs ++ trace st ->
  tot c st' + cnt c (wq_ids w) + cnt c (wp_ids w) =
    tot c st + cnt c (wq_ids w') + cnt c (wp_ids w') + cnt c (gone_of evs) /\
  und c st' = und c st + cnt c (disp_of evs).
Proof.
  intros Hg Hw Hb Ht. unfold tot, und, backlog_ids, queued, picked, gone, disp.
  rewrite Hw, Hb, Ht, gone_of_app, disp_of_app, !cnt_app.
  pose proof (cnt_flat_map_replace wq_ids c g w w' (ws st) Hg).
  pose proof (cnt_flat_map_replace wp_ids c g w w' (ws st) Hg). lia.
Qed.

Lemma tot_upd_bl c st st' tok b b' :
  nth_error (bl st) tok = Some b -> bl st' = replace_nth tok b' (bl st) -> ws st' = ws st ->
  trace st' = trace st ->
  tot c st' + cnt c b = tot c st + cnt c b' /\ und c st' + cnt c b = und c st + cnt c b'.
Proof.
  intros Hg Hb Hw Ht. unfold tot, und, backlog_ids, queued, picked, gone, disp.
  rewrite Hw, Hb, Ht. pose proof (cnt_concat_replace c tok b b' (bl st) Hg). lia.
Qed.

Lemma bl_upd_lst st tok l : bl (upd_lst st tok l) = replace_nth tok (l_backlog l) (bl st).
Proof. unfold bl, upd_lst. cbn. apply map_replace_nth. Qed.

Lemma bl_nth st tok l : nth_error (lsts st) tok = Some l -> nth_error (bl st) tok = Some (l_backlog l).
Proof. intros H. unfold bl. now apply map_nth_error. Qed.

Lemma replace_nth_same {A} n (x : A) l : nth_error l n = Some x -> replace_nth n x l = l.
Proof. revert n; induction l as [|h t IH]; intros [|n] H; cbn in *; try discriminate; [congruence|]. f_equal. auto. Qed.

(* ---------- quiet steps: no connection moves ---------- *)
Definition Quiet (st st' : state) : Prop :=
  ws st' = ws st /\ bl st' = bl st /\
  (exists evs, trace st' = evs ++ trace st /\ forallb neutral evs = true) /\
  (err st' = None -> err st = None).

Lemma Quiet_refl st : Quiet st st.
Proof. split; [reflexivity|]. split; [reflexivity|]. split; [exists []; split; reflexivity|auto]. Qed.

Lemma Quiet_trans s0 s1 s2 : Quiet s0 s1 -> Quiet s1 s2 -> Quiet s0 s2.
Proof.
  intros (A1 & A2 & (e1 & A3 & A4) & A5) (B1 & B2 & (e2 & B3 & B4) & B5).
  split; [congruence|]. split; [congruence|]. split; [|auto].
  exists (e2 ++ e1). split; [rewrite B3, A3; apply app_assoc|]. rewrite forallb_app. now rewrite B4, A4.
Qed.

Ltac quiet_same := split; [reflexivity|]; split; [reflexivity|]; split; [exists []; split; reflexivity|]; cbn; auto.

Lemma Quiet_set_err st b : Quiet st (set_err st b).
Proof. quiet_same. destruct (err st); [discriminate|auto]. Qed.
Lemma Quiet_set_next st v : Quiet st (set_next_ st v).
Proof. quiet_same. Qed.
Lemma Quiet_set_handles st v : Quiet st (set_handles st v).
Proof. quiet_same. Qed.
Lemma Quiet_set_av st v : Quiet st (set_av st v).
Proof. quiet_same. Qed.
Lemma Quiet_set_paused st v : Quiet st (set_paused st v).
Proof. quiet_same. Qed.
Lemma Quiet_set_stopped st v : Quiet st (set_stopped st v).
Proof. quiet_same. Qed.
Lemma Quiet_set_ptimeout st v : Quiet st (set_ptimeout st v).
Proof. quiet_same. Qed.
Lemma Quiet_set_wq st v p : Quiet st (set_wq st v p).
Proof. quiet_same. Qed.
Lemma Quiet_set_now st v : Quiet st (set_now st v).
Proof. quiet_same. Qed.
Lemma Quiet_wake st i : Quiet st (wake st i).
Proof. quiet_same. Qed.

Lemma Quiet_av_set st i v : Quiet st (av_set st i v).
Proof. unfold av_set. destruct (set (av st) i v); [apply Quiet_set_av|apply Quiet_set_err]. Qed.
Lemma Quiet_av_get st i : Quiet st (fst (av_get st i)).
Proof. unfold av_get. destruct (get (av st) i); cbn [fst]; [apply Quiet_refl|apply Quiet_set_err]. Qed.
Lemma Quiet_do_set_next st : Quiet st (do_set_next st).
Proof. unfold do_set_next. destruct (length (handles st)); [apply Quiet_set_err|apply Quiet_set_next]. Qed.
Lemma Quiet_set_timeout st d : Quiet st (set_timeout st d).
Proof. unfold set_timeout. destruct (ptimeout st) as [t|]; [destruct (N.ltb d t)|]; try apply Quiet_refl; apply Quiet_set_ptimeout. Qed.

Lemma Quiet_emit st e : neutral e = true -> Quiet st (emit st e).
Proof.
  intros He. split; [reflexivity|]. split; [reflexivity|]. split; [|auto].
  exists [e]. split; [reflexivity|]. cbn. now rewrite He.
Qed.

Lemma Quiet_set_lsts st ls : map l_backlog ls = bl st -> Quiet st (set_lsts st ls).
Proof. intros H. split; [reflexivity|]. split; [exact H|]. split; [exists []; split; reflexivity|auto]. Qed.

Lemma Quiet_map_lsts st (f : lst -> lst) :
  (forall l, l_backlog (f l) = l_backlog l) -> Quiet st (set_lsts st (map f (lsts st))).
Proof.
  intros H. apply Quiet_set_lsts. unfold bl. rewrite map_map. apply map_ext. exact H.
Qed.

Lemma register_backlog l : l_backlog (register l) = l_backlog l.
Proof. unfold register. destruct (l_reg l); reflexivity. Qed.

Lemma Quiet_deregister_all st : Quiet st (deregister_all st).
Proof. unfold deregister_all. apply Quiet_map_lsts. intros l. destruct (l_to l); reflexivity. Qed.

Lemma Quiet_upd_lst st tok l l' :
  nth_error (lsts st) tok = Some l -> l_backlog l' = l_backlog l -> Quiet st (upd_lst st tok l').
Proof.
  intros Hl Hb. split; [reflexivity|]. split; [|split; [exists []; split; reflexivity|auto]].
  rewrite bl_upd_lst, Hb. apply replace_nth_same. now apply bl_nth.
Qed.

Lemma process_timeout_bl p nw ls : forall done pt,
  map l_backlog (fst (fold_left (process_one_timeout p nw) ls (done, pt))) = map l_backlog done ++ map l_backlog ls.
Proof.
  induction ls as [|l ls IH]; intros done pt; cbn [fold_left]; [cbn; now rewrite app_nil_r|].
  unfold process_one_timeout at 2.
  destruct (l_to l) as [inst|]; [destruct (N.ltb nw inst); [|destruct p]|];
    rewrite IH, map_app; cbn [map]; rewrite <- app_assoc; cbn [app]; rewrite ?register_backlog; reflexivity.
Qed.

Lemma Quiet_process_timeout st : Quiet st (process_timeout st).
Proof.
  unfold process_timeout. destruct (ptimeout st); [|apply Quiet_refl].
  pose proof (process_timeout_bl (paused st) (now st) (lsts st) [] None) as H.
  destruct (fold_left _ _ _) as [ls pt]. cbn [fst map app] in H.
  eapply Quiet_trans; [apply Quiet_set_lsts; exact H|apply Quiet_set_ptimeout].
Qed.

(* ====================================================================================================
   The invariant and the postcondition carried through the model.
   [P] is a fixed set of (listener token, connection id) pairs: "id c was connected to listener tok";
   [nl] is the number of listeners. *)
Section Walk.
Variable L : Z.
Variable nl : nat.
Variable P : list (nat * N).

Definition eop_ok (o : eop) : Prop := match o with Connect tok c => tok < nl -> In (tok, c) P | _ => True end.
Definition ys_ok (ys : ysched) : Prop := Forall (Forall eop_ok) ys.
Definition known (c : N) : Prop := exists tok, In (tok, c) P.
Definition ev_ok (e : event) : Prop :=
  match e with
  | EvDispatch c tok _ _ _ => In (tok, c) P
  | EvConnFail c tok => In (tok, c) P
  | EvReleased c | EvLost c | EvDropNoWorker c => known c
  | _ => True
  end.
Definition hand_ok (x : conn) : Prop := In (c_tok x, c_id x) P.

(* state invariant: every id in a backlog belongs to that listener; every connection held by a worker
   carries the token of its listener and has a dispatch event to exactly that worker generation; every
   event concerns a known id *)
Definition SInv (st : state) : Prop :=
  length (bl st) = nl /\
  (forall tok b c, nth_error (bl st) tok = Some b -> In c b -> In (tok, c) P) /\
  (forall g w x, nth_error (ws st) g = Some w -> In x (w_queue w ++ w_picked w) ->
     hand_ok x /\ exists n, In (EvDispatch (c_id x) (c_tok x) g (w_idx w) n) (trace st)) /\
  Forall ev_ok (trace st).

Lemma neutral_ev_ok e : neutral e = true -> ev_ok e.
Proof. destruct e; cbn; intros H; try exact I; discriminate. Qed.

Lemma SInv_gen st st' :
  SInv st ->
  length (bl st') = length (bl st) ->
  (forall tok b c, nth_error (bl st') tok = Some b -> In c b ->
     (exists b0, nth_error (bl st) tok = Some b0 /\ In c b0) \/ In (tok, c) P) ->
  (exists evs, trace st' = evs ++ trace st /\ Forall ev_ok evs) ->
  (forall g w' x, nth_error (ws st') g = Some w' -> In x (w_queue w' ++ w_picked w') ->
     (exists w, nth_error (ws st) g = Some w /\ w_idx w' = w_idx w /\ In x (w_queue w ++ w_picked w)) \/
     (hand_ok x /\ exists n, In (EvDispatch (c_id x) (c_tok x) g (w_idx w') n) (trace st'))) ->
  SInv st'.
Proof.
  intros (I1 & I2 & I3 & I4) Hlen Hbl (evs & Htr & Hevs) Hws. unfold SInv.
  split; [congruence|]. split; [|split].
  - intros tok b c Hb Hc. destruct (Hbl _ _ _ Hb Hc) as [(b0 & Hb0 & Hc0)|H]; [eauto|exact H].
  - intros g w' x Hg Hx. destruct (Hws _ _ _ Hg Hx) as [(w & Hw & Hi & Hin)|H]; [|exact H].
    destruct (I3 _ _ _ Hw Hin) as (Hh & n & Hn). split; [exact Hh|]. exists n. rewrite Htr, Hi.
    apply in_or_app. now right.
  - rewrite Htr. apply Forall_app. split; assumption.
Qed.

(* replacing one worker record whose connections all come from the old record *)
Lemma SInv_upd_ws st st' g w w' evs :
  SInv st -> nth_error (ws st) g = Some w -> ws st' = replace_nth g w' (ws st) -> bl st' = bl st ->
  trace st' = evs ++ trace st -> Forall ev_ok evs -> w_idx w' = w_idx w ->
  (forall x, In x (w_queue w' ++ w_picked w') -> In x (w_queue w ++ w_picked w)) ->
  SInv st'.
Proof.
  intros HI Hg Hw Hb Ht Hev Hi Hsub. eapply SInv_gen; [exact HI|now rewrite Hb| |eauto|].
  - intros tok b c Hb0 Hc. left. rewrite Hb in Hb0. eauto.
  - intros g0 w0 x H0 Hx. left. rewrite Hw in H0.
    destruct (nth_error_replace_nth_inv _ _ _ _ _ H0) as [(-> & -> & _)|(Hne & H1)].
    + exists w. auto.
    + exists w0. auto.
Qed.

Lemma AllOpen_upd_ws st st' g w' :
  AllOpen st -> ws st' = replace_nth g w' (ws st) -> w_open w' = true -> AllOpen st'.
Proof.
  intros HA Hw Ho g0 w0 H0. rewrite Hw in H0.
  destruct (nth_error_replace_nth_inv _ _ _ _ _ H0) as [(-> & -> & _)|(Hne & H1)]; [exact Ho|eauto].
Qed.

(* ---------- the postcondition ---------- *)
Definition hc (c : N) (a : list conn) : nat := cnt c (map c_id a).

(* a, b: connections "in the hand" of the accept thread before/after (taken from a backlog, not yet sent) *)
Definition Rel (a b : list conn) (st : state) (ys : ysched) (st' : state) (ys' : ysched) : Prop :=
  forall c,
    tot c st' + yc c ys' + hc c b <= tot c st + yc c ys + hc c a /\
    und c st' + yc c ys' + hc c b <= und c st + yc c ys + hc c a /\
    (err st' = None -> err st = None /\ tot c st + hc c a <= tot c st' + hc c b).

Definition Pre (a : list conn) (st : state) (ys : ysched) : Prop := SInv st /\ ys_ok ys /\ Forall hand_ok a.
Definition NKs (st : state) (ys : ysched) : Prop := nk_ys ys = true /\ AllOpen st /\ NoFault (trace st).

Definition Post (a b : list conn) (st : state) (ys : ysched) (st' : state) (ys' : ysched) : Prop :=
  (Pre a st ys -> Pre b st' ys') /\ (NKs st ys -> NKs st' ys') /\ Rel a b st ys st' ys'.

Lemma Post_refl a st ys : Post a a st ys st ys.
Proof. split; [auto|]. split; [auto|]. intros c. split; [lia|]. split; [lia|]. intros H. split; [exact H|lia]. Qed.

Lemma Post_trans a b d s0 y0 s1 y1 s2 y2 :
  Post a b s0 y0 s1 y1 -> Post b d s1 y1 s2 y2 -> Post a d s0 y0 s2 y2.
Proof.
  intros (A1 & A2 & A3) (B1 & B2 & B3). split; [auto|]. split; [auto|].
  intros c. destruct (A3 c) as (A4 & A5 & A6). destruct (B3 c) as (B4 & B5 & B6).
  split; [lia|]. split; [lia|]. intros H. destruct (B6 H) as [E1 ?]. destruct (A6 E1) as [E0 ?]. split; [exact E0|lia].
Qed.

Lemma Post_of_Quiet a st ys st' : Quiet st st' -> Post a a st ys st' ys.
Proof.
  intros (Hw & Hb & (evs & Ht & Hn) & He). destruct (neutral_all evs Hn) as [Hg Hd].
  split; [|split].
  - intros (HI & Hy & Ha). split; [|auto].
    eapply SInv_gen; [exact HI|now rewrite Hb| | |].
    + intros tok b c Hb0 Hc. left. rewrite Hb in Hb0. eauto.
    + exists evs. split; [exact Ht|]. apply Forall_forall. intros e Hin.
      rewrite forallb_forall in Hn. apply neutral_ev_ok. auto.
    + intros g w x Hg0 Hx. left. rewrite Hw in Hg0. eauto.
  - intros (Hk & HA & HF). split; [exact Hk|]. split.
    + intros g w Hg0. rewrite Hw in Hg0. eauto.
    + rewrite Ht. apply NoFault_app; [now apply neutral_nofault|exact HF].
  - intros c. destruct (tot_change c st st' evs Hw Hb Ht) as [-> ->]. rewrite Hg, Hd, cnt_nil.
    split; [lia|]. split; [lia|]. intros H. split; [auto|lia].
Qed.

(* framing: ids further down the script *)
Lemma Post_frame_app a b st ys st' ys' r :
  Post a b st ys st' ys' -> Post a b st (ys ++ r) st' (ys' ++ r).
Proof.
  intros (A1 & A2 & A3). split; [|split].
  - intros (HI & Hy & Ha). apply Forall_app in Hy as [Hy Hr].
    destruct (A1 (conj HI (conj Hy Ha))) as (HI' & Hy' & Hb). split; [exact HI'|]. split; [|exact Hb].
    apply Forall_app. split; assumption.
  - intros (Hk & HA & HF). unfold nk_ys in Hk. rewrite forallb_app in Hk. apply andb_true_iff in Hk as [Hk1 Hk2].
    destruct (A2 (conj Hk1 (conj HA HF))) as (Hk' & HA' & HF'). split; [|auto].
    unfold nk_ys in *. rewrite forallb_app. now rewrite Hk', Hk2.
  - intros c. rewrite !yc_app. destruct (A3 c) as (A4 & A5 & A6). split; [lia|]. split; [lia|exact A6].
Qed.

(* the rest of a yield schedule that was not consumed is simply dropped *)
Lemma Post_drop a st ys : Post a a st ys st [].
Proof.
  split; [|split].
  - intros (HI & _ & Ha). split; [exact HI|]. split; [constructor|exact Ha].
  - intros (_ & HA & HF). split; [reflexivity|auto].
  - intros c. rewrite yc_nil. split; [lia|]. split; [lia|]. intros H. split; [exact H|lia].
Qed.

(* ---------- environment steps ---------- *)
Lemma ys_ok_cons_cons o os ys : ys_ok ((o :: os) :: ys) <-> eop_ok o /\ ys_ok (os :: ys).
Proof.
  unfold ys_ok. split.
  - intros H. inversion H as [|? ? H1 H2]; subst. inversion H1; subst. split; [assumption|]. constructor; assumption.
  - intros [Ho H]. inversion H as [|? ? H1 H2]; subst. constructor; [constructor; assumption|assumption].
Qed.

Definition oc (c : N) (o : eop) : nat := cnt c (map snd (eop_conns o)).

Lemma yc_cons_cons c o os ys : yc c ((o :: os) :: ys) = oc c o + yc c (os :: ys).
Proof. rewrite !yc_cons. cbn [flat_map]. rewrite map_app, cnt_app. unfold oc. lia. Qed.

(* an operation of the schedule that changes nothing *)
Lemma Post_skip_op a st o os ys : Post a a st ((o :: os) :: ys) st (os :: ys).
Proof.
  split; [|split].
  - intros (HI & Hy & Ha). apply ys_ok_cons_cons in Hy as [_ Hy]. split; [exact HI|]. split; assumption.
  - intros (Hk & HA & HF). unfold NKs, nk_ys in *. cbn [forallb] in *. apply andb_true_iff in Hk as [Hk1 Hk2].
    apply andb_true_iff in Hk1 as [_ Hk1]. split; [|auto]. now rewrite Hk1, Hk2.
  - intros c. rewrite yc_cons_cons. split; [lia|]. split; [lia|]. intros H. split; [exact H|lia].
Qed.

Lemma Post_skip_nil a st ys : Post a a st ([] :: ys) st ys.
Proof.
  split; [|split].
  - intros (HI & Hy & Ha). inversion Hy; subst. split; [exact HI|]. split; assumption.
  - intros (Hk & HA & HF). unfold NKs, nk_ys in *. cbn [forallb] in Hk. split; [exact Hk|auto].
  - intros c. rewrite yc_cons. cbn [flat_map map]. rewrite cnt_nil. split; [lia|]. split; [lia|]. intros H. split; [exact H|lia].
Qed.

Lemma relost_disp evs (Q : conn -> Prop) :
  (forall e, In e evs -> neutral e = true \/ exists x, Q x /\ (e = EvReleased (c_id x) \/ e = EvLost (c_id x))) ->
  disp_of evs = [].
Proof.
  induction evs as [|e r IH]; intros H; [reflexivity|]. unfold disp_of in *. cbn [flat_map].
  rewrite IH by (intros e0 H0; apply H; now right).
  destruct (H e (or_introl eq_refl)) as [Hn|(x & _ & [-> | ->])]; [|reflexivity|reflexivity].
  now rewrite (neutral_disp e Hn).
Qed.

(* a worker-side step on generation g: connections only leave (released / lost) or move queue -> picked *)
Lemma Post_worker a st st' ys g w w' evs :
  nth_error (ws st) g = Some w -> ws st' = replace_nth g w' (ws st) -> bl st' = bl st ->
  trace st' = evs ++ trace st -> err st' = err st -> w_idx w' = w_idx w ->
  (forall x, In x (w_queue w' ++ w_picked w') -> In x (w_queue w ++ w_picked w)) ->
  (forall e, In e evs -> neutral e = true \/
     exists x, In x (w_queue w ++ w_picked w) /\ (e = EvReleased (c_id x) \/ e = EvLost (c_id x))) ->
  (forall c, cnt c (wq_ids w) + cnt c (wp_ids w) = cnt c (wq_ids w') + cnt c (wp_ids w') + cnt c (gone_of evs)) ->
  (nk_ys ys = true -> w_open w' = w_open w /\ NoFault evs) ->
  Post a a st ys st' ys.
Proof.
  intros Hg Hw Hb Ht He Hi Hsub Hev Hcnt Hnk. split; [|split].
  - intros (HI & Hy & Ha). split; [|auto].
    eapply SInv_upd_ws; try eassumption.
    apply Forall_forall. intros e Hin. destruct (Hev e Hin) as [Hn|(x & Hx & Hex)]; [now apply neutral_ev_ok|].
    destruct HI as (_ & _ & I3 & _). destruct (I3 _ _ _ Hg Hx) as [Hh _].
    destruct Hex as [-> | ->]; cbn; exists (c_tok x); exact Hh.
  - intros (Hk & HA & HF). destruct (Hnk Hk) as [Ho Hnf]. split; [exact Hk|]. split.
    + eapply AllOpen_upd_ws; [exact HA|exact Hw|]. rewrite Ho. eauto.
    + rewrite Ht. now apply NoFault_app.
  - intros c. destruct (tot_upd_ws c st st' g w w' evs Hg Hw Hb Ht) as [H1 H2].
    rewrite (relost_disp evs _ Hev), cnt_nil in H2. specialize (Hcnt c).
    split; [lia|]. split; [lia|]. rewrite He. intros H. split; [exact H|lia].
Qed.

Lemma guard_drop_core st g w' :
  ws (guard_drop L st g w') = replace_nth g (set_w_cnt w' (w_cnt w' - 1)) (ws st) /\
  lsts (guard_drop L st g w') = lsts st /\ trace (guard_drop L st g w') = trace st /\
  err (guard_drop L st g w') = err st.
Proof. unfold guard_drop. destruct (Z.eqb _ _); cbn; auto. Qed.

Lemma remove_conn_spec c l x p : remove_conn c l = Some (x, p) ->
  c_id x = c /\ In x l /\ (forall y, In y p -> In y l) /\
  (forall c', cnt c' (map c_id l) = cnt c' [c_id x] + cnt c' (map c_id p)).
Proof.
  revert x p; induction l as [|y t IH]; cbn [remove_conn]; intros x p H; [discriminate|].
  destruct (N.eqb_spec (c_id y) c) as [E|Hne].
  - injection H as <- <-. split; [exact E|]. split; [now left|]. split; [intros z Hz; now right|].
    intros c'. cbn [map]. apply cnt_cons.
  - destruct (remove_conn c t) as [[z t']|] eqn:Er; [|discriminate]. injection H as <- <-.
    destruct (IH _ _ eq_refl) as (E & Hin & Hsub & Hc). split; [exact E|]. split; [now right|]. split.
    + intros y0 [<-|H0]; [now left|right; auto].
    + intros c'. cbn [map]. rewrite (cnt_cons c' (c_id y) (map c_id t)), (cnt_cons c' (c_id y) (map c_id t')), Hc. clia.
Qed.

Lemma lost_fold q : forall s,
  let s' := fold_left (fun s c => emit s (EvLost (c_id c))) q s in
  ws s' = ws s /\ lsts s' = lsts s /\ err s' = err s /\
  trace s' = rev (map (fun x => EvLost (c_id x)) q) ++ trace s.
Proof.
  induction q as [|x q IH]; intros s; cbn [fold_left]; [cbn; auto|].
  destruct (IH (emit s (EvLost (c_id x)))) as (A & B & C & D). cbn zeta.
  split; [exact A|]. split; [exact B|]. split; [exact C|]. rewrite D. cbn [map rev trace emit].
  now rewrite <- app_assoc.
Qed.

Lemma lost_gone c q : cnt c (gone_of (rev (map (fun x => EvLost (c_id x)) q))) = cnt c (map c_id q).
Proof.
  induction q as [|x q IH]; [reflexivity|]. cbn [map rev]. rewrite gone_of_app, cnt_app, IH.
  unfold gone_of at 1. cbn [flat_map ev_gone app]. rewrite (cnt_cons c (c_id x) (map c_id q)). lia.
Qed.

Lemma env_connect_post a st tok c0 os ys :
  Post a a st ((Connect tok c0 :: os) :: ys) (env_step L st (Connect tok c0)) (os :: ys).
Proof.
  cbn [env_step]. destruct (nth_error (lsts st) tok) as [l|] eqn:El; [|apply Post_skip_op].
  assert (Htok : tok < length (bl st)) by (unfold bl; rewrite map_length; eapply nth_error_Some_lt; eassumption).
  pose proof (bl_nth _ _ _ El) as Hbl.
  destruct (l_uds l && negb (l_linked l)).
  - (* the path is gone: the client is refused *)
    split; [|split].
    + intros (HI & Hy & Ha). apply ys_ok_cons_cons in Hy as [Ho Hy]. split; [|auto].
      cbn [eop_ok] in Ho. pose proof HI as (I1 & _). rewrite I1 in Htok. specialize (Ho Htok).
      eapply SInv_gen; [exact HI|reflexivity| | |].
      * intros tok0 b c Hb Hc. left. eauto.
      * exists [EvConnFail c0 tok]. split; [reflexivity|]. constructor; [exact Ho|constructor].
      * intros g w x Hg Hx. left. eauto.
    + intros (Hk & HA & HF). unfold NKs, nk_ys in *. cbn [forallb nk_eop] in *. split; [exact Hk|].
      split; [exact HA|]. constructor; [reflexivity|exact HF].
    + intros c. rewrite yc_cons_cons.
      destruct (tot_change c st (emit st (EvConnFail c0 tok)) [EvConnFail c0 tok] eq_refl eq_refl eq_refl) as [-> ->].
      unfold oc. cbn [eop_conns map snd gone_of disp_of flat_map ev_gone ev_disp app]. rewrite cnt_nil.
      split; [lia|]. split; [lia|]. cbn [err emit]. intros H. split; [exact H|lia].
  - (* the connection enters the accept queue of listener tok *)
    set (l' := {| l_uds := l_uds l; l_reg := l_reg l; l_edge := l_edge l || l_reg l; l_to := l_to l;
                  l_backlog := l_backlog l ++ [c0]; l_inject := l_inject l; l_linked := l_linked l |}).
    assert (Hbl' : bl (upd_lst st tok l') = replace_nth tok (l_backlog l ++ [c0]) (bl st)) by apply bl_upd_lst.
    split; [|split].
    + intros (HI & Hy & Ha). apply ys_ok_cons_cons in Hy as [Ho Hy]. split; [|auto].
      cbn [eop_ok] in Ho. pose proof HI as (I1 & _). rewrite I1 in Htok. specialize (Ho Htok).
      eapply SInv_gen; [exact HI|rewrite Hbl'; apply length_replace_nth| | |].
      * intros tok0 b c Hb Hc. rewrite Hbl' in Hb.
        destruct (nth_error_replace_nth_inv _ _ _ _ _ Hb) as [(-> & -> & _)|(Hne & H1)].
        -- apply in_app_or in Hc as [Hc|[<-|[]]]; [left; eauto|right; exact Ho].
        -- left. eauto.
      * exists []. split; [reflexivity|constructor].
      * intros g w x Hg Hx. left. eauto.
    + intros (Hk & HA & HF). unfold NKs, nk_ys in *. cbn [forallb nk_eop] in *. split; [exact Hk|]. split; assumption.
    + intros c. rewrite yc_cons_cons.
      destruct (tot_upd_bl c st (upd_lst st tok l') tok _ _ Hbl Hbl' eq_refl eq_refl) as [H1 H2].
      rewrite cnt_app in H1, H2. unfold oc. cbn [eop_conns map snd].
      split; [lia|]. split; [lia|]. intros H. split; [exact H|lia].
Qed.

Lemma env_pick_post a st g ys0 : Post a a st ys0 (env_step L st (Pick g)) ys0.
Proof.
  cbn [env_step]. destruct (nth_error (ws st) g) as [w|] eqn:Eg; [|apply Post_refl].
  destruct (w_open w) eqn:Eo; [|apply Post_refl]. destruct (w_queue w) as [|x q] eqn:Eq; [apply Post_refl|].
  eapply Post_worker with (g := g) (w := w) (evs := []); [exact Eg|reflexivity|reflexivity|reflexivity|reflexivity|reflexivity| | | |].
  - intros y Hy. cbn [w_queue w_picked set_w_queue set_w_picked] in Hy. rewrite Eq.
    rewrite !in_app_iff in *. cbn [In] in *. tauto.
  - intros e [].
  - intros c. unfold wq_ids, wp_ids. cbn [w_queue w_picked set_w_queue set_w_picked]. rewrite Eq. cbn [map].
    rewrite map_app, cnt_app, (cnt_cons c (c_id x) (map c_id q)). cbn [map gone_of flat_map]. rewrite cnt_nil. lia.
  - intros _. split; [reflexivity|constructor].
Qed.

Lemma env_finish_post a st g c0 ys0 : Post a a st ys0 (env_step L st (Finish g c0)) ys0.
Proof.
  cbn [env_step]. destruct (nth_error (ws st) g) as [w|] eqn:Eg; [|apply Post_refl].
  destruct (remove_conn c0 (w_picked w)) as [[x p]|] eqn:Er; [|apply Post_refl].
  destruct (remove_conn_spec _ _ _ _ Er) as (E & Hin & Hsub & Hc).
  destruct (guard_drop_core st g (set_w_picked w p)) as (G1 & G2 & G3 & G4).
  eapply Post_worker with (g := g) (w := w) (evs := [EvReleased c0]); [exact Eg|exact G1| | | |reflexivity| | | |].
  - unfold bl. cbn [lsts emit]. now rewrite G2.
  - cbn [trace emit]. now rewrite G3.
  - cbn [err emit]. exact G4.
  - intros y Hy. cbn [w_queue w_picked set_w_cnt set_w_picked] in Hy. rewrite !in_app_iff in *. intuition.
  - intros e [<-|[]]. right. exists x. split; [apply in_or_app; now right|]. left. now rewrite E.
  - intros c. unfold wq_ids, wp_ids. cbn [w_queue w_picked set_w_cnt set_w_picked gone_of flat_map ev_gone app].
    rewrite (Hc c), E. lia.
  - intros _. split; [reflexivity|]. constructor; [reflexivity|constructor].
Qed.

Lemma env_drain_post a st g ys0 : Post a a st ys0 (env_step L st (DrainDrop g)) ys0.
Proof.
  cbn [env_step]. destruct (nth_error (ws st) g) as [w|] eqn:Eg; [|apply Post_refl].
  destruct (w_open w) eqn:Eo; [|apply Post_refl]. destruct (w_queue w) as [|x q] eqn:Eq; [apply Post_refl|].
  destruct (guard_drop_core st g (set_w_queue w q)) as (G1 & G2 & G3 & G4).
  eapply Post_worker with (g := g) (w := w) (evs := [EvReleased (c_id x)]); [exact Eg|exact G1| | | |reflexivity| | | |].
  - unfold bl. cbn [lsts emit]. now rewrite G2.
  - cbn [trace emit]. now rewrite G3.
  - cbn [err emit]. exact G4.
  - intros y Hy. cbn [w_queue w_picked set_w_cnt set_w_queue] in Hy. rewrite Eq. rewrite !in_app_iff in *. cbn [In]. tauto.
  - intros e [<-|[]]. right. exists x. split; [rewrite Eq; now left|]. now left.
  - intros c. unfold wq_ids, wp_ids. cbn [w_queue w_picked set_w_cnt set_w_queue gone_of flat_map ev_gone app].
    rewrite Eq. cbn [map]. rewrite (cnt_cons c (c_id x) (map c_id q)). lia.
  - intros _. split; [reflexivity|]. constructor; [reflexivity|constructor].
Qed.

Lemma env_kill_post a st g os ys :
  Post a a st ((Kill g :: os) :: ys) (env_step L st (Kill g)) ((Kill g :: os) :: ys).
Proof.
  cbn [env_step]. destruct (nth_error (ws st) g) as [w|] eqn:Eg; [|apply Post_refl].
  destruct (w_open w) eqn:Eo; [|apply Post_refl].
  set (st1 := emit (upd_worker st g (set_w_open (set_w_queue w []) false)) (EvKilled g)).
  destruct (lost_fold (w_queue w) st1) as (F1 & F2 & F3 & F4). cbn zeta in *.
  eapply Post_worker with (g := g) (w := w) (evs := rev (map (fun x => EvLost (c_id x)) (w_queue w)) ++ [EvKilled g]);
    [exact Eg|rewrite F1; reflexivity| | | |reflexivity| | | |].
  - unfold bl. now rewrite F2.
  - rewrite F4. cbn [st1 trace emit upd_worker set_ws]. now rewrite <- app_assoc.
  - rewrite F3. reflexivity.
  - intros y Hy. cbn [w_queue w_picked set_w_open set_w_queue app] in Hy. apply in_or_app. now right.
  - intros e He. apply in_app_or in He as [He|[<-|[]]]; [|left; reflexivity].
    right. apply in_rev in He. apply in_map_iff in He as (x & <- & Hx). exists x.
    split; [apply in_or_app; now left|now right].
  - intros c. rewrite gone_of_app, cnt_app, lost_gone. unfold wq_ids, wp_ids.
    cbn [w_queue w_picked set_w_open set_w_queue map gone_of flat_map ev_gone app]. rewrite cnt_nil. lia.
  - intros Hk. unfold nk_ys in Hk. cbn in Hk. discriminate.
Qed.

Lemma env_respawn_post a st idx ys0 : Post a a st ys0 (env_step L st (Respawn idx)) ys0.
Proof.
  cbn [env_step].
  set (nw := {| w_idx := idx; w_open := true; w_queue := []; w_picked := []; w_cnt := 1 |}).
  eapply Post_trans; [|apply Post_of_Quiet, Quiet_wake].
  assert (Hnth : forall g w', nth_error (ws st ++ [nw]) g = Some w' -> nth_error (ws st) g = Some w' \/ w' = nw).
  { intros g w' H. destruct (Nat.lt_ge_cases g (length (ws st))) as [Hlt|Hge].
    - rewrite nth_error_app1 in H by exact Hlt. now left.
    - rewrite nth_error_app2 in H by exact Hge. destruct (g - length (ws st)) as [|k]; cbn in H; [|destruct k; discriminate].
      right. congruence. }
  split; [|split].
  - intros (HI & Hy & Ha). split; [|auto].
    eapply SInv_gen; [exact HI|reflexivity| |exists []; split; [reflexivity|constructor]|].
    + intros tok b c Hb Hc. left. eauto.
    + intros g w' x Hg Hx. cbn [ws set_ws] in Hg. destruct (Hnth _ _ Hg) as [H| ->]; [left; eauto|destruct Hx].
  - intros (Hk & HA & HF). split; [exact Hk|]. split; [|exact HF].
    intros g w' Hg. cbn [ws set_ws] in Hg. destruct (Hnth _ _ Hg) as [H| ->]; [eauto|reflexivity].
  - intros c. unfold tot, und, backlog_ids, queued, picked, gone, disp, bl. cbn [ws lsts trace set_ws].
    rewrite !cnt_flat_map_app. cbn [flat_map wq_ids wp_ids w_queue w_picked nw map app]. rewrite cnt_nil.
    split; [lia|]. split; [lia|]. cbn [err set_ws]. intros H. split; [exact H|lia].
Qed.

Lemma env_step_post a st o os ys : Post a a st ((o :: os) :: ys) (env_step L st o) (os :: ys).
Proof.
  destruct o as [tok c0|g|g c0|g|g|cm|idx|tok k].
  - apply env_connect_post.
  - eapply Post_trans; [apply env_pick_post|apply Post_skip_op].
  - eapply Post_trans; [apply env_finish_post|apply Post_skip_op].
  - eapply Post_trans; [apply env_drain_post|apply Post_skip_op].
  - eapply Post_trans; [apply env_kill_post|apply Post_skip_op].
  - eapply Post_trans; [apply Post_of_Quiet, Quiet_wake|apply Post_skip_op].
  - eapply Post_trans; [apply env_respawn_post|apply Post_skip_op].
  - eapply Post_trans; [|apply Post_skip_op]. cbn [env_step].
    destruct (nth_error (lsts st) tok) as [l|] eqn:El; [|apply Post_refl].
    apply Post_of_Quiet. eapply Quiet_upd_lst; [exact El|reflexivity].
Qed.

Lemma env_steps_post a os : forall st ys, Post a a st (os :: ys) (env_steps L st os) ys.
Proof.
  induction os as [|o os IH]; intros st ys; cbn [env_steps fold_left].
  - apply Post_skip_nil.
  - eapply Post_trans; [apply env_step_post|apply IH].
Qed.
End Walk.
