"""C06 — shutdown: graceful waits for connections, forced does not, stop always completes."""
import os

import common
from common import Stream
from props import wrkgen as g

META = {
    "id": "C06",
    "driver": "worker",
    "harness": "h_worker",
    "coq_targets": ["Extract/XWorker.vo", "Extract/XServer.vo"],
    "level": "proof",
    "design_ref": "§5 worker model, C06",
    "technique": "Coq proof: timed state machine of ServerWorker's stop handling (Model/Wrk.v) and small-step model of the server's "
                 "command loop / Stop handler / join_all / signal mapping (Model/SrvStop.v), invariants proved for all scripts; "
                 "extracted worker model vs the REAL ServerWorker future polled by hand under Tokio's paused clock (all "
                 "completion-time x timeout combinations), extracted join_all model vs the real join_all, property monitor on "
                 "implementation traces; end-to-end runs of the whole Server (public API, real time) in the thorough tier",
    "level_text": "Worker level (all states / all scripts): C06_forced, C06_idle, C06_dropped, C06_graceful_enter/_before_tick/_tick_idle/"
                  "_tick_timeout/_tick_wait, C06_ack_true_means_idle, C06_ack_false_cause, C06_done_cause, C06_drain, "
                  "C06_total_exact, C06_dec_no_underflow. Server level (all scripts): C06_signal_map, "
                  "C06_join_all_results/_polls/_ready, C06_server_order, C06_server_graceful_waits, C06_server_joined_accept, "
                  "C06_stops_resolve, C06_stop_after_done, C06_server_completes. All closed under the global context.",
    "level_note": "PARTIAL: thread orchestration (arbiter/runtime teardown closing in-flight connections after the worker future "
                  "resolved, thread::join of the accept thread) and OS signal delivery are runtime behaviour, observed only by the "
                  "end-to-end runs. 'No dispatch after Stop was processed' is proved in the accept-loop model (C01-C05 group). "
                  "Two genuine defects found by this property's end-to-end runs were repaired (known_findings.txt, fixed: D6 false idle "
                  "in the send/inc gap, D7 worker resolving when the accept thread exits before its stop arrived); the model is the "
                  "repaired code, the failing histories are in corpus/C06.",
    "rule": "stream wrk06: 0..3 connections in progress x every completion time on a 500 ms grid (or never) x shutdown_timeout in "
            "{0,..,3000} x graceful/forced, +0..1 queued and +0..1 late connection, polls at every tick and in between (quick: a "
            "random half of the 2..3-connection combinations); hand-picked shapes (stop twice, stop racing pushes, the send/inc "
            "gap, stop while unavailable/restarting, accept side closing, timeout boundaries); seeded random stop histories. "
            "non-trivial = the model trace contains a stop acknowledgement or a lost sender. "
            "stream join: all completion orders of 1..4 inputs over <= 4 polls with Ok(true)/Ok(false)/Err results against the "
            "real join_all (exhaustive for n <= 3).",
    "trusted_base": ["cfg(actix_net_verif) hooks verif_inthread (in-thread ServerWorker constructor; join_all wrapper)",
                     "Tokio paused clock: sleep fires iff deadline <= now (ms), Instant follows advance() exactly",
                     "SrvStop.v is tied to server.rs by reading and by the end-to-end scenarios only (handle_cmd is private)"],
    "assumptions": ["the Server future is polled and worker threads run (fairness of the runtimes)",
                    "stops may arrive inside the accept side's send/inc gap (cases without 'i'): total() is exact since the repair of D6"],
}


# ---------------------------------------------------------------------------------------------
# the property, as a predicate on an implementation trace (what a user / peer / caller can see)
# ---------------------------------------------------------------------------------------------
def c06_property(case, impl):
    """returns '' if the property holds on the trace, else a short reason"""
    cfg = g.case_cfg(case)
    timeout = int(cfg["T"])
    ops = g.case_ops(case)
    sg = g.segs(impl)
    if len(sg) > len(ops):
        return "more segments than ops"
    t = 0
    gap = False
    is_open = True
    stop_open = True
    stops = []          # [graceful, t_push, resolved, picked]
    queue = []          # sids pushed, not yet picked up
    pushed = []         # cids pushed while the accept side was open
    called = set()
    released = set()
    picked_any = False
    shutdown = False    # a graceful stop was picked up and the worker did not resolve
    for op, seg in zip(ops, sg):
        evs = [e for e in seg if e]
        acks = {}
        for e in evs:
            if e[0] == "A":
                acks[int(e[1:-1])] = (e[-1] == "t")
            elif e[0] == "X":
                acks[int(e[1:])] = None
        inprog_before = called - released
        queued_before = [c for c in pushed if c not in called and c not in released]
        head = None
        if op[0] == "c":
            if is_open:
                pushed.append(int(op.split(".")[1]))
                gap = True
        elif op == "i":
            gap = False
        elif op == "x":
            gap = False
            is_open = False
        elif op == "y":
            stop_open = False
        elif op in ("sg", "sf"):
            if stop_open:
                stops.append([op == "sg", t, False, False])
                queue.append(len(stops) - 1)
        elif op[0] == "a":
            t += int(op[1:])
        elif op == "p":
            if queue:
                head = queue.pop(0)
                stops[head][3] = True
        panicked = any(e.startswith("!") for e in evs)
        done = "D" in evs
        # (d) no service call at or after the poll that picked up a stop
        if (picked_any or head is not None) and any(e[0] == "k" for e in evs):
            return "a service was called after a stop was picked up"
        for e in evs:
            if e[0] == "k":
                called.add(int(e.split(".")[1]))
            elif e[0] == "R" and e[-1] != "?":
                released.add(int(e[1:]))
            elif e[0] == "R":
                return "peer did not observe the close"
        # (a) ack true => nothing in progress (exactly: also inside the accept side's send/inc gap)
        for sid, b in acks.items():
            if b is True and inprog_before:
                return "stop %d acknowledged true with %d connections in progress" % (sid, len(inprog_before))
            if b is False:
                graceful, tp = stops[sid][0], stops[sid][1]
                if graceful and t - tp < timeout:
                    return "graceful stop %d acknowledged false before shutdown_timeout" % sid
        # (c) forced / idle: completes in the poll that picks it up, without waiting
        if head is not None and not panicked:
            graceful = stops[head][0]
            # (a graceful stop with connections queued but none in progress may either count as idle or drain first)
            if not graceful or (not inprog_before and not queued_before):
                if not (head in acks and acks[head] is not None and done):
                    return "%s stop %d did not complete in the poll that picked it up" % ("graceful idle" if graceful else "forced", head)
        if head is not None and panicked:
            return "panic while handling a stop"
        if head is not None:
            picked_any = True
            if stops[head][0] and not done:
                shutdown = True
        for sid in acks:
            stops[sid][2] = True
        # (e) in Shutdown every poll leaves nothing queued: whatever was pushed and not called is released
        if op == "p" and shutdown and not panicked:
            left = [c for c in pushed if c not in called and c not in released]
            if left:
                return "connection %d still queued after a poll in Shutdown" % left[0]
        # (f) the worker future resolved: every stop issued so far has resolved, nothing stays queued
        if done:
            if any(not s[2] for s in stops):
                return "worker resolved with an unresolved stop future"
            left = [c for c in pushed if c not in called and c not in released]
            if left:
                return "worker resolved with connection %d neither called nor released" % left[0]
            if not acks and (is_open or stop_open):
                return "worker resolved without acknowledgement although a stop command can still arrive"
    return ""


def monitor(case, impl, model):
    return c06_property(case, g.main_part(impl)) == ""


def finding_key(case, impl, model):
    return "c06:" + c06_property(case, g.main_part(impl)).replace(" ", "-")[:60]


def nontrivial(case, model):
    m = g.main_part(model)
    return any(t and t[0] in "AX" for t in m.replace("|", " ").split())


def compare(impl, model):
    return g.main_part(impl) == g.main_part(model)


# ---------------------------------------------------------------------------------------------
# join_all cases: "n;poll|poll|..."  poll = "i=v,i=v" inputs completing before that poll, v in t/f/x
# ---------------------------------------------------------------------------------------------
def join_cases(rng, full):
    import itertools
    cases = []
    vals = "tfx"
    for n in range(0, 4):
        # each input completes before poll 1..3 or never (0), with one of three values
        for when in itertools.product(range(0, 4), repeat=n):
            for vs in itertools.product(vals, repeat=n) if (full or n <= 2) else [tuple(rng.choice(vals) for _ in range(n)) for _ in range(3)]:
                polls = []
                for p in range(1, 5):
                    polls.append(",".join("%d=%s" % (i, vs[i]) for i in range(n) if when[i] == p))
                cases.append("%d;%s" % (n, "|".join(polls)))
    for _ in range(500 if not full else 100000):
        n = rng.randint(1, 6)
        npolls = rng.randint(1, 6)
        when = [rng.randint(0, npolls) for _ in range(n)]
        vs = [rng.choice(vals) for _ in range(n)]
        polls = [",".join("%d=%s" % (i, vs[i]) for i in range(n) if when[i] == p) for p in range(1, npolls + 1)]
        cases.append("%d;%s" % (n, "|".join(polls)))
    return list(dict.fromkeys(cases))


def join_monitor(case, impl, model):
    """join_all's contract: Ready iff every input has completed, results in input order, no input polled after it completed"""
    n = int(case.split(";")[0])
    polls = case.split(";")[1].split("|")
    done = {}
    completed_seen = set()
    segs = impl.split("|")
    for k, (p, seg) in enumerate(zip(polls, segs)):
        for kv in [x for x in p.split(",") if x]:
            i, v = kv.split("=")
            done[int(i)] = v
        toks = seg.split(" ")
        res = toks[-1]
        for tk in toks[:-1]:
            if not tk:
                continue
            i = int(tk[1:-1])
            if i in completed_seen:
                return False          # polled after completion
            if tk[-1] == "+":
                if i not in done:
                    return False
                completed_seen.add(i)
        if len(done) == n and all(i in completed_seen for i in range(n)):
            if res != "=" + "".join(done[i] for i in range(n)):
                return False
            return len(segs) == k + 1
        if res != "-":
            return False
    return True


def streams(ctx):
    full = ctx.tier != "quick"
    enum = g.c06_enum(ctx.rng, full)
    special = g.c06_special(ctx.rng)
    rnd = g.c06_random(ctx.rng, 5000 if not full else 300000)
    st = Stream("wrk06", "wrk", special + enum + rnd, monitor=monitor, nontrivial=nontrivial, shrink=g.shrink_case,
                compare=compare, finding_key=finding_key,
                describe="special: %d, completion-time x timeout grid: %d, random: %d" % (len(special), len(enum), len(rnd)),
                timeout=900)
    out = [st]
    jc = join_cases(ctx.rng, full)
    out.append(Stream("join", "join", jc, monitor=join_monitor, nontrivial=lambda c, m: "=" in m and int(c.split(";")[0]) >= 2,
                      shrink=None, describe="%d join_all histories (n <= 3 inputs exhaustive over completion polls; random n <= 6)" % len(jc),
                      exhaustive=False, timeout=300))
    return out


def custom(ctx):
    for st in streams(ctx):
        impl, model = ctx.run_stream(st)
        if st.name.startswith("wrk06"):
            nd = sum(1 for i, m in zip(impl, model) if g.main_part(i) == g.main_part(m) and g.diag_part(i) != g.diag_part(m))
            ctx.cov["diag_mismatches_warning_only"] = ctx.cov.get("diag_mismatches_warning_only", 0) + nd
            if nd:
                ctx.notes.append("warning: %d cases of %s agree on the observable trace but differ in internal diagnostics" % (nd, st.name))
    # graceful stop through the real builder/server with connections in progress on restarted workers, paused, after back-off
    # (stream `bld` of the server group: its own driver and harness)
    import common
    from props.srvlib import bld_stream, DRIVER
    try:
        common.build_driver("server")
        hbin, _ = common.build_harness("h_server")
        bst = bld_stream(ctx, ("C06",), ["g", "gk", "gk", "gc", "gck", "hk", "h"], 56, 1200, lens=(6, 10, 14))
        bst.impl_cmd = [hbin, "bld"]
        bst.model_cmd = [DRIVER, "bld"]
        ctx.run_stream(bst)
    except common.BuildError as e:
        ctx.report("build-broken", {"what": "correspondence C06/bld cannot be run: %s" % str(e)[-2000:]}, nfi=True)
    if ctx.tier != "quick":
        e2e(ctx, thorough=True)
    else:
        e2e(ctx, thorough=False)


# ---------------------------------------------------------------------------------------------
# end-to-end scenarios of the whole Server through the public API (real threads, real time)
# ---------------------------------------------------------------------------------------------
E2E_QUICK = ["forced_held", "stop_twice_forced", "stop_dropped_unpolled", "idle_graceful", "stop_after_done", "graceful_held",
             "graceful_timeout", "signal_int", "signal_quit", "signal_term_held", "stop_while_paused", "stop_twice_graceful",
             "two_workers_graceful", "signal_term", "graceful_dropped_unpolled", "graceful_dropped_polled",
             "signal_term_held_c", "signal_int_c", "signal_term_c", "signal_quit_c",
             "signal_term_held_t", "signal_int_t", "signal_term_t", "signal_quit_t", "server_dropped_mid_graceful"]
E2E_THOROUGH = E2E_QUICK


def e2e(ctx, thorough):
    import subprocess
    from concurrent.futures import ThreadPoolExecutor
    names = E2E_THOROUGH if thorough else E2E_QUICK

    def one(name):
        try:
            p = subprocess.run([ctx.impl_bin, "e2e"], input=name + "\n", stdout=subprocess.PIPE, stderr=subprocess.PIPE,
                               text=True, timeout=180, env=common.ENV)
            out = p.stdout.strip().split("\n")[-1] if p.stdout.strip() else "CRASH rc=%d %s" % (p.returncode, p.stderr.strip()[-200:])
        except subprocess.TimeoutExpired:
            out = "HANG"
        return name, out

    with ThreadPoolExecutor(max_workers=16) as ex:
        res = list(ex.map(one, names))
    ctx.cov["extra_evaluations"] = ctx.cov.get("extra_evaluations", 0) + len(res)
    ctx.cov["extra_distinct_nontrivial"] = ctx.cov.get("extra_distinct_nontrivial", 0) + len(res)
    ctx.cov.setdefault("extra_samples", []).extend({"e2e": n, "result": r} for n, r in res[:4])
    ctx.cov["e2e"] = dict(res)
    for n, r in res:
        if not r.startswith("ok"):
            ctx.report("property-fails", {"stream": "e2e", "scenario": n, "result": r,
                                          "what": "end-to-end scenario %s of the whole Server: %s" % (n, r)}, key="c06:e2e:" + n)


def replay(ctx, r):
    """./check C06 --replay <file>: re-run the recorded case / scenario on the current tree"""
    if r.get("stream") == "e2e":
        import subprocess
        p = subprocess.run([ctx.impl_bin, "e2e"], input=r["scenario"] + "\n", stdout=subprocess.PIPE, text=True, timeout=200, env=common.ENV)
        out = p.stdout.strip()
        print("scenario: %s\nresult  : %s" % (r["scenario"], out))
        return 0 if out.startswith("ok") else 1
    for st in streams(ctx):
        if st.name == r.get("stream"):
            f, i, m = ctx.fails_property(st, r["case"])
            print("case : %s\nimpl : %s\nmodel: %s\nproperty predicate on implementation trace: %s" % (
                r["case"], i, m, "FALSE (violation reproduced)" if f else "true"))
            return 1 if f else 0
    print("stream %s not found" % r.get("stream"))
    return 2
