(* Proofs/TlsNativeFacts.v — the native-tls acceptor (Model/TlsAccept.v, Section Native) is the ordinary acceptor model run on
   a transformed script; what the transformation means:
     native_run_is_run            a native run IS a run of the ordinary model (script [native_script]), so every invariant and
                                  every theorem about reachable states applies to it unchanged;
     native_release_at_completion the slot of the connection counter is free again inside the poll that completes the accept;
     native_deadline_first_poll   the handshake deadline is (time of the first poll) + handshake_timeout;
     native_unpolled_never_times_out   before its first poll the future has no deadline anybody could observe. *)
From AN Require Import Model.TlsAccept Proofs.TlsAcceptFacts.
From Coq Require Import Lia Arith.
Open Scope N_scope.

Section Native.
  Variable is_native : nat -> bool.
  Notation nstep := (native_step is_native).
  Notation nrun := (native_run is_native).
  Notation nscript := (native_script is_native).

  Lemma run_ops_app : forall a b s,
    run_ops s (a ++ b) = (fst (run_ops (fst (run_ops s a)) b), snd (run_ops s a) ++ snd (run_ops (fst (run_ops s a)) b)).
  Proof.
    induction a as [|o a IH]; intros b s; cbn [run_ops app].
    - cbn. destruct (run_ops s b); reflexivity.
    - destruct (step s o) as [s1 ob] eqn:E. rewrite IH.
      destruct (run_ops s1 a) as [s2 ob2]. cbn [fst snd].
      destruct (run_ops s2 b) as [s3 ob3]. cbn [fst snd]. rewrite app_assoc. reflexivity.
  Qed.

  Lemma run_ops_one : forall s o, fst (run_ops s [o]) = fst (step s o).
  Proof. intros s o. cbn [run_ops]. destruct (step s o). reflexivity. Qed.

  Theorem native_run_is_run : forall ops s,
    run_ops s (nscript s ops) = (fst (nrun s ops), concat (snd (nrun s ops))).
  Proof.
    induction ops as [|o t IH]; intros s; cbn [native_script native_run]; [reflexivity|].
    rewrite run_ops_app. unfold native_step at 3.
    destruct (run_ops s (native_expand is_native s o)) as [s1 ob] eqn:E. cbn [fst snd].
    unfold native_step. rewrite E. cbn [fst]. rewrite IH.
    destruct (nrun s1 t) as [s2 obs]. cbn [fst snd concat]. reflexivity.
  Qed.

  Lemma run_ops_reachable : forall ops s, reachable s -> reachable (fst (run_ops s ops)).
  Proof.
    induction ops as [|o t IH]; intros s R; cbn [run_ops]; [exact R|].
    destruct (step s o) as [s1 ob] eqn:E.
    specialize (IH s1). destruct (run_ops s1 t) as [s2 ob2]. cbn [fst] in *.
    apply IH. replace s1 with (fst (step s o)) by (rewrite E; reflexivity). apply reachable_step, R.
  Qed.

  Lemma native_step_reachable : forall s o, reachable s -> reachable (fst (nstep s o)).
  Proof. intros s o R. unfold native_step. apply run_ops_reachable, R. Qed.

  Theorem native_run_reachable : forall ops s, reachable s -> reachable (fst (nrun s ops)).
  Proof.
    induction ops as [|o t IH]; intros s R; cbn [native_run]; [exact R|].
    destruct (nstep s o) as [s1 ob] eqn:E. specialize (IH s1).
    destruct (nrun s1 t) as [s2 obs]. cbn [fst] in *. apply IH.
    replace s1 with (fst (nstep s o)) by (rewrite E; reflexivity). apply native_step_reachable, R.
  Qed.

  Corollary native_run_inv : forall c ops, Inv (fst (nrun (init c) ops)).
  Proof. intros c ops. apply reachable_inv, native_run_reachable. exists c, []. reflexivity. Qed.

  (* ---- the slot is released by the poll that completes the accept ---- *)
  Lemma native_step_poll_ready_eq : forall s id w,
    is_native id = true -> ready_poll (snd (step s (PollFut id w))) = true ->
    nstep s (PollFut id w) =
      (fst (step (fst (step s (PollFut id w))) (DropFut id)),
       snd (step s (PollFut id w)) ++ snd (step (fst (step s (PollFut id w))) (DropFut id))).
  Proof.
    intros s id w N RP. unfold native_step, native_expand. rewrite N, RP. cbn [andb run_ops].
    destruct (step s (PollFut id w)) as [s1 ob]. cbn [fst snd].
    destruct (step s1 (DropFut id)) as [s2 ob2]. cbn [fst snd]. rewrite app_nil_r. reflexivity.
  Qed.

  Lemma ready_poll_means_live : forall s id w,
    ready_poll (snd (step s (PollFut id w))) = true ->
    exists f, lookup id (futs s) = Some f /\ f_done f = false.
  Proof.
    intros s id w RP. cbn [step] in RP. destruct (lookup id (futs s)) as [f|] eqn:L; [|cbn in RP; discriminate].
    destruct (f_done f) eqn:D; [cbn in RP; discriminate|]. exists f. split; [reflexivity | exact D].
  Qed.

  Theorem native_release_at_completion : forall s id w,
    reachable s -> is_native id = true -> ready_poll (snd (step s (PollFut id w))) = true ->
    lookup id (futs (fst (nstep s (PollFut id w)))) = None /\
    count (fst (nstep s (PollFut id w))) = count s - 1 /\
    S (length (futs (fst (nstep s (PollFut id w))))) = length (futs s).
  Proof.
    intros s id w R N RP. rewrite native_step_poll_ready_eq by assumption. cbn [fst].
    destruct (ready_poll_means_live s id w RP) as [f [L D]].
    pose proof (reachable_inv s R) as I.
    cbn [step]. rewrite L, D. destruct (poll_fut (now s) w f) as [[f' a] r]. cbn [fst futs count].
    rewrite (lookup_update_same id f' (futs s) f L). cbn [fst futs count].
    repeat split.
    - assert (ND : NoDup (map fst (update id f' (futs s)))) by (rewrite update_keys; apply I).
      apply lookup_remove_same, ND.
    - erewrite remove_length by (eapply lookup_update_same, L). apply update_length.
  Qed.

  (* a poll that does not complete is the ordinary poll: nothing is released *)
  Theorem native_pending_poll_is_step : forall s id w,
    ready_poll (snd (step s (PollFut id w))) = false -> nstep s (PollFut id w) = step s (PollFut id w).
  Proof.
    intros s id w RP. unfold native_step, native_expand. rewrite RP, andb_false_r. cbn [run_ops].
    destruct (step s (PollFut id w)) as [s1 ob]. rewrite app_nil_r. reflexivity.
  Qed.

  Theorem non_native_is_step : forall s o,
    (forall id w, o = PollFut id w -> is_native id = false) -> nstep s o = step s o.
  Proof.
    intros s o H. unfold native_step, native_expand. destruct o as [w|id sc tmo|id w|id|d]; cbn [run_ops];
      try (destruct (step s _) as [s1 ob]; rewrite app_nil_r; reflexivity).
    rewrite (H id w eq_refl). cbn [andb run_ops]. destruct (step s _) as [s1 ob]; rewrite app_nil_r; reflexivity.
  Qed.

  (* ---- the deadline counts from the first poll ---- *)
  Definition quiet (id : nat) (o : op) : bool :=
    match o with PollFut i _ => negb (Nat.eqb i id) | DropFut i => negb (Nat.eqb i id) | _ => true end.

  Fixpoint total_advance (ops : list op) : N :=
    match ops with [] => 0 | Advance d :: t => d + total_advance t | _ :: t => total_advance t end.

  Lemma now_step : forall s o, now (fst (step s o)) = now s + match o with Advance d => d | _ => 0 end.
  Proof.
    intros s o. destruct o as [w|id sc tmo|id w|id|d]; cbn [step].
    - destruct (available s); cbn; lia.
    - destruct (lookup id (futs s)); cbn; lia.
    - destruct (lookup id (futs s)) as [f|]; [|cbn; lia]. destruct (f_done f); [cbn; lia|].
      destruct (poll_fut (now s) w f) as [[f' a] r]. cbn; lia.
    - destruct (lookup id (futs s)); cbn; lia.
    - destruct (fire (now s) (now s + d) (futs s)). cbn. lia.
  Qed.

  Lemma quiet_step : forall s o id f,
    Inv s -> lookup id (futs s) = Some f -> quiet id o = true ->
    exists f', lookup id (futs (fst (step s o))) = Some f' /\ f_deadline f' = f_deadline f /\ f_done f' = f_done f
               /\ f_script f' = f_script f.
  Proof.
    intros s o id f I L Q. destruct o as [w|id2 sc tmo|id2 w|id2|d]; cbn [step quiet] in *.
    - destruct (available s); cbn; exists f; auto.
    - destruct (lookup id2 (futs s)) eqn:L2; cbn; [exists f; auto|].
      destruct (Nat.eqb id2 id) eqn:E; [apply Nat.eqb_eq in E; subst; congruence|]. exists f; auto.
    - apply negb_true_iff, Nat.eqb_neq in Q.
      destruct (lookup id2 (futs s)) as [g|] eqn:L2; [|cbn; exists f; auto].
      destruct (f_done g); [cbn; exists f; auto|].
      destruct (poll_fut (now s) w g) as [[g' a] r]. cbn.
      rewrite lookup_update_other by congruence. exists f; auto.
    - apply negb_true_iff, Nat.eqb_neq in Q.
      destruct (lookup id2 (futs s)) as [g|] eqn:L2; [|cbn; exists f; auto]. cbn.
      rewrite lookup_remove_other by congruence. exists f; auto.
    - pose proof (fire_lookup (now s) (now s + d) (futs s) id) as FL.
      destruct (fire (now s) (now s + d) (futs s)) as [l ws]. cbn in *. rewrite FL, L. cbn.
      eexists; split; [reflexivity|]. unfold fired.
      destruct (f_timer f); [destruct (crosses (now s) (now s + d) f)|]; cbn; auto.
  Qed.

  Lemma quiet_nstep : forall s o id f,
    Inv s -> lookup id (futs s) = Some f -> quiet id o = true ->
    exists f', lookup id (futs (fst (nstep s o))) = Some f' /\ f_deadline f' = f_deadline f /\ f_done f' = f_done f
               /\ f_script f' = f_script f.
  Proof.
    intros s o id f I L Q. unfold native_step, native_expand.
    destruct o as [w|id2 sc tmo|id2 w|id2|d];
      try (rewrite run_ops_one; apply quiet_step; assumption).
    destruct (is_native id2 && ready_poll (snd (step s (PollFut id2 w)))).
    - cbn [run_ops]. destruct (step s (PollFut id2 w)) as [s1 ob] eqn:E.
      destruct (step s1 (DropFut id2)) as [s2 ob2] eqn:E2. cbn [fst].
      destruct (quiet_step s (PollFut id2 w) id f I L Q) as [f1 [L1 [D1 [N1 S1]]]]. rewrite E in L1. cbn [fst] in L1.
      assert (I1 : Inv s1) by (replace s1 with (fst (step s (PollFut id2 w))) by (rewrite E; reflexivity); apply inv_step, I).
      destruct (quiet_step s1 (DropFut id2) id f1 I1 L1 Q) as [f2 [L2 [D2 [N2 S2]]]]. rewrite E2 in L2. cbn [fst] in L2.
      exists f2. repeat split; congruence.
    - rewrite run_ops_one. apply quiet_step; assumption.
  Qed.

  Lemma now_run_ops : forall ops s, now (fst (run_ops s ops)) = now s + total_advance ops.
  Proof.
    induction ops as [|o t IH]; intros s; cbn [run_ops total_advance]; [cbn; lia|].
    destruct (step s o) as [s1 ob] eqn:E. specialize (IH s1). destruct (run_ops s1 t) as [s2 ob2]. cbn [fst] in *.
    rewrite IH. replace s1 with (fst (step s o)) by (rewrite E; reflexivity). rewrite now_step.
    destruct o; lia.
  Qed.

  Lemma now_nstep : forall s o, now (fst (nstep s o)) = now s + match o with Advance d => d | _ => 0 end.
  Proof.
    intros s o. unfold native_step. rewrite now_run_ops. unfold native_expand.
    destruct o as [w|id sc tmo|id w|id|d]; cbn [total_advance]; try lia.
    destruct (is_native id && _); cbn [total_advance]; lia.
  Qed.

  Lemma inv_nstep : forall s o, Inv s -> Inv (fst (nstep s o)).
  Proof.
    intros s o I. unfold native_step. generalize (native_expand is_native s o). intros l. revert s I.
    induction l as [|x l IH]; intros s I; cbn [run_ops]; [exact I|].
    destruct (step s x) as [s1 ob] eqn:E. specialize (IH s1). destruct (run_ops s1 l) as [s2 ob2]. cbn [fst] in *.
    apply IH. replace s1 with (fst (step s x)) by (rewrite E; reflexivity). apply inv_step, I.
  Qed.

  Lemma quiet_nrun : forall pre s id f,
    Inv s -> lookup id (futs s) = Some f -> forallb (quiet id) pre = true ->
    exists f', lookup id (futs (fst (nrun s pre))) = Some f' /\ f_deadline f' = f_deadline f /\ f_done f' = f_done f
               /\ f_script f' = f_script f
               /\ now (fst (nrun s pre)) = now s + total_advance pre.
  Proof.
    induction pre as [|o t IH]; intros s id f I L Q; cbn [native_run total_advance].
    - exists f. cbn. repeat split; auto; lia.
    - cbn [forallb] in Q. apply andb_true_iff in Q. destruct Q as [Q1 Q2].
      destruct (quiet_nstep s o id f I L Q1) as [f1 [L1 [D1 [N1 S1]]]].
      pose proof (now_nstep s o) as NW. pose proof (inv_nstep s o I) as I1.
      destruct (nstep s o) as [s1 ob]. cbn [fst] in *.
      destruct (IH s1 id f1 I1 L1 Q2) as [f2 [L2 [D2 [N2 [S2 NW2]]]]].
      destruct (nrun s1 t) as [s2 obs]. cbn [fst] in *.
      exists f2. repeat split; try congruence. rewrite NW2, NW. destruct o; lia.
  Qed.

  Lemma delay_first_poll_spec : forall pre id w post,
    forallb (quiet id) pre = true ->
    delay_to_first_poll id (pre ++ PollFut id w :: post) = Some (total_advance pre).
  Proof.
    induction pre as [|o t IH]; intros id w post Q; cbn [app delay_to_first_poll total_advance].
    - rewrite Nat.eqb_refl. reflexivity.
    - cbn [forallb] in Q. apply andb_true_iff in Q. destruct Q as [Q1 Q2].
      destruct o as [w'|i sc tmo|i w'|i|d]; try (apply IH; exact Q2).
      + cbn [quiet] in Q1. apply negb_true_iff in Q1. rewrite Q1. apply IH; exact Q2.
      + rewrite IH by exact Q2. reflexivity.
  Qed.

  (* shifting changes timeouts only: clock moves and the positions of polls and drops stay *)
  Lemma shift_calls_quiet : forall l id, forallb (quiet id) (shift_calls is_native l) = forallb (quiet id) l.
  Proof.
    induction l as [|o t IH]; intros id; cbn [shift_calls forallb]; [reflexivity|]. rewrite IH. f_equal.
    destruct o as [w|i sc tmo|i w|i|d]; cbn [shift_call quiet]; try reflexivity. destruct (is_native i); reflexivity.
  Qed.

  Lemma shift_calls_advance : forall l, total_advance (shift_calls is_native l) = total_advance l.
  Proof.
    induction l as [|o t IH]; cbn [shift_calls total_advance]; [reflexivity|].
    destruct o as [w|i sc tmo|i w|i|d]; cbn [shift_call]; try exact IH.
    - destruct (is_native i); exact IH.
    - rewrite IH. reflexivity.
  Qed.

  Lemma shift_calls_app : forall a b,
    exists a', shift_calls is_native (a ++ b) = a' ++ shift_calls is_native b /\ length a' = length a /\
               (forall id, forallb (quiet id) a' = forallb (quiet id) a) /\ total_advance a' = total_advance a.
  Proof.
    induction a as [|o t IH]; intros b; cbn [app shift_calls].
    - exists []. cbn. auto.
    - destruct (IH b) as [a' [E [Ln [Q T]]]]. exists (shift_call is_native o (t ++ b) :: a'). rewrite E.
      cbn [app length forallb total_advance]. repeat split; [congruence | |].
      + intros id. rewrite Q. f_equal. destruct o as [w|i sc tmo|i w|i|d]; cbn [shift_call quiet]; try reflexivity.
        destruct (is_native i); reflexivity.
      + destruct o as [w|i sc tmo|i w|i|d]; cbn [shift_call]; try exact T.
        * destruct (is_native i); exact T.
        * rewrite T. reflexivity.
  Qed.

  (* The statement: in the script the harness and the driver execute — [shift_calls] of what the test does — a native future
     called with handshake_timeout tmo and first polled after the operations [pre] has, at that first poll, a deadline exactly
     tmo after the time of the poll, however long [pre] took. *)
  Theorem native_deadline_first_poll : forall pre w post s id sc tmo,
    reachable s -> is_native id = true -> lookup id (futs s) = None -> forallb (quiet id) pre = true ->
    exists pre', shift_calls is_native (Call id sc tmo :: pre ++ PollFut id w :: post)
                 = Call id sc (tmo + total_advance pre) :: pre' ++ shift_calls is_native (PollFut id w :: post) /\
      exists f, lookup id (futs (fst (nrun s (Call id sc (tmo + total_advance pre) :: pre')))) = Some f /\
                f_deadline f = now (fst (nrun s (Call id sc (tmo + total_advance pre) :: pre'))) + tmo /\
                f_done f = false /\ f_script f = sc.
  Proof.
    intros pre w post s id sc tmo R N L Q.
    destruct (shift_calls_app pre (PollFut id w :: post)) as [pre' [E [Ln [Q' T']]]].
    exists pre'. split.
    - cbn [shift_calls shift_call]. rewrite N, delay_first_poll_spec by exact Q. rewrite E. reflexivity.
    - cbn [native_run].
      assert (NS : nstep s (Call id sc (tmo + total_advance pre)) = step s (Call id sc (tmo + total_advance pre))).
      { apply non_native_is_step. intros i w0 H. discriminate. }
      rewrite NS, step_call by exact L.
      set (s0 := mkst (now s) (count s + 1) (cap s) (parked s)
                      ((id, mkfut sc (now s + (tmo + total_advance pre)) None false) :: futs s)).
      assert (I0 : Inv s0).
      { pose proof (inv_step s (Call id sc (tmo + total_advance pre)) (reachable_inv s R)) as I0.
        rewrite step_call in I0 by exact L. exact I0. }
      assert (L0 : lookup id (futs s0) = Some (mkfut sc (now s + (tmo + total_advance pre)) None false)).
      { cbn. rewrite Nat.eqb_refl. reflexivity. }
      assert (Q0 : forallb (quiet id) pre' = true) by (rewrite Q'; exact Q).
      destruct (quiet_nrun pre' s0 id _ I0 L0 Q0) as [f [Lf [Df [Nf [Sf NW]]]]].
      destruct (nrun s0 pre') as [s1 obs]. cbn [fst] in *.
      exists f. repeat split; auto. rewrite Df, NW, T'. cbn. lia.
  Qed.

  (* a native future that is never polled has the deadline [never] beyond every time the script reaches *)
  Theorem native_unpolled_never_times_out : forall rest id sc tmo,
    is_native id = true -> delay_to_first_poll id rest = None ->
    shift_call is_native (Call id sc tmo) rest = Call id sc (tmo + never).
  Proof. intros rest id sc tmo N D. cbn [shift_call]. rewrite N, D. reflexivity. Qed.
End Native.
