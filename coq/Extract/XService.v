(* Extraction of the actix-service combinator model (ExtrOcamlBasic only). *)
From Coq Require Import Extraction ExtrOcamlBasic.
From AN Require Import Model.Svc.
Extraction Language OCaml.
Extraction "../ocaml/service/gen.ml" run_ops denote delay sem proj leaves polled conj_ready beh_of run_fac fsem fleaves fbeh_of new_events.
