"""Shared machinery for the actix-rt checks (C09, C10): script generators, the real-thread run, the extracted
acceptance predicate as monitor, shrinking, replay.  See notes/rt.md.

A case is one line:  "<R|W> <timing seed> <op> <op> ..."   (syntax: harness/h_rt/src/main.rs).
The implementation side is nondeterministic (real threads), so there is no trace diff: the implementation log of
every case is judged by the EXTRACTED predicate Rt_accepts (driver mode `accept`), for which Rt_accepts_sound is
proved over all schedules of the model; for small scripts the log must in addition be one of the logs the model
can produce (driver mode `member`, exhaustive exploration of all schedules)."""
import os
import random
import re
import time

from concurrent.futures import ThreadPoolExecutor

from common import run_lines, load_corpus, log, NCPU

CODES = [0, 0, 1, 2, 7, -3, 255, 256, 512, -256, 65536, -2147483648, 2147483647]
KINDS = ["c"] * 8 + ["b"] * 3 + ["p"] * 2 + ["x"] * 2
VIA_A = ["o", "o", "h", "t"]
VIA_S = ["s", "f", "t"]


class Gen:
    """generates one script; keeps enough state to avoid operations whose outcome would legitimately be a
    watchdog time-out (those cost seconds and prove nothing)"""

    def __init__(self, rng, flavour):
        self.r = rng
        self.flavour = flavour      # 'c09' | 'c10'
        self.ops = []
        self.n = 0
        self.owner = []             # Arbiter value still held
        self.stopped = []           # stop() called on it
        self.selfstopped = []       # a self-stopping task is known to have started (awaited)
        self.kind_of = {}
        self.lsrc = []              # some stop source for it exists (stop(), self-stopping task)
        self.cov = []               # created before any exit source
        self.exit_src = False
        self.direct = False
        self.waited = False
        self.awaitable = []         # (k, tid) of spawned tasks
        self.limit = []             # None: nothing can stop arbiter k yet; t: tasks with tid <= t certainly start (the first
                                    # stop source is task t on k itself); -1: anything may already be cut off

    def new(self):
        self.ops.append("n:" + self.r.choice(["s", "s", "f"]))
        self.owner.append(True)
        self.stopped.append(False)
        self.selfstopped.append(False)
        self.lsrc.append(False)
        self.cov.append(not self.exit_src)
        self.limit.append(-1 if self.exit_src else None)
        self.n += 1

    def _limit(self, k, v):
        if self.limit[k] is None:
            self.limit[k] = v

    def spawn(self, k=None, kind=None):
        r = self.r
        if k is None:
            k = r.randrange(self.n) if self.n and r.random() < 0.97 else self.n
        if kind is None:
            x = r.random()
            if x < 0.08:
                kind = "e%d" % r.choice(CODES)
            elif x < 0.14:
                kind = "s"
            else:
                kind = r.choice(KINDS)
        fn = "sf" if (kind != "p" and r.random() < 0.4) else "sp"
        tid = len(self.ops)
        self.ops.append("%s:%d:%s:%s" % (fn, k, kind, r.choice(VIA_A)))
        self.kind_of[tid] = kind
        if k < self.n:
            self.awaitable.append((k, tid))
            if kind == "s":
                self.lsrc[k] = True
                self._limit(k, tid)
            if kind[0] == "e":
                self._limit(k, tid)
        if kind[0] == "e" and k < self.n:
            self.exit_src = True
            for j in range(self.n):
                if j != k:
                    self.limit[j] = -1
        return tid

    def stop(self, k):
        self.ops.append("st:%d:%s" % (k, self.r.choice(VIA_A)))
        self.stopped[k] = True
        self.lsrc[k] = True
        self.limit[k] = -1

    def sysstop(self):
        c = self.r.choice(CODES)
        self.ops.append("ss:%d:%s" % (c, self.r.choice(VIA_S)))
        if self.r.random() < (0.4 if self.flavour == "c09" else 0.15):
            # a second stop right behind the first, with another code: the first must win
            c2 = self.r.choice([x for x in CODES if x != c])
            self.ops.append("ss:%d:%s" % (c2, self.r.choice(VIA_S)))
        self.exit_src = True
        self.direct = True
        for j in range(self.n):
            self.limit[j] = -1

    def must_join(self, k):
        return self.stopped[k] or self.selfstopped[k] or (self.cov[k] and self.direct)

    def step(self):
        r = self.r
        x = r.random()
        c09 = self.flavour == "c09"
        if self.n < 3 and x < (0.22 if c09 else 0.12):
            return self.new()
        if self.n == 0:
            return self.new() if r.random() < 0.8 else self.spawn()
        x = r.random()
        k = r.randrange(self.n)
        if r.random() < (0.03 if c09 else 0.08) and self.owner[k] and self.limit[k] is None and len(self.ops) <= 9:
            # Arbiter::current().stop() from a task: once it has started the arbiter ends, later sends never start
            tid = self.spawn(k, "s")
            self.ops.append("aw:%d:%d" % (k, tid))
            self.selfstopped[k] = True
            if r.random() < 0.5:
                self.spawn(k, "c")
            self.ops.append("j:%d" % k)
            self.owner[k] = False
            return
        if x < (0.40 if c09 else 0.55):
            return self.spawn()
        if x < (0.50 if c09 else 0.67):
            return self.stop(k)
        if x < (0.62 if c09 else 0.72):
            return self.sysstop()
        if x < 0.70 and self.direct:
            self.ops.append("wr")
            self.waited = True
            return
        if x < 0.80:
            js = [j for j in range(self.n) if self.owner[j] and self.must_join(j)]
            if js:
                j = r.choice(js)
                self.ops.append("j:%d" % j)
                self.owner[j] = False
                return
        if x < 0.84 and self.owner[k]:
            self.ops.append("d:%d" % k)
            self.owner[k] = False
            return
        aw = [(kk, t) for kk, t in self.awaitable if self.limit[kk] is None or t <= self.limit[kk]]
        if aw and x < 0.97:
            ss = [(kk, t) for kk, t in aw if self.kind_of[t] == "s" and not self.selfstopped[kk]]
            kk, tid = r.choice(ss) if ss and r.random() < 0.7 else r.choice(aw)
            self.ops.append("aw:%d:%d" % (kk, tid))
            if self.kind_of[tid] == "s":
                self.selfstopped[kk] = True
            return
        return self.spawn()

    def close(self):
        """system stop, wait for run to return, a send that must not start any more, join everything joinable"""
        r = self.r
        if not self.direct:
            self.sysstop()
        if r.random() < 0.85:
            self.ops.append("wr")
            self.waited = True
            for k in range(self.n):
                if r.random() < 0.5:
                    self.spawn(k, "c")
        for k in range(self.n):
            if self.owner[k]:
                if not self.must_join(k):
                    self.stop(k)
                self.ops.append("j:%d" % k)
                self.owner[k] = False
                if r.random() < 0.3:
                    self.spawn(k, "c")

    def script(self, body):
        for _ in range(body):
            if len(self.ops) >= 12:
                break
            self.step()
        if self.r.random() < 0.85:
            self.close()
        return self.ops


def gen_script(rng, flavour):
    g = Gen(rng, flavour)
    pre = rng.choice([0, 1, 1, 2, 2, 3])
    for _ in range(pre):
        g.new()
    return " ".join(g.script(rng.randint(1, 9)))


def case_line(script, seed, userun=None):
    rw = "R" if (userun if userun is not None else (seed % 5 == 0)) else "W"
    return "%s %d %s" % (rw, seed, script)


# ------------------------------------------------------------------------------------------------
# running
# ------------------------------------------------------------------------------------------------
C09_OPS = {"ss", "wr"}          # op classes whose result is C09's business; "j" is shared; the rest is C10's


def op_class(tok):
    return tok.split(":")[0]


def _par_lines(cmd, cases, timeout, nshards=NCPU):
    """run_lines with one process per shard even for small batches (a case with a watchdog time-out takes seconds)"""
    if not cases:
        return []
    k = max(1, min(nshards, len(cases)))
    chunks = [cases[i::k] for i in range(k)]
    with ThreadPoolExecutor(max_workers=k) as ex:
        outs = list(ex.map(lambda ch: run_lines(cmd, ch, 1, timeout, "impl"), chunks))
    res = [None] * len(cases)
    for i, o in enumerate(outs):
        for j, l in enumerate(o):
            res[i + j * k] = l
    return res


def run_impl(ctx, cases, timeout=None, quick_watchdog=False):
    """implementation logs; a crashed/hung shard is re-run so that every case gets its own answer.
    quick_watchdog: 2 s stand for 'never' (only used while minimising an already failing script)"""
    # a shard of the quick tier answers in seconds: a process that has not answered after 150 s is stuck, and what it left
    # unanswered is run again in smaller batches (seen once: ten minutes spent waiting for one process on the unchanged tree)
    if timeout is None:
        timeout = 150 if getattr(ctx, "tier", "quick") == "quick" else 600
    cmd = [ctx.impl_bin, "rt"]
    if quick_watchdog:
        cmd = ["env", "RT_WATCHDOG_MS=2000", "RT_WATCHDOG_SHORT_MS=1000"] + cmd
    out = [None] * len(cases)
    todo = list(range(len(cases)))
    for attempt in range(4):
        if not todo:
            break
        res = _par_lines(cmd, [cases[i] for i in todo], timeout)
        nxt = []
        for i, r in zip(todo, res):
            # HANG = the shard's process ran into the overall time limit (every case has its own watchdog inside the harness, so on
            # a loaded machine this is about throughput, not about this case): the case is run again, in a smaller batch; only a
            # case that still exceeds the limit on the last attempt keeps the verdict
            if r == "SKIPPED" or (r == "HANG" and attempt < 3):
                nxt.append(i)
            else:
                out[i] = r
        todo = nxt
    for i in todo:
        out[i] = "SKIPPED"
    return out


def accept(ctx, cases, logs):
    lines = ["%s # %s" % (c, l) for c, l in zip(cases, logs)]
    return run_lines([ctx.model_bin, "accept"], lines, NCPU, 600, "model")


def held_late_arbiter(case):
    """index of an arbiter created (n:f) between two system stops while the system thread is held, if the case has one"""
    toks = case.split()[2:]
    if "d:90" not in toks or "d:91" not in toks:
        return None
    a, b = toks.index("d:90"), toks.index("d:91")
    ss = [i for i, t in enumerate(toks) if t.startswith("ss:") and a < i < b]
    if len(ss) < 2:
        return None
    late = [i for i, t in enumerate(toks) if t.startswith("n:") and ss[0] < i < ss[1]]
    if not late:
        return None
    k = sum(1 for t in toks[:late[0]] if t.startswith("n:"))
    # not if the script stops or drops that arbiter itself
    if any(t.startswith(("st:%d:" % k, "d:%d" % k)) for t in toks):
        return None
    return k


def classify(case, log_, verdict):
    """which property a rejection belongs to, and a stable class key"""
    toks = case.split()[2:]
    m = re.match(r"bad:(\d+)", verdict)
    code = int(m.group(1)) if m else -1
    if log_.startswith("IDENT"):
        return {"C10"}, "identity"
    if not log_.startswith("ret="):
        return {"C09", "C10"}, "harness-" + log_.split()[0].lower()
    if code == 1:
        # first op whose result the monitor refuses: replay the prefix lengths
        return None, "ops"
    if code == 2:
        return {"C10"}, "task-log"
    if code == 3:
        return {"C09"}, "exit-code"
    if code == 4:
        return {"C09", "C10"}, "join-hang-after-self-stop"
    if code == 5:
        return {"C10"}, "await-log"
    if code == 6:
        return {"C09"}, "arbiter-created-between-two-stops-not-stopped"
    return {"C09", "C10"}, "verdict-" + verdict.replace(":", "")


def first_bad_op(ctx, case, log_):
    """index of the first operation whose result the monitor refuses (reason 1)"""
    head = case.split()
    toks = head[2:]
    fields = dict(f.split("=", 1) for f in log_.split(";"))
    ops = fields.get("ops", "")
    lines = []
    for n in range(1, len(ops) + 1):
        f2 = dict(fields, ops=ops[:n])
        l2 = ";".join("%s=%s" % (k, f2[k]) for k in fields)
        lines.append("%s # %s" % (case, l2))
    res = run_lines([ctx.model_bin, "accept"], lines, 1, 120, "model")
    for n, r in enumerate(res):
        if r == "bad:1":
            return n, toks[n] if n < len(toks) else "?"
    return None, "?"


def owners_of(ctx, case, log_, verdict):
    props, key = classify(case, log_, verdict)
    if props is not None:
        return props, key
    n, tok = first_bad_op(ctx, case, log_)
    cls = op_class(tok)
    res = dict(f.split("=", 1) for f in log_.split(";")).get("ops", "")
    r = res[n] if n is not None and n < len(res) else "?"
    key = "op-%s-%s" % (cls, r)
    if cls in C09_OPS:
        return {"C09"}, key
    if cls == "j":
        return {"C09", "C10"}, key
    # a command sent to an arbiter after run() has returned: if that arbiter was created before the system stop and was not
    # stopped by the script itself, what the refused result shows is that the stop did not end its event loop — C09's business too
    # (for an arbiter whose owner was dropped there is no join to show it)
    toks = case.split()[2:]
    if n is not None and cls in ("sp", "sf") and "wr" in toks[:n]:
        try:
            k = int(tok.split(":")[1])
            first_ss = next(i for i, t in enumerate(toks) if t.startswith("ss:"))
            created_before = sum(1 for t in toks[:first_ss] if t.startswith("n:")) > k
            own_stop = any(t.startswith("st:%d:" % k) for t in toks[:n])
            if created_before and not own_stop:
                return {"C09", "C10"}, key
        except (StopIteration, ValueError, IndexError):
            pass
    return {"C10"}, key


def nontrivial(case, log_):
    """a script counts as non-trivial when at least one task started and some stop was issued"""
    toks = case.split()[2:]
    started = any(f[0] == "a" and "=" in f and f.split("=", 1)[1] for f in log_.split(";") if f and f[0] == "a")
    return started and any(op_class(t) in ("st", "ss") or ":s:" in t or ":e" in t for t in toks)


# ------------------------------------------------------------------------------------------------
# shrinking (the implementation is nondeterministic: a candidate is tried under several timings)
# ------------------------------------------------------------------------------------------------
def remove_op(toks, r):
    """script without operation r; tids (= positions) and arbiter numbers are renumbered; operations that
    referred to what has been removed are dropped"""
    gone_arb = None
    if op_class(toks[r]) == "n":
        gone_arb = sum(1 for t in toks[:r] if op_class(t) == "n")
    out = []
    for i, t in enumerate(toks):
        if i == r:
            continue
        p = t.split(":")
        c = p[0]
        if c in ("sp", "sf", "st", "j", "d", "aw"):
            k = int(p[1])
            if gone_arb is not None:
                if k == gone_arb:
                    continue
                if k > gone_arb:
                    p[1] = str(k - 1)
        if c == "aw":
            tid = int(p[2])
            if tid == r:
                continue
            # positions shift by the number of removed ops before tid (r itself, plus dropped dependants: recomputed below)
        out.append((i, ":".join(p)))
    pos = {old: new for new, (old, _) in enumerate(out)}
    res = []
    for old, t in out:
        p = t.split(":")
        if p[0] == "aw":
            tid = int(p[2])
            if tid not in pos:
                continue
            p[2] = str(pos[tid])
        res.append(":".join(p))
    # a dropped aw shifts nothing that matters (aw ops are not referred to), but positions of later spawns
    # changed again if an aw before them was dropped: recompute until stable
    if len(res) != len(out):
        return None
    return res


def fails(ctx, flavour_pid, rw, toks, seeds, quick_watchdog=True):
    cases = ["%s %d %s" % (rw, s, " ".join(toks)) for s in seeds]
    logs = run_impl(ctx, cases, timeout=300, quick_watchdog=quick_watchdog)
    ver = accept(ctx, cases, logs)
    for c, l, v in zip(cases, logs, ver):
        if v != "ok":
            props, key = owners_of(ctx, c, l, v)
            if flavour_pid in props:
                return c, l, v, key
    return None


def shrink(ctx, pid, case, wall=30.0, reps=8):
    """greedy removal of operations under a short watchdog and a wall-clock budget; the result is confirmed under the
    full watchdog (None if it is not: the caller then reports the original case)"""
    head = case.split()
    rw, seed, toks = head[0], int(head[1]), head[2:]
    seeds = [seed + 4 * j for j in range(reps)] + [seed + 4 * j + 1 for j in range(reps // 2)] + [seed + 4 * j + 2 for j in range(reps // 2)]
    t0 = time.time()
    improved = True
    found = False
    while improved and time.time() - t0 < wall:
        improved = False
        for r in range(len(toks) - 1, -1, -1):
            if time.time() - t0 >= wall:
                break
            cand = remove_op(toks, r)
            if cand is None:
                continue
            if fails(ctx, pid, rw, cand, seeds):
                toks = cand
                found = True
                improved = True
                break
    if not found:
        return None
    return fails(ctx, pid, rw, toks, seeds + [s + 3 for s in seeds], quick_watchdog=False)


# ------------------------------------------------------------------------------------------------
# the check
# ------------------------------------------------------------------------------------------------
# scripts aimed at narrow races; run under many tight timings (seed % 4 == 0: no delays at all between operations)
BATTERY = {
    "c09": [
        # a stop issued immediately after Arbiter::new returned must still reach that arbiter (registered before `new` returns)
        "n:f ss:{a}:f wr j:0",
        "n:s ss:{a}:s wr j:0",
        "n:f n:f n:f ss:{a}:f wr j:0 j:1 j:2",
        "n:s n:f ss:{a}:t wr j:1 j:0",
        # two stops queued back to back: the first one wins
        "n:s ss:{a}:f ss:{b}:f wr j:0",
        "ss:{a}:t ss:{b}:f wr",
        "n:f ss:{a}:s ss:{b}:s ss:{a}:f wr j:0",
        # an arbiter that ended earlier has deregistered (or not yet): the others are still stopped
        "n:s n:s n:s st:1:o j:1 ss:{a}:f wr j:0 j:2",
        "n:f n:f st:0:h ss:{a}:s wr j:0 j:1 sp:1:c:h",
    ],
    "c10": [
        # commands racing stop(): whatever was sent after it must not start, order is kept
        "n:s sp:0:c:o sp:0:c:h sp:0:c:t st:0:o sp:0:c:o sf:0:c:h j:0 sp:0:c:h ss:0:f wr",
        "n:f sf:0:b:o sp:0:x:t sp:0:p:h sf:0:c:o st:0:t sp:0:c:o j:0 ss:0:s wr",
        "n:s sp:0:s:o sp:0:c:o aw:0:1 sp:0:c:h j:0 sp:0:c:t ss:1:f wr",
        "n:s n:s sp:0:c:o sp:1:c:o sp:0:c:t sp:1:c:t aw:0:4 aw:1:5 st:0:o st:1:h j:0 j:1 ss:0:f wr",
    ],
}


def battery_cases(rng, flavour, reps):
    out = []
    for pat in BATTERY[flavour]:
        for r in range(reps):
            a = rng.choice([0, 1, 2, 7, -3, 255])
            b = rng.choice([x for x in [0, 1, 2, 7, -3, 255] if x != a])
            seed = rng.randrange(1, 10 ** 6) * 4 + (0 if r % 4 else 1)
            out.append("%s %d %s" % ("R" if r % 5 == 0 else "W", seed, pat.format(a=a, b=b)))
    return out


def gate_cases(rng, n):
    """sends issued by a task that runs on the arbiter itself (through Arbiter::current()) while commands sent from other
    threads are still waiting in its channel: a 'gate' task keeps the arbiter's thread busy and executes the coordinator's
    sends; FIFO over all senders, and nothing sent after a stop() issued from the arbiter itself ever starts"""
    out = []
    for r in range(n):
        ops = ["n:" + rng.choice("sf")]
        narb = 1
        if rng.random() < 0.3:
            ops.append("n:" + rng.choice("sf"))
            narb = 2
        k = rng.randrange(narb)
        ops.append("sp:%d:g:%s" % (k, rng.choice("oh")))
        g = len(ops) - 1
        ops.append("aw:%d:%d" % (k, g))
        last = None
        for _ in range(rng.randint(2, 5)):
            via = rng.choice("ooghtg")
            kind = rng.choice(["c", "c", "c", "b", "x"])
            ops.append("%s:%d:%s:%s" % ("sf" if rng.random() < 0.6 else "sp", k, kind, via))
            last = len(ops) - 1
            if narb == 2 and rng.random() < 0.3:
                ops.append("sf:%d:c:o" % (1 - k))
        ops.append("aw:%d:%d" % (k, last))        # releases the gate; everything queued so far has started, in order
        if rng.random() < 0.7:
            # a stop issued from the arbiter's own thread, then a send from there and one from outside: neither starts
            ops.append("sp:%d:g:o" % k)
            ops.append("aw:%d:%d" % (k, len(ops) - 1))
            if rng.random() < 0.5:
                ops.append("sf:%d:c:%s" % (k, rng.choice("og")))
            ops.append("st:%d:g" % k)
            ops.append("sf:%d:c:g" % k)
            ops.append("sf:%d:c:o" % k)
        else:
            ops.append("st:%d:%s" % (k, rng.choice("oh")))
        ops.append("j:%d" % k)
        if narb == 2:
            ops += ["st:%d:o" % (1 - k), "j:%d" % (1 - k)]
        seed = rng.randrange(1, 10 ** 6) * 4 + r % 4
        out.append("%s %d %s" % ("R" if r % 5 == 0 else "W", seed, " ".join(ops)))
    return out


def cross_cases(rng, n):
    """commands sent through arbiter A's handle by a task that runs on arbiter B (B's gate task executes the coordinator's sends, so
    the sender's thread has a current arbiter of its own): while A lives they start on A, in order with everything else sent to A;
    once A has been stopped and joined they return false and start nowhere"""
    out = []
    for r in range(n):
        a, b = (0, 1) if rng.random() < 0.5 else (1, 0)
        ops = ["n:" + rng.choice("sf"), "n:" + rng.choice("sf")]
        ops.append("sp:%d:g:%s" % (b, rng.choice("oh")))
        ops.append("aw:%d:%d" % (b, len(ops) - 1))
        last = None
        for _ in range(rng.randint(1, 4)):
            ops.append("%s:%d:%s:%s" % ("sf" if rng.random() < 0.6 else "sp", a, rng.choice(["c", "c", "b", "x"]), rng.choice("xxoh")))
            last = len(ops) - 1
        if rng.random() < 0.6:
            ops.append("aw:%d:%d" % (a, last))
        ops.append("st:%d:%s" % (a, rng.choice("oh")))
        ops.append("j:%d" % a)
        for _ in range(rng.randint(1, 3)):
            ops.append("%s:%d:c:x" % ("sf" if rng.random() < 0.6 else "sp", a))
        # B goes on running for a while (a task of its own is sent and awaited, which also ends the gate task): anything that was
        # wrongly queued on B gets its turn before B is stopped
        ops.append("sf:%d:c:o" % b)
        ops.append("aw:%d:%d" % (b, len(ops) - 1))
        ops.append("st:%d:%s" % (b, rng.choice("oh")))
        ops.append("j:%d" % b)
        seed = rng.randrange(1, 10 ** 6) * 4 + r % 4
        out.append("%s %d %s" % ("R" if r % 4 == 0 else "W", seed, " ".join(ops)))
    return out


def teardown_cases(rng, n):
    """the window between the end of an arbiter's command loop and the exit of its thread: a pending task with a slow destructor
    (kind q) keeps the thread alive while the runtime is torn down; once that teardown has begun (jd = the task is being dropped: the
    loop has ended, its receiver is gone) every spawn — owner handle or cloned handle — must report false and start nothing"""
    out = []
    for r in range(n):
        ops = ["n:" + rng.choice("sf")]
        ops.append("sp:0:q:%s" % rng.choice("oh"))
        q = len(ops) - 1
        if rng.random() < 0.7:
            ops.append("aw:0:%d" % q)
        for _ in range(rng.randint(0, 2)):
            ops.append("%s:0:c:%s" % ("sf" if rng.random() < 0.6 else "sp", rng.choice("oh")))
        ops.append("st:0:%s" % rng.choice("oh"))
        ops.append("jd:0")
        for _ in range(rng.randint(1, 3)):
            ops.append("%s:0:c:%s" % ("sf" if rng.random() < 0.5 else "sp", rng.choice("ooht")))
        ops.append("j:0")
        seed = rng.randrange(1, 10 ** 6) * 4 + r % 4
        out.append("%s %d %s" % ("R" if r % 4 == 0 else "W", seed, " ".join(ops)))
    return out


def burst_cases(rng, n, flavour):
    """a long backlog: while a gate task keeps an arbiter's thread busy, 33..80 commands are queued for it; then either the last of
    them is awaited and the arbiter stopped and joined (C10: all of them start, in order), or the system is stopped from another
    thread with the backlog still queued — the controller's Stop for that arbiter sits behind it — and the arbiter is joined (C09)"""
    out = []
    for r in range(n):
        ops = ["n:" + rng.choice("sf")]
        narb = 1
        if rng.random() < 0.3:
            ops.append("n:f")
            narb = 2
        k = rng.randrange(narb)
        ops.append("sp:%d:g:%s" % (k, rng.choice("oh")))
        ops.append("aw:%d:%d" % (k, len(ops) - 1))
        last = None
        for _ in range(rng.randint(33, 80)):
            ops.append("%s:%d:c:%s" % ("sf" if rng.random() < 0.7 else "sp", k, rng.choice("ooh")))
            last = len(ops) - 1
        if flavour == "c10":
            ops.append("aw:%d:%d" % (k, last))
            ops.append("st:%d:%s" % (k, rng.choice("oh")))
            ops.append("j:%d" % k)
            if narb == 2:
                ops += ["st:%d:o" % (1 - k), "j:%d" % (1 - k)]
        else:
            ops.append("ss:%d:%s" % (rng.choice(CODES), rng.choice("ft")))
            ops.append("wr")
            for j in range(narb):
                ops.append("j:%d" % j)
        seed = rng.randrange(1, 10 ** 6) * 4 + r % 4
        out.append("%s %d %s" % ("R" if r % 3 == 0 else "W", seed, " ".join(ops)))
    return out


def sysarb_stopped_cases(rng, n):
    """the System's own (initial) arbiter is stopped first (d:92 = System::arbiter().stop()); arbiters created under the system,
    commands sent to them and the system stop must work as before: stop_with_code talks to the system controller, not to that arbiter"""
    out = []
    for r in range(n):
        ops = []
        na = rng.randint(0, 3)
        pre = rng.randint(0, na)
        for _ in range(pre):
            ops.append("n:f")
        ops.append("d:92")
        for _ in range(na - pre):
            ops.append("n:f")
        for k in range(na):
            if rng.random() < 0.5:
                ops.append("sf:%d:c:%s" % (k, rng.choice("oh")))
            if rng.random() < 0.25:
                ops.append("st:%d:%s" % (k, rng.choice("oh")))
        code = rng.choice(CODES)
        ops.append("ss:%d:%s" % (code, rng.choice("ftf")))
        if rng.random() < 0.3:
            ops.append("ss:%d:f" % rng.choice([c for c in CODES if c != code]))
        ops.append("wr")
        for k in range(na):
            ops.append("j:%d" % k)
        seed = rng.randrange(1, 10 ** 6) * 4 + r % 4
        out.append("%s %d %s" % ("R" if r % 3 == 0 else "W", seed, " ".join(ops)))
    return out


def dropped_cases(rng, n):
    """arbiters whose owner value was dropped (not stopped) before the system stop: there is no join to show that their event loop
    ended, so after run() has returned a command is sent through a retained handle — it must be refused or at least never start"""
    out = []
    for r in range(n):
        na = rng.randint(1, 3)
        ops = ["n:" + rng.choice("sf") for _ in range(na)]
        dropped = [k for k in range(na) if rng.random() < 0.6] or [rng.randrange(na)]
        for k in range(na):
            if rng.random() < 0.4:
                ops.append("%s:%d:%s:%s" % ("sf" if rng.random() < 0.5 else "sp", k, rng.choice(["c", "p", "b"]), rng.choice("oh")))
        for k in dropped:
            ops.append("d:%d" % k)
        ops.append("ss:%d:%s" % (rng.choice(CODES), rng.choice("ftf")))
        ops.append("wr")
        for k in dropped:
            for _ in range(rng.randint(1, 2)):
                ops.append("%s:%d:c:%s" % ("sf" if rng.random() < 0.5 else "sp", k, rng.choice("ht")))
        for k in range(na):
            if k not in dropped:
                ops.append("j:%d" % k)
        seed = rng.randrange(1, 10 ** 6) * 4 + r % 4
        out.append("%s %d %s" % ("R" if r % 3 == 0 else "W", seed, " ".join(ops)))
    return out


def busy_system_cases(rng, n):
    """the system thread is kept busy (d:90 ... d:91: it drains nothing) while arbiters are created, stopped early and the system is
    stopped: registrations, deregistrations and the exit command pile up in the system's command queue and must all be honoured"""
    out = []
    for r in range(n):
        ops = []
        if rng.random() < 0.4:
            ops.append("n:f")
        ops.append("d:90")
        k0 = len([o for o in ops if o.startswith("n:")])
        na = rng.randint(2, 5)
        for _ in range(na):
            ops.append("n:f")
        tot = k0 + na
        early = [k for k in range(tot) if rng.random() < 0.3]
        for k in early:
            ops.append("st:%d:%s" % (k, rng.choice("oh")))
        for k in range(tot):
            if rng.random() < 0.5:
                ops.append("sf:%d:c:%s" % (k, rng.choice("oh")))
        code = rng.choice(CODES)
        ops.append("ss:%d:%s" % (code, rng.choice("ft")))
        if rng.random() < 0.4:
            # an arbiter created between two stops (all three commands wait in the system's queue): the second stop reaches it
            if rng.random() < 0.6:
                ops.append("n:f")
                tot += 1
            ops.append("ss:%d:f" % rng.choice([c for c in CODES if c != code]))
        ops.append("d:91")
        ops.append("wr")
        for k in range(tot):
            ops.append("j:%d" % k)
        seed = rng.randrange(1, 10 ** 6) * 4 + r % 4
        out.append("%s %d %s" % ("R" if r % 3 == 0 else "W", seed, " ".join(ops)))
    return out


def small(script):
    toks = script.split()
    return len(toks) <= 9 and sum(1 for t in toks if op_class(t) == "n") <= 2


def check(ctx, pid):
    flavour = pid.lower()
    quick = ctx.tier == "quick"
    n_scripts = 300 if quick else 5000
    timings = 4
    corpus = load_corpus(pid, "rt")
    scripts = []
    seen = set()
    while len(scripts) < n_scripts:
        s = gen_script(ctx.rng, flavour)
        if s and s not in seen:
            seen.add(s)
            scripts.append(s)
    cases = list(corpus) + battery_cases(ctx.rng, flavour, 40 if quick else 400)
    if flavour == "c10":
        cases += gate_cases(ctx.rng, 150 if quick else 3000)
        cases += cross_cases(ctx.rng, 60 if quick else 1200)
        cases += teardown_cases(ctx.rng, 40 if quick else 800)
    if flavour == "c09":
        cases += busy_system_cases(ctx.rng, 120 if quick else 2500)
        cases += sysarb_stopped_cases(ctx.rng, 60 if quick else 1200)
        cases += dropped_cases(ctx.rng, 60 if quick else 1200)
    cases += burst_cases(ctx.rng, 10 if quick else 200, flavour)
    for i, s in enumerate(scripts):
        base = ctx.rng.randrange(1, 10 ** 6) * 4
        userun = (i % 4 == 0)
        for t in range(timings):
            cases.append(case_line(s, base + t, userun))
    if os.environ.get("RT_DUMP_CASES"):
        open(os.environ["RT_DUMP_CASES"], "w").write("\n".join(cases) + "\n")
    t0 = time.time()
    logs = run_impl(ctx, cases)
    t_impl = time.time() - t0
    ver = accept(ctx, cases, logs)
    # One thing the model is too coarse for (it lets the System end between any two commands of its queue): while the system
    # thread is held (d:90 .. d:91) the stop, the registration of an arbiter created after it and a second stop wait in the queue
    # together, and the controller handles all of them in the poll that follows the release — the second stop reaches that
    # arbiter, its join must not hang.  Checked here on the log (the family `busy_system_cases` generates the pattern).
    for i, (c, l, v) in enumerate(zip(cases, logs, ver)):
        if v == "ok" and l.startswith("ret="):
            k = held_late_arbiter(c)
            if k is not None:
                toks = c.split()[2:]
                res = dict(f.split("=", 1) for f in l.split(";")).get("ops", "")
                for n, t in enumerate(toks):
                    if t == "j:%d" % k and n < len(res) and res[n] == "h":
                        ver[i] = "bad:6"
    rejected = [(c, l, v) for c, l, v in zip(cases, logs, ver) if v != "ok"]
    mine, foreign = {}, 0
    for c, l, v in rejected:
        props, key = owners_of(ctx, c, l, v)
        if pid in props:
            mine.setdefault(key, []).append((c, l, v))
        else:
            foreign += 1
    for key, lst in list(mine.items())[:2]:
        c, l, v = min(lst, key=lambda x: len(x[0]))
        sh = shrink(ctx, pid, c)
        if sh:
            c2, l2, v2, key2 = sh
        else:
            c2, l2, v2, key2 = c, l, v, key
        ctx.report("property-fails", {
            "stream": "rt", "case": c2, "impl_trace": l2, "verdict": v2, "original_case": c, "original_log": l,
            "n_rejected_in_class": len(lst),
            "what": "the extracted acceptance predicate Rt_accepts rejects the implementation's log of this script "
                    "(reason %s, class %s): the real actix-rt did something %s forbids" % (v2, key2, pid)}, key=key2)

    # ---- model side: the same scripts under sampled schedules, and all schedules for the small ones ----
    distinct = list(dict.fromkeys(" ".join(c.split()[2:]) for c in cases))
    mcases = [case_line(s, 3 * j + t, False) for j, s in enumerate(distinct) for t in range(3)]
    mres = run_lines([ctx.model_bin, "run"], mcases, NCPU, 600, "model")
    mbad = [(c, r) for c, r in zip(mcases, mres) if not r.endswith("# ok")]
    if mbad:
        ctx.report("correspondence-broken", {"stream": "rt-model", "case": mbad[0][0], "model_trace": mbad[0][1],
                                             "what": "the model's own log is rejected by Rt_accepts (contradicts Rt_accepts_sound): driver/extraction problem"},
                   nfi=True)
    # membership: the implementation log must be a log of the model (small scripts, all schedules)
    smalls = [(c, l) for c, l in zip(cases, logs) if small(" ".join(c.split()[2:])) and l.startswith("ret=")]
    if quick:
        smalls = smalls[:360]
    else:
        smalls = smalls[:4000]
    mem = run_lines([ctx.model_bin, "member"], ["%s # %s" % (c, l) for c, l in smalls], NCPU, 900, "model")
    states = transitions = n_in = n_cap = 0
    outs = []
    for (c, l), r in zip(smalls, mem):
        p = r.split()
        if len(p) == 3:
            states += int(p[1])
            transitions += int(p[2])
        if p and p[0] == "in":
            n_in += 1
        elif p and p[0] == "cap":
            n_cap += 1
        else:
            outs.append((c, l, r))
    if outs and not mine:
        c, l, r = min(outs, key=lambda x: len(x[0]))
        ctx.report("correspondence-broken", {
            "stream": "rt-member", "case": c, "impl_trace": l, "answer": r, "n_out": len(outs), "n_checked": len(smalls),
            "what": "correspondence %s/rt-member no longer checks: the implementation produced a log that no schedule of the "
                    "model Model/Rt.v produces (%d of %d small scripts); the acceptance predicate holds on every log" % (pid, len(outs), len(smalls))},
                   key="member-" + r.split()[0], nfi=True)

    nt = set()
    for c, l in zip(cases, logs):
        if nontrivial(c, l):
            nt.add(" ".join(c.split()[2:]))
    ctx.cov["extra_evaluations"] = ctx.cov.get("extra_evaluations", 0) + len(cases)
    ctx.cov["extra_distinct_nontrivial"] = ctx.cov.get("extra_distinct_nontrivial", 0) + len(nt)
    idx = sorted(ctx.rng.sample(range(len(cases)), min(4, len(cases))))
    ctx.cov.setdefault("extra_samples", []).extend({"case": cases[i], "impl_log": logs[i], "verdict": ver[i]} for i in idx)
    ctx.cov["rt"] = {
        "scripts": len(distinct), "corpus_cases": len(corpus), "timings_per_script": timings, "impl_runs": len(cases),
        "impl_wall_s": round(t_impl, 1), "rejected_total": len(rejected), "rejected_other_property": foreign,
        "model_runs_sampled_schedules": len(mcases), "model_runs_rejected": len(mbad),
        "member_checked": len(smalls), "member_in": n_in, "member_capped": n_cap, "member_out": len(outs),
        "hang_results": sum(l.split(";")[1].count("h") for l in logs if l.startswith("ret=")),
        "send_false_results": sum(l.split(";")[1].count("f") for l in logs if l.startswith("ret=")),
        "ops_histogram": _hist(cases),
    }
    ctx.cov["states"] = states
    ctx.cov["transitions"] = transitions
    return logs


def _hist(cases):
    h = {}
    for c in cases:
        for t in c.split()[2:]:
            k = op_class(t)
            h[k] = h.get(k, 0) + 1
    return h


def replay(ctx, r, pid):
    case = r.get("case")
    if not case:
        import json
        print(json.dumps(r, indent=1))
        return 0
    head = case.split()
    rw, seed, toks = head[0], int(head[1]), head[2:]
    seeds = [seed] + [seed + j for j in range(1, 60)]
    cases = ["%s %d %s" % (rw, s, " ".join(toks)) for s in seeds]
    logs = run_impl(ctx, cases, timeout=600)
    ver = accept(ctx, cases, logs)
    bad = [(c, l, v) for c, l, v in zip(cases, logs, ver) if v != "ok"]
    print("script : %s\nruns   : %d timings, %d rejected by Rt_accepts" % (" ".join(toks), len(cases), len(bad)))
    for c, l, v in bad[:3]:
        print("case   : %s\nlog    : %s\nverdict: %s" % (c, l, v))
    print("property predicate on implementation logs: %s" % ("FALSE (violation reproduced)" if bad else "true on all timings tried"))
    return 1 if bad else 0
