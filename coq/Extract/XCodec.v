(* Extraction of the codec models (ExtrOcamlBasic only; numbers stay positive/Z/N/nat). *)
From Coq Require Import Extraction ExtrOcamlBasic.
From AN Require Import Model.Lines Model.Framed.
Extraction Language OCaml.
Extraction "../ocaml/codec/gen.ml"
  run_lines decode_all_eof encode valid
  rinit run_read Lines.decode Lines.decode_eof lp_decode lp_decode_eof lpd_decode_eof lps_decode_eof
  bytes_decode bytes_decode_eof
  run_write lines_encode bytes_encode lp_encode.
