(* Props/C10.v — Arbiter commands run FIFO, at most once, on the arbiter's own thread. *)
From AN Require Import Model.Rt Proofs.RtFacts.

(* block_on returns exactly its future's output, whatever was spawned and however often it pended *)
Theorem C10_block_on : forall pend v spawned ran, fst (block_on pend v spawned ran) = v.
Proof. exact block_on_output. Qed.

Print Assumptions C10_block_on.
