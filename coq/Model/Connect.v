(* Model/Connect.v — executable model of actix-tls/src/connect/
     host.rs, info.rs, connect_addrs.rs, resolver.rs, tcp.rs, connector.rs,
     and of the name derivation / error mapping of the TLS connector services
     (rustls_0_2x.rs, openssl.rs, native_tls.rs).
   No proofs here (Proofs/ConnectFacts.v).

   Strings are lists of bytes (Z); `split_once(':')` on a Rust `str` and on its bytes agree
   because 0x3A never occurs inside a multi-byte UTF-8 sequence.  Ports are Z in 0..65535.
   An IP address is an opaque identifier (Z); a connection handed back by the OS is an opaque
   identifier too.  Everything that belongs to the OS, DNS or a TLS library is a Section
   variable (an oracle): the theorems quantify over all of them. *)
From Coq Require Export List ZArith Bool.
Export ListNotations.
Open Scope Z_scope.

Definition str := list Z.

(* ---------------------------------------------------------------- host.rs *)

(* str::split_once(':') : split at the FIRST ':' *)
Fixpoint split_colon (s : str) : option (str * str) :=
  match s with
  | [] => None
  | c :: t => if c =? 58 then Some ([], t)
              else match split_colon t with
                   | Some (a, r) => Some (c :: a, r)
                   | None => None
                   end
  end.

(* Host::hostname for String and &'static str (the two impls are textually identical) *)
Definition hostname (s : str) : str :=
  match split_colon s with Some (h, _) => h | None => s end.

Definition digit (c : Z) : option Z :=
  if (48 <=? c) && (c <=? 57) then Some (c - 48) else None.

(* the digit loop of core::num::<u16>::from_str_radix(_, 10): checked_mul then checked_add
   (for <= 4 digits Rust skips the checks because they cannot fail; same result) *)
Fixpoint parse_digits (acc : Z) (s : str) : option Z :=
  match s with
  | [] => Some acc
  | c :: t =>
      match digit c with
      | None => None                                      (* InvalidDigit *)
      | Some d =>
          if 65535 <? acc * 10 then None                  (* PosOverflow (checked_mul) *)
          else if 65535 <? acc * 10 + d then None         (* PosOverflow (checked_add) *)
          else parse_digits (acc * 10 + d) t
      end
  end.

(* <u16 as FromStr>::from_str:  "" -> Empty;  "+" / "-" alone -> InvalidDigit;  one leading
   '+' is stripped;  '-' is not stripped for an unsigned type and is then an invalid digit *)
Definition parse_u16 (s : str) : option Z :=
  match s with
  | [] => None
  | [c] => if (c =? 43) || (c =? 45) then None else parse_digits 0 s
  | c :: t => if c =? 43 then parse_digits 0 t else parse_digits 0 s
  end.

(* Host::port : self.split_once(':').and_then(|(_, port)| port.parse().ok()) *)
Definition port (s : str) : option Z :=
  match split_colon s with Some (_, p) => parse_u16 p | None => None end.

(* ---------------------------------------------------- uri.rs (feature `uri`): Host for http::Uri (http 0.2 and 1)
   The URI parser is the `http` crate's; what it hands over is the oracle: scheme_str(), host(), port_u16().
     hostname = host().unwrap_or("")        port = port_u16(), else the well-known port of the scheme, else none *)
Fixpoint str_eqb (a b : str) : bool :=
  match a, b with
  | [], [] => true
  | x :: a', y :: b' => (x =? y) && str_eqb a' b'
  | _, _ => false
  end.

Definition scheme_ports : list (str * Z) := [
  ([104; 116; 116; 112], 80);   (* http *)
  ([104; 116; 116; 112; 115], 443);   (* https *)
  ([119; 115], 80);   (* ws *)
  ([119; 115; 115], 443);   (* wss *)
  ([97; 109; 113; 112], 5672);   (* amqp *)
  ([97; 109; 113; 112; 115], 5671);   (* amqps *)
  ([109; 113; 116; 116], 1883);   (* mqtt *)
  ([109; 113; 116; 116; 115], 8883);   (* mqtts *)
  ([102; 116; 112], 21);   (* ftp *)
  ([102; 116; 112; 115], 990);   (* ftps *)
  ([114; 101; 100; 105; 115], 6379);   (* redis *)
  ([109; 121; 115; 113; 108], 3306);   (* mysql *)
  ([112; 111; 115; 116; 103; 114; 101; 115], 5432)    (* postgres *)].

Definition scheme_to_port (scheme : option str) : option Z :=
  match scheme with
  | None => None
  | Some sc => match find (fun e => str_eqb (fst e) sc) scheme_ports with Some (_, p) => Some p | None => None end
  end.

Definition uri_hostname (host : option str) : str := match host with Some h => h | None => [] end.
Definition uri_port (explicit : option Z) (scheme : option str) : option Z :=
  match explicit with Some p => Some p | None => scheme_to_port scheme end.
(* ConnectInfo::new(uri): hostname(), port() = request port or the stored port (= request port at construction, else 0) *)
Definition uri_ci_port (explicit : option Z) (scheme : option str) : Z :=
  match uri_port explicit scheme with Some p => p | None => 0 end.

(* ---------------------------------------------------- connect_addrs.rs, info.rs *)

Definition ip := Z.
Definition sockaddr := (ip * Z)%type.          (* (address, port) *)

Inductive caddrs := ANone | AOne (a : sockaddr) | AMulti (l : list sockaddr).

Definition is_unresolved (a : caddrs) : bool := match a with ANone => true | _ => false end.
Definition is_resolved (a : caddrs) : bool := negb (is_unresolved a).

(* impl From<Option<SocketAddr>> for ConnectAddrs *)
Definition caddrs_of_option (o : option sockaddr) : caddrs :=
  match o with Some a => AOne a | None => ANone end.

Record cinfo := mkci { ci_req : str; ci_port : Z; ci_addr : caddrs; ci_local : option ip }.

Definition ci_new (req : str) : cinfo :=
  mkci req (match port req with Some p => p | None => 0 end) ANone None.

Definition ci_with_addr (req : str) (a : sockaddr) : cinfo := mkci req 0 (AOne a) None.

Definition set_port (c : cinfo) (p : Z) : cinfo := mkci (ci_req c) p (ci_addr c) (ci_local c).

Definition set_addr (c : cinfo) (o : option sockaddr) : cinfo :=
  mkci (ci_req c) (ci_port c) (caddrs_of_option o) (ci_local c).

(* VecDeque::from_iter(addrs); len < 2 => From(pop_front()) else Multi *)
Definition set_addrs (c : cinfo) (l : list sockaddr) : cinfo :=
  mkci (ci_req c) (ci_port c)
       (match l with
        | [] => ANone
        | [a] => AOne a
        | _ => AMulti l
        end)
       (ci_local c).

Definition set_local_addr (c : cinfo) (i : ip) : cinfo :=
  mkci (ci_req c) (ci_port c) (ci_addr c) (Some i).

Definition ci_hostname (c : cinfo) : str := hostname (ci_req c).

(* ConnectInfo::port : self.request.port().unwrap_or(self.port) *)
Definition ci_get_port (c : cinfo) : Z :=
  match port (ci_req c) with Some p => p | None => ci_port c end.

(* ConnectInfo::addrs() / take_addrs() collected *)
Definition ci_addrs (c : cinfo) : list sockaddr :=
  match ci_addr c with ANone => [] | AOne a => [a] | AMulti l => l end.

(* builder scripts (what a user can do with the public API) *)
Inductive ctor := CNew | CWith (a : sockaddr).
Inductive bop :=
| BPort (p : Z) | BAddr (o : option sockaddr) | BAddrs (l : list sockaddr) | BLocal (i : ip).

Definition apply_bop (c : cinfo) (o : bop) : cinfo :=
  match o with
  | BPort p => set_port c p
  | BAddr a => set_addr c a
  | BAddrs l => set_addrs c l
  | BLocal i => set_local_addr c i
  end.

Definition build (req : str) (k : ctor) (ops : list bop) : cinfo :=
  fold_left apply_bop ops (match k with CNew => ci_new req | CWith a => ci_with_addr req a end).

(* the invariant every API-built request satisfies: Multi holds at least two addresses *)
Definition wf_addrs (a : caddrs) : bool :=
  match a with AMulti (_ :: _ :: _) => true | AMulti _ => false | _ => true end.

(* ------------------------------------------------------------------ error.rs *)

Inductive cerror :=
| ErrResolver            (* Resolver(Box<dyn Error>) : the resolver failed *)
| ErrNoRecords
| ErrInvalidInput
| ErrUnresolved
| ErrIo (e : Z).         (* Io(io::Error) : e identifies the error value *)

Inductive res (A : Type) := ROk (a : A) | RErr (e : cerror) | RPanic.
Arguments ROk {A} a.
Arguments RErr {A} e.
Arguments RPanic {A}.

(* events an observer outside actix-tls can see *)
Inductive ev :=
| ELookup (host : str) (p : Z)                 (* the resolver was asked *)
| EDial (a : sockaddr) (local : option ip)     (* a TCP connect was started *)
| ETlsName (name : str).                       (* name handed to the TLS library for SNI + verification *)

Inductive lookup_ans :=
| LOk (l : list sockaddr)
| LFail                  (* custom resolver: Err(_);  default: to_socket_addrs failed *)
| LJoin (e : Z).         (* default resolver only: the spawn_blocking task did not finish (JoinError) *)

Inductive dial_ans := DOk (conn : Z) | DFail (e : Z).

Inductive tls_backend := Rustls | Openssl.

Inductive tls_res :=
| TOk (conn : Z)             (* Connection<R, TlsStream<IO>> over this connection *)
| TErrInvalidInput           (* io::ErrorKind::InvalidInput "invalid server name", before any handshake *)
| TErrHandshake.             (* rustls: the library's io::Error as is; openssl: ErrorKind::Other + text *)

Inductive full_res := FTcpErr (e : cerror) | FTcpPanic | FTls (r : tls_res).

Section Connector.
  (* oracles *)
  Variable parse_ip : str -> option ip.                       (* str::parse::<IpAddr>() *)
  Variable lookup : str -> Z -> lookup_ans.                   (* Resolve::lookup / to_socket_addrs *)
  Variable dial : nat -> sockaddr -> option ip -> dial_ans.   (* n-th connect(addr, local_addr) of this call *)

  (* ------------------------------------------------------------- resolver.rs *)
  (* ResolverService::call followed by ResolverFut::poll to completion *)
  Definition resolve (c : cinfo) : list ev * res cinfo :=
    if is_resolved (ci_addr c) then ([], ROk c)
    else match parse_ip (ci_hostname c) with
         | Some i => ([], ROk (set_addr c (Some (i, ci_get_port c))))
         | None =>
             ([ELookup (ci_hostname c) (ci_get_port c)],
              match lookup (ci_hostname c) (ci_get_port c) with
              | LFail => RErr ErrResolver
              | LJoin e => RErr (ErrIo e)
              | LOk l => let c' := set_addrs c l in
                         if is_unresolved (ci_addr c') then RErr ErrNoRecords else ROk c'
              end)
         end.

  (* ------------------------------------------------------------------ tcp.rs *)
  (* TcpConnectorFut::poll, Response variant: `cur` is the address of the connect in flight,
     `rest` the queue `addrs` (None is the empty queue).  Structural recursion on `rest`. *)
  Fixpoint tcp_loop (n : nat) (cur : sockaddr) (rest : list sockaddr) (local : option ip)
    : list ev * res Z :=
    match dial n cur local with
    | DOk s => ([EDial cur local], ROk s)
    | DFail e =>
        match rest with
        | [] => ([EDial cur local], RErr (ErrIo e))
        | a :: t => let '(evs, r) := tcp_loop (S n) a t local in (EDial cur local :: evs, r)
        end
    end.

  (* TcpConnectorService::call + TcpConnectorFut::new + poll to completion.
     The result carries the request back (Connection { req, io }). *)
  Definition tcp_connect (c : cinfo) : list ev * res (str * Z) :=
    let wrap (x : list ev * res Z) :=
      let '(evs, r) := x in
      (evs, match r with ROk s => ROk (ci_req c, s) | RErr e => RErr e | RPanic => RPanic end) in
    match ci_addr c with
    | ANone => ([], RErr ErrUnresolved)
    | AOne a => wrap (tcp_loop 0 a [] (ci_local c))
    | AMulti [] => ([], RPanic)                      (* addrs.pop_front().unwrap() *)
    | AMulti (a :: t) => wrap (tcp_loop 0 a t (ci_local c))
    end.

  (* ------------------------------------------------------------ connector.rs *)
  (* ConnectServiceResponse: Resolve, then Connect *)
  Definition connect (c : cinfo) : list ev * res (str * Z) :=
    let '(e1, r) := resolve c in
    match r with
    | ROk c' => let '(e2, r2) := tcp_connect c' in (e1 ++ e2, r2)
    | RErr e => (e1, RErr e)
    | RPanic => (e1, RPanic)
    end.

  (* ---------------------------------------------- TLS connector services *)
  Variable name_ok : tls_backend -> str -> bool.
    (* Rustls: ServerName::try_from(name).is_ok();
       Openssl: !name.contains('\0') && ConnectConfiguration::into_ssl(name).is_ok()
       (until the fix: commit 0777ede the OpenSSL service panicked here instead of returning an error) *)
  Variable handshake_ok : tls_backend -> Z -> str -> bool.
    (* the TLS library's verdict: the handshake over connection `conn` succeeds when the
       peer is verified for `name` (certificate chain + name match) *)

  (* TlsConnectorService::call + ConnectFut::poll to completion on Connection { req, io } *)
  Definition tls_connect (b : tls_backend) (req : str) (conn : Z) : list ev * tls_res :=
    let name := hostname req in                    (* Connection::hostname() = req.hostname() *)
    if name_ok b name then
      ([ETlsName name], if handshake_ok b conn name then TOk conn else TErrHandshake)
    else ([], TErrInvalidInput).

  (* the pipeline a client builds: Connector, then TlsConnector on its Connection *)
  Definition connect_tls (b : tls_backend) (c : cinfo) : list ev * full_res :=
    let '(e1, r) := connect c in
    match r with
    | ROk (req, s) => let '(e2, t) := tls_connect b req s in (e1 ++ e2, FTls t)
    | RErr e => (e1, FTcpErr e)
    | RPanic => (e1, FTcpPanic)
    end.
End Connector.

(* ConnectInfo::take_addrs: the collected addresses and the request left behind (mem::take) *)
Definition ci_take_addrs (c : cinfo) : list sockaddr * cinfo :=
  (ci_addrs c, mkci (ci_req c) (ci_port c) ANone (ci_local c)).
