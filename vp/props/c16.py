"""C16 — local-channel mpsc: FIFO, exactly once, clean closure, no lost wake-up."""
import os
import subprocess

from common import Stream, shrink_tokens, log

META = {
    "id": "C16",
    "driver": "local",
    "harness": "h_local",
    "coq_targets": ["Extract/XLocal.vo"],
    "level": "proof",
    "design_ref": "§5 C16",
    "technique": "Coq proof (inductive invariant + simulation of five trace checkers, one of them the FIFO queue spec) over a "
                 "hand-written model of mpsc.rs + extracted-model vs real channel differential run with counting wakers",
    "level_text": "Theorems C16_fifo / C16_fifo_prefix / C16_send_err / C16_wake / C16_wake_once / C16_end / C16_holds are proved for "
                  "ALL op scripts (any length, any number of senders) over {Send, CloneSender, DropSender, Close, PollRecv, "
                  "SenderFromReceiver, DropReceiver} on a Gallina model of local-channel/src/mpsc.rs (+ LocalWaker). The model is tied "
                  "to the code by running the extracted model and the real channel on every valid op sequence up to the length bound "
                  "with <= 3 live senders and 2 waker identities (explicitly to length 6, by per-subtree digests to length 8, thorough 9) plus random "
                  "sequences of length <= 40; per-op observations (send result, poll result, wakes per waker id) are compared op by "
                  "op and the extracted predicate C16_ok is the monitor on the implementation's traces.",
    "level_note": "Trusted: Coq kernel, extraction (ExtrOcamlBasic), OCaml driver, Rust harness (counting wakers, handle table); "
                  "Rc strong count is modelled as the number of live handles; RefCell borrow panics are outside the model "
                  "(the harness would print PANIC).",
    "rule": "stream c16: every valid op sequence (ops only on live handles, <= 3 senders alive at once, waker ids 0/1, the k-th send "
            "carries value k) of length <= Lx (Lx = 6), enumerated explicitly, + seeded random sequences of length 8..40 with <= 5 live "
            "senders, 3 waker ids and ~3% ops on dead handles. sweep16: for every valid prefix of length 4, both executables enumerate "
            "all valid extensions up to total length L (quick 8, thorough 9) and print count + order-independent 62-bit digest of all "
            "traces; a digest mismatch is expanded into explicit cases. non-trivial = the model trace contains a wake, a failed send "
            "or an end-of-stream.",
    "trusted_base": ["Rc::strong_count == number of live Sender/Receiver handles (handle table of the script layer)",
                     "std VecDeque push_back/pop_front/clear modelled as list operations",
                     "sweep16 digests: 62-bit multiplicative hash summed over sequences (collision = missed difference)"],
    "assumptions": ["single-threaded use (the types are !Send); no re-entrancy from a waker's wake() into the channel "
                    "(counting wakers do not call back)"],
}

MAX_SENDERS = 3


# ---- valid-sequence enumeration (same rule as ocaml/local/driver.ml ops16 and harness ops16) ----
def ops16(alive, rx, k, max_senders=MAX_SENDERS, wakers=2):
    n = sum(alive)
    out = []
    for i, b in enumerate(alive):
        if b:
            out.append("s%d.%d" % (i, k))
            if n < max_senders:
                out.append("c%d" % i)
            out.append("d%d" % i)
            out.append("x%d" % i)
    if rx:
        out += ["p%d" % w for w in range(wakers)]
        if n < max_senders:
            out.append("f")
        out.append("r")
    return out


def track16(st, t):
    alive, rx, k = st
    c = t[0]
    if c == "s":
        return (alive, rx, k + 1)
    if c in "cf":
        return (alive + (True,), rx, k)
    if c == "d":
        i = int(t[1:])
        return (tuple(False if j == i else b for j, b in enumerate(alive)), rx, k)
    if c == "r":
        return (alive, False, k)
    return st


INIT = ((True,), True, 1)


def enum16(prefix, st, maxlen, exact=False):
    """all valid sequences extending `prefix` (list of tokens, tracker state st) up to total length maxlen"""
    out = []

    def go(seq, st):
        if not exact or len(seq) == maxlen:
            out.append(" ".join(seq))
        if len(seq) < maxlen:
            for t in ops16(*st):
                seq.append(t)
                go(seq, track16(st, t))
                seq.pop()
    go(list(prefix), st)
    return out


def state_after(tokens):
    st = INIT
    for t in tokens:
        st = track16(st, t)
    return st


def random_case(rng):
    n = rng.randint(8, 40)
    st = INIT
    seq = []
    # bias: keep the receiver alive most of the time, poll often
    for _ in range(n):
        alive, rx, k = st
        ops = ops16(alive, rx, k, max_senders=5, wakers=3)
        if rng.random() < 0.03:
            # an op on a dead / not yet existing handle
            t = rng.choice(["s%d.%d" % (len(alive) + 1, k), "d%d" % len(alive), "x%d" % (len(alive) + 2), "p0", "f", "r", "c7"])
        elif not ops:
            break
        else:
            weights = []
            for t in ops:
                c = t[0]
                weights.append({"s": 4, "p": 5, "c": 1.5, "d": 2, "x": 0.4, "f": 1, "r": 0.25}[c])
            t = rng.choices(ops, weights)[0]
        # only track valid ops
        valid = (t in ops)
        seq.append(t)
        if valid:
            st = track16(st, t)
    return " ".join(seq)


# ---- the extracted monitor, run in a persistent driver process --------------------------------
class Monitor:
    def __init__(self, ctx, mode):
        self.cmd = [ctx.model_bin, mode]
        self.p = None
        self.cache = {}
        self.calls = 0

    def ask(self, case, trace):
        key = (case, trace)
        if key in self.cache:
            return self.cache[key]
        if "#" in trace or "\n" in trace:
            return "FAIL unparsable-trace"
        if self.p is None or self.p.poll() is not None:
            self.p = subprocess.Popen(self.cmd, stdin=subprocess.PIPE, stdout=subprocess.PIPE, text=True, bufsize=1)
        self.p.stdin.write("%s # %s\n" % (case, trace))
        self.p.stdin.flush()
        r = self.p.stdout.readline().strip()
        self.calls += 1
        if len(self.cache) < 200000:
            self.cache[key] = r
        return r

    def batch(self, pairs):
        """verdicts for many (case, trace) pairs in one process"""
        inp = "".join("%s # %s\n" % (c, t) for c, t in pairs)
        p = subprocess.run(self.cmd, input=inp, stdout=subprocess.PIPE, text=True)
        return p.stdout.split("\n")[:len(pairs)]


def make_monitor(ctx, mode="mon16"):
    mon = Monitor(ctx, mode)

    def monitor(case, impl, model):
        # impl == model: the theorem C16_holds (C16_ok s (chan_run s) = true for all s) applies to this trace;
        # otherwise the extracted C16_ok itself judges the implementation's trace.
        if impl == model:
            return True
        return mon.ask(case, impl) == "ok"

    def finding_key(case, impl, model):
        r = mon.ask(case, impl)
        return r.replace("FAIL ", "").replace(" ", "-") if r != "ok" else ""
    return mon, monitor, finding_key


def nontrivial(case, model):
    return ("^" in model) or (" er" in " " + model) or (" N" in " " + model)


def to_coq(case, model):
    def op(t):
        c = t[0]
        if c == "s":
            i, v = t[1:].split(".")
            return "Send %s %s" % (i, v)
        if c in "cdxp":
            return {"c": "CloneSender", "d": "DropSender", "x": "Close", "p": "PollRecv"}[c] + " " + t[1:]
        return {"f": "SenderFromReceiver", "r": "DropReceiver"}[c]

    def ob(t):
        parts = t.split("^")
        r = parts[0]
        ret = {"-": "RUnit", "!": "RInvalid", "ok": "RSent true", "er": "RSent false", "P": "RPoll Pending",
               "N": "RPoll Finished"}.get(r) or "RPoll (Item %s)" % r[1:]
        return "Obs (%s) [%s]" % (ret, "; ".join(parts[1:]))
    if model.startswith(("CRASH", "HANG", "SKIPPED", "DRIVER")):
        return None
    ops = "[" + "; ".join(op(t) for t in case.split()) + "]"
    obs = "[" + "; ".join(ob(t) for t in model.split()) + "]"
    return ("chan_run (%s : list chan_op)" % ops, "(%s : list chan_obs)" % obs)


COQ_IMPORTS = "From AN Require Import Model.Chan.\n"


def explicit_stream(ctx, cases, describe, exhaustive=False):
    mon, monitor, finding_key = make_monitor(ctx)
    st = Stream("c16", "c16", cases, monitor=monitor, nontrivial=nontrivial, shrink=shrink_tokens(" "),
                finding_key=finding_key, to_coq=to_coq, coq_imports=COQ_IMPORTS, exhaustive=exhaustive, describe=describe)
    st.mon = mon
    st.n_enum = 0
    return st


def audit_monitor(ctx, st, impl, model, k=20000):
    """The per-case monitor trusts the theorem when impl == model.  Audit that shortcut: run the EXTRACTED predicate on a
    sample of implementation traces (all corpus cases + k random ones) and require that it accepts every trace that equals
    the model's (a rejection means theorem, extraction or driver disagree)."""
    cases = common_cases(ctx, st)
    n = len(cases)
    ncorp = n - len(st.cases)
    idx = sorted(set(range(ncorp)) | set(ctx.rng.sample(range(n), min(k, n))))
    verdicts = st.mon.batch([(cases[j], impl[j]) for j in idx])
    bad = [(cases[j], impl[j]) for j, v in zip(idx, verdicts) if v != "ok" and impl[j] == model[j]]
    ctx.cov["monitor_audit_" + st.name] = {"extracted_predicate_evaluated_on_impl_traces": len(idx), "rejected_model_traces": len(bad)}
    if bad:
        ctx.report("correspondence-broken",
                   {"stream": st.name, "case": bad[0][0], "impl_trace": bad[0][1], "model_trace": bad[0][1],
                    "what": "the extracted predicate rejects a trace of the model itself: theorem %s_holds and the extracted "
                            "monitor disagree (extraction/driver fault)" % ctx.pid}, nfi=True)


def common_cases(ctx, st):
    from common import load_corpus
    return load_corpus(ctx.pid, st.name) + list(st.cases)


def streams(ctx):
    lx = 6
    if os.environ.get("VERIF_C16_EXPLICIT"):
        lx = int(os.environ["VERIF_C16_EXPLICIT"])
    enum = enum16([], INIT, lx)
    nrand = 30000 if ctx.tier == "quick" else 600000
    rnd = [random_case(ctx.rng) for _ in range(nrand)]
    st = explicit_stream(ctx, enum + rnd,
                         "exhaustive: all %d valid op sequences of length <= %d (<= 3 live senders, 2 waker ids); "
                         "random: %d sequences of length 8..40 (<= 5 live senders, 3 waker ids, ~3%% ops on dead handles)"
                         % (len(enum), lx, nrand))
    st.n_enum = len(enum)
    # the other public entry points: Sink for Sender (poll_ready / start_send / poll_flush; poll_close before a sender is dropped)
    # and Receiver::recv() — same cases, same model
    enum2 = enum16([], INIT, min(lx, 5))
    rnd2 = rnd[:len(rnd) // 3]
    st2 = explicit_stream(ctx, enum2 + rnd2,
                          "the same sequences (%d enumerated of length <= %d, %d random) with every send through Sink::poll_ready/start_send/"
                          "poll_flush, Sink::poll_close before every sender drop and every receive as one poll of a fresh recv() future"
                          % (len(enum2), min(lx, 5), len(rnd2)), exhaustive=False)
    st2.name = "c16sink"
    st2.mode = (["c16sink"], ["c16"])
    st2.to_coq = None
    st2.n_enum = 0
    return [st, st2]


def custom(ctx):
    plen = 4
    overlap = overlap_nt = 0
    for st in streams(ctx):
        impl0, model0 = ctx.run_stream(st)
        audit_monitor(ctx, st, impl0, model0)
        # enumerated sequences of length >= plen are visited again by the sweep: do not count them twice
        ncorp = len(impl0) - len(st.cases)
        for c, m in zip(st.cases[:st.n_enum], model0[ncorp:ncorp + st.n_enum]):
            if len(c.split()) >= plen:
                overlap += 1
                overlap_nt += 1 if nontrivial(c, m) else 0
    # ---- digest sweep over all valid sequences up to length L --------------------------------
    L = 8 if ctx.tier == "quick" else 9
    if os.environ.get("VERIF_C16_SWEEP"):
        L = int(os.environ["VERIF_C16_SWEEP"])
    prefixes = enum16([], INIT, plen, exact=True)
    cases = ["%d|%s" % (L, p) for p in prefixes]
    sw = Stream("sweep16", "sweep16", cases, timeout=1700)
    import time
    t0 = time.time()
    impl, model = ctx.run_both(sw, cases)
    total = 0
    nt = 0
    bad = []
    for c, i, m in zip(cases, impl, model):
        if i != m or not m.startswith("n="):
            bad.append((c, i, m))
        if m.startswith("n="):
            f = dict(x.split("=") for x in m.split())
            total += int(f["n"])
            nt += int(f["nt"])
    ctx.cov["extra_evaluations"] = ctx.cov.get("extra_evaluations", 0) + max(0, total - overlap)
    ctx.cov["extra_distinct_nontrivial"] = ctx.cov.get("extra_distinct_nontrivial", 0) + max(0, nt - overlap_nt)
    ctx.cov["sweep16"] = {"max_len": L, "prefix_len": plen, "subtrees": len(cases), "sequences": total, "nontrivial": nt,
                          "digest_mismatches": len(bad), "wall_s": round(time.time() - t0, 2),
                          "also_in_explicit_stream": overlap,
                          "exhaustive_for": "all valid op sequences of length %d..%d, <= %d live senders, waker ids 0/1" % (plen, L, MAX_SENDERS)}
    ctx.cov.setdefault("extra_samples", []).append({"stream": "sweep16", "case": cases[len(cases) // 2],
                                                    "impl": impl[len(cases) // 2], "model": model[len(cases) // 2]})
    if bad:
        # expand the smallest mismatching subtrees into explicit cases: monitor, shrink and report as usual
        log("[C16] %d of %d subtree digests differ; expanding" % (len(bad), len(cases)))
        exp = []
        for c, i, m in bad[:6]:
            toks = c.split("|", 1)[1].split()
            exp += enum16(toks, state_after(toks), min(L, 8))
            if len(exp) > 400000:
                break
        before = len(ctx.violations) + len(ctx.known_hits)
        ctx.run_stream(explicit_stream(ctx, exp, "expansion of %d subtrees whose sweep digests differ" % min(len(bad), 6)))
        if len(ctx.violations) + len(ctx.known_hits) == before:
            c, i, m = bad[0]
            ctx.report("correspondence-broken",
                       {"stream": "sweep16", "case": c, "impl_trace": i, "model_trace": m,
                        "what": "correspondence C16/sweep16 no longer checks: trace digests differ on %d of %d subtrees but no "
                                "explicit difference was found up to length 8" % (len(bad), len(cases))}, nfi=True)
