"""run a /verif check against a MUTATED scratch copy of /repo (worktree /tmp/wt_local) without touching /repo"""
import sys, importlib, time
sys.path.insert(0, '/verif/vp')
import common
common.EVID = '/tmp/mut_evidence'
common.REPLAY = '/tmp/mut_evidence/replay'
def build_harness(pkg, timeout=1500, features=None):
    t0 = time.time()
    rc, out = common.sh(['cargo', 'build', '--release', '--offline'], cwd='/tmp/h_local_mut', timeout=timeout)
    if rc != 0:
        raise common.BuildError("cargo build failed:\n" + out[-3000:])
    return '/tmp/h_local_mut/target/release/h_local', round(time.time() - t0, 1)
common.build_harness = build_harness
plugin = importlib.import_module('props.' + sys.argv[1].lower())
if len(sys.argv) > 2:
    sys.exit(common.replay(plugin, sys.argv[2]))
sys.exit(common.run_property(plugin, 'quick', 1))
