(* Extraction of the local-channel / local-waker / Counter models and of the C16/C17
   trace predicates (ExtrOcamlBasic only; numbers stay positive/Z/N/nat). *)
From Coq Require Import Extraction ExtrOcamlBasic.
From AN Require Import Model.Counter Model.Chan.
Extraction Language OCaml.
Extraction "../ocaml/local/gen.ml"
  chan_init chan_step chan_run C16_ok C16_failing_clause
  ctr_init ctr_step ctr_run C17_counter_ok
  lw_run C17_local_waker_ok.
