"""C01 — each accepted connection reaches exactly one call of its listener's service (accept-loop side)."""
import os
from common import Stream
from props.srvlib import (COMMON_META, bld_stream, gen_scripts, compare, shrink_ops, parse_case, parse_trace, env_ops_of,
                          first_fault_index, in_progress, settled_epilogue, undispatched)

META = dict(COMMON_META)
META.update({
    "id": "C01",
    "design_ref": "§5 C01",
    "technique": "Coq proof (per-id occurrence counting as a potential that no step of the accept loop or of its environment can increase; "
                 "tagging/dispatch-log invariant; case analysis of send_connection) over ALL scripts incl. worker deaths + extracted model vs the "
                 "real Accept over real TCP/Unix listeners, connection identity read back from the accepted stream",
    "level_text": "C01_conservation: for every script whatsoever (any limit, any number of workers/listeners, kills, respawns, commands, injected accept "
                  "errors, anything scheduled at the send/inc yield point) with pairwise distinct connection ids, the list backlog ++ queued ++ picked ++ gone "
                  "of every reachable state is duplicate-free, contains only ids connected to an existing listener and - unless the accept thread has "
                  "panicked - every connected id (C01_conservation_wf: always, for well-formed scripts; C01_conservation_exact: a permutation). "
                  "C01_stays: from any state an id never leaves the places, i.e. it leaves a queue only into picked or with an explicit "
                  "EvReleased/EvLost/EvDropNoWorker event. C01_no_silent_drop: send_connection emits the 'no workers' drop only after a failed send "
                  "that left `handles` empty; C01_live_worker_delivers: accept_one never drops while some handle's worker is alive, it ends with a "
                  "dispatch; C01_no_kill_no_loss: without Kill no EvLost/EvDropNoWorker/EvFaulted ever occurs. C01_once: at most one dispatch event "
                  "per id and every held connection has its dispatch event to exactly the generation holding it. C01_routing: the token carried in "
                  "accept queues, worker queues, picked lists and dispatch events is the listener the id was connected to. C01_builder_tokens: for "
                  "every chain of bind/listen/bind_uds/listen_uds calls sockets[t] and factories[t]/services[t] stem from the same call and the "
                  "wrap_worker_services assertion never fires. Tie: the same scripts run on the real Accept (stepped driver) over real loopback "
                  "TCP/Unix listeners; every snapshot is compared with the model and the conservation/once/routing predicate is evaluated on the "
                  "implementation trace, where the connection id is read from the accepted stream and the token is the one the real Conn delivered. "
                  "Worker side of the last clause (Model/Wrk.v): C01_worker_no_call_after_stop (once a stop was taken up no service is called "
                  "again, whatever is queued or pushed later) and C01_worker_queue_released (entering the graceful shutdown releases every queued "
                  "connection); tie: stream wrk01, the stepped real ServerWorker with stops overtaking queued connections. "
                  "C01_e2e_oracle_reachable / C01_e2e_ab_oracle_reachable: every state of the end-to-end oracle (abortive clients and "
                  "back-pressure episodes included) is the run of a script without spurious WouldBlocks.",
    "level_note": "The worker's own services[msg.token].call is the worker group's theorem (Model/Wrk.v, C07), FromStream::from_mio is exercised, not modelled; "
                  "ServerBuilder -> Accept/worker plumbing is a separate pure model (Model/Builder.v) read off builder.rs/accept.rs/worker.rs, not run "
                  "against the real builder here. Trusted base as C02. A connection in the hand of an accept thread that panics is lost (err <> None); "
                  "SrvFault.no_panic_no_spin shows this cannot happen for well-formed scripts.",
    "rule": "model-guided random scripts (ocaml/server/driver gen): W in 1..3, L in 1..3, listeners T/U/TU/TT/UT (two-listener kinds weighted), length 10..40, "
            "flag mixes with kills/respawns, commands, stop, injected errors, yield schedules, direct accept-thread calls, settling epilogue; plus the "
            "hand-written corpus (two listeners, kill with queued connections, 'no workers' drop, drain, yield-point connect+kill). "
            "Non-trivial = at least three dispatches and (two listeners both receiving a dispatch, or a fault notice); distinct = distinct script text.",
})


# ---------------------------------------------------------------------------------------------------
# the property predicate on an IMPLEMENTATION trace: returns None if fine, else (key, message)
# ---------------------------------------------------------------------------------------------------
def script_homes(ops):
    """(home, order, top): listener of every id named by a Connect op (also inside yield schedules), the index of the op that names it,
    and the set of ids connected at top level (those Connects certainly ran)"""
    home, where, top = {}, {}, set()
    for k, o in enumerate(ops):
        for e in env_ops_of(o):
            if e[0] == "c":
                tok, cid = e[1:].split(":")
                home[int(cid)] = int(tok)
                where[int(cid)] = k
        if o[0] == "c":
            top.add(int(o.split(":")[1]))
    return home, where, top


def departure_ok(place, g, cid, eops):
    if place == "p":
        return ("f%d:%d" % (g, cid)) in eops
    return ("d%d" % g) in eops or ("k%d" % g) in eops or (("p%d" % g) in eops and ("f%d:%d" % (g, cid)) in eops)


def c01_pred(case, trace):
    W, L, K, ops = parse_case(case)
    snaps = parse_trace(trace)
    home, where, top = script_homes(ops)
    nkill = not any(e[0] == "k" for o in ops for e in env_ops_of(o))
    dispatched = {}          # cid -> generation it was sent to
    refused = set()
    left = set()
    prev = {}
    for k, sn in enumerate(snaps):
        op = ops[k] if k < len(ops) else "?"
        if sn.bad or sn.err:
            return ("crash", "op %d (%s): %s" % (k, op, sn.bad or sn.err))
        eops = env_ops_of(op)
        # events of this operation
        new_d = {}
        for ev in sn.events:
            if ev[0] == "D":
                cid, rest = ev[1:].split("/")
                tok, g = rest.split(">")
                cid, tok, g = int(cid), int(tok), int(g)
                if cid in dispatched:
                    return ("twice", "op %d (%s): connection %d dispatched twice (worker %d, then %d)" % (k, op, cid, dispatched[cid], g))
                if cid not in home:
                    return ("unknown", "op %d (%s): dispatch of connection %d which no client opened" % (k, op, cid))
                if home[cid] != tok:
                    return ("token", "op %d (%s): connection %d was connected to listener %d but dispatched with token %d" % (k, op, cid, home[cid], tok))
                if cid in refused:
                    return ("refused", "op %d (%s): connection %d was refused and is dispatched nevertheless" % (k, op, cid))
                dispatched[cid] = g
                new_d[cid] = g
            elif ev[0] == "X":
                refused.add(int(ev[1:].split("/")[0]))
            elif ev[0] == "F" and nkill:
                return ("fault", "op %d (%s): fault notice %s although no worker was killed" % (k, op, ev))
        # where every connection is now
        loc = {}
        for w in sn.workers:
            for place, lst in (("q", w["q"]), ("p", w["p"])):
                for cid, tok in lst:
                    if cid in loc:
                        return ("twice", "op %d (%s): connection %d is in two places (worker %d %s and worker %d %s)" %
                                (k, op, cid, loc[cid][0], loc[cid][1], w["g"], place))
                    loc[cid] = (w["g"], place)
                    if cid not in home:
                        return ("unknown", "op %d (%s): worker %d holds connection %d which no client opened" % (k, op, w["g"], cid))
                    if home[cid] != tok:
                        return ("token", "op %d (%s): worker %d holds connection %d with token %d, it was connected to listener %d" %
                                (k, op, w["g"], cid, tok, home[cid]))
                    if dispatched.get(cid) != w["g"]:
                        return ("route", "op %d (%s): worker %d holds connection %d which was %s" %
                                (k, op, w["g"], cid, "never dispatched" if cid not in dispatched else "dispatched to worker %d" % dispatched[cid]))
                    if cid in left:
                        return ("reappear", "op %d (%s): connection %d reappears at worker %d after it had left" % (k, op, cid, w["g"]))
                    if cid in refused:
                        return ("refused", "op %d (%s): refused connection %d is held by worker %d" % (k, op, cid, w["g"]))
                    if cid not in prev and cid not in new_d:
                        return ("route", "op %d (%s): connection %d appears at worker %d without a dispatch in this operation" % (k, op, cid, w["g"]))
        for cid, (g, place) in prev.items():
            if cid in loc:
                if loc[cid][0] != g:
                    return ("twice", "op %d (%s): connection %d moved from worker %d to worker %d" % (k, op, cid, g, loc[cid][0]))
                if place == "p" and loc[cid][1] == "q":
                    return ("twice", "op %d (%s): picked connection %d is back in the queue of worker %d" % (k, op, cid, g))
            else:
                left.add(cid)
                if not departure_ok(place, g, cid, eops):
                    return ("vanish", "op %d (%s): connection %d vanished from worker %d (%s) without a completion, drain or kill of that worker" %
                            (k, op, cid, g, "queue" if place == "q" else "picked"))
        if "{" not in op:
            for cid, g in new_d.items():
                if loc.get(cid) != (g, "q"):
                    return ("vanish", "op %d (%s): connection %d was dispatched to worker %d but is not in its queue" % (k, op, cid, g))
        prev = loc
    if len(snaps) != len(ops) or not snaps:
        return None
    last = snaps[-1]
    # nothing can have been dropped for want of workers if one of the initial workers is alive at the end (it was alive, and its handle
    # present, throughout: C01_live_worker_delivers); then the accept queues are FIFO without gaps: an id connected at top level before the op
    # naming a dispatched id of the same listener must have been dispatched (or refused) itself
    if any(w["open"] and w["g"] < W for w in last.workers):
        latest = {}
        for cid in dispatched:
            t = home[cid]
            latest[t] = max(latest.get(t, -1), where[cid])
        for cid in sorted(top):
            if cid not in dispatched and cid not in refused and where[cid] < latest.get(home[cid], -1):
                return ("lost", "connection %d (listener %d) was never dispatched although a connection made later to the same listener was, "
                                "and a worker was alive throughout" % (cid, home[cid]))
    # fault-free scripts with the settling epilogue: spare capacity at a live worker => everything connectable was dispatched
    if nkill and first_fault_index(ops) == len(ops) and settled_epilogue(ops):
        if not last.paused and not last.stopped and not any(last.lsts) and any(in_progress(w) < L for w in last.workers if w["open"]):
            und = undispatched(ops, snaps)
            if und:
                return ("lost", "after the settling epilogue a live worker has spare capacity but connection(s) %s were never dispatched" % sorted(und))
    return None


def nontrivial(case, model_trace):
    try:
        toks, nd, fault = set(), 0, False
        for sn in parse_trace(model_trace):
            if sn.bad:
                continue
            for ev in sn.events:
                if ev[0] == "D":
                    nd += 1
                    toks.add(ev.split("/")[1].split(">")[0])
                elif ev[0] == "F":
                    fault = True
        return nd >= 3 and (len(toks) >= 2 or fault)
    except Exception:  # noqa: BLE001
        return False


def finding_key(case, impl, model):
    try:
        r = c01_pred(case, impl)
        return r[0] if r else "trace-mismatch"
    except Exception:  # noqa: BLE001
        return "unparsable"


def c01_wrk_pred(case, trace):
    """worker side of C01 on the implementation trace of the stepped real ServerWorker (stream wrk01): every connection sent to the
    worker reaches at most one service call, none after its guard was released (R<cid>: the guard of a connection is dropped — when
    its service call ends, or unserved); and once the worker has taken a stop command up (the first poll after one was sent through
    a still open stop channel) no further service call starts: what is still queued is released, not served.
    Returns None or the reason."""
    from props import wrkgen as g
    main = g.main_part(trace)
    if main.startswith(("PANIC", "CRASH", "HANG", "SKIPPED")):
        return "harness: %s" % main[:40]
    ops = [t for t in case.split(";", 1)[1].split(" ") if t]
    segs = main.split("|")
    if len(segs) != len(ops):
        return None        # an unparsable / truncated trace is the comparison's business
    called, released = {}, {}
    stop_sent = stopping = stop_closed = False
    for k, (op, seg) in enumerate(zip(ops, segs)):
        if op == "p" and stop_sent:
            stopping = True
        for t in seg.split(" "):
            if not t:
                continue
            if t[0] == "k" and "." in t:
                cid = t.split(".")[1]
                if cid in called:
                    return "op %d (%s): connection %s reached a service call twice" % (k, op, cid)
                if cid in released:
                    return "op %d (%s): connection %s was served after it had been released" % (k, op, cid)
                if stopping:
                    return "op %d (%s): connection %s was served although the worker had taken up a stop: queued connections are released, not served" % (k, op, cid)
                called[cid] = k
            elif t[0] == "R" and t[1:].isdigit():
                cid = t[1:]
                if cid in released:
                    return "op %d (%s): the guard of connection %s was released twice" % (k, op, cid)
                released[cid] = k
        if op == "y":
            stop_closed = True      # the server side of the stop channel is gone: later stops cannot be delivered
        if op in ("sg", "sf") and not stop_closed:
            stop_sent = True
    return None


def wrk_stream(ctx):
    """the worker side: the stepped real ServerWorker (harness h_worker / driver worker, shared with C06 and C07)"""
    from props import wrkgen as g
    import common
    full = ctx.tier != "quick"
    cases = g.c06_special(ctx.rng) + g.c06_random(ctx.rng, 3000 if not full else 100000) + g.c07_random(ctx.rng, 2000 if not full else 60000, stops=True)
    hbin, _ = common.build_harness("h_worker")
    common.build_driver("worker")
    st = Stream("wrk01", "wrk", cases, compare=lambda i, m: g.main_part(i) == g.main_part(m),
                monitor=lambda c, i, m: c01_wrk_pred(c, i) is None,
                nontrivial=lambda c, m: "k" in g.main_part(m) and ("sg" in c or "sf" in c), shrink=g.shrink_case,
                finding_key=lambda c, i, m: "wrk:" + (c01_wrk_pred(c, i) or "trace-mismatch").split(":")[-1].strip()[:50], timeout=900,
                describe="%d stepped runs of the real ServerWorker with stop commands (graceful/forced) overtaking queued connections, "
                         "readiness scripts and restarts: at most one service call per connection, nothing served once a stop was taken up, "
                         "released means never served" % len(cases))
    st.impl_cmd = [hbin, "wrk"]
    st.model_cmd = [os.path.join(common.OCAML, "worker", "driver"), "wrk"]
    return st


def streams(ctx):
    n = 3000 if ctx.tier == "quick" else 80000
    flags = ["e", "ye", "cye", "cidye", "k", "ky", "kye", "kcye", "kciye", "kdy", "kcidyse", "kdyse", "cyse", "dyse"]
    cases = gen_scripts(ctx, n, flags, ls=(1, 2, 3), kinds=("T", "U", "TU", "TU", "UT", "UT", "TT", "TT"))
    return [Stream("srv", "srv", cases, compare=compare,
                   monitor=lambda c, i, m: c01_pred(c, i) is None,
                   nontrivial=nontrivial, shrink=shrink_ops, finding_key=finding_key, timeout=400,
                   describe="%d generated scripts (with and without worker faults, one or two listeners) + corpus; every snapshot compared; "
                            "on the implementation trace: no id in two places, token = listener connected to, dispatched at most once and to the "
                            "worker holding it, no reappearance, departures only by completion/drain/kill, no gap in a listener's FIFO while a "
                            "worker lives, everything dispatched after settling" % n),
            bld_stream(ctx, ("C01",), ["a", "ca", "cia", "k", "cka", "cb", "bx", "s", "csz", "as", "bf", "cbf"], 112, 1500),
            wrk_stream(ctx)]
