(* Proofs/LinesFacts.v — lemmas about Model/Lines.v *)
From AN Require Import Model.Lines.
From Coq Require Import Lia.

Lemma split_lf_none l : split_lf l = None -> ~ In 10 l.
Proof.
  induction l as [|b t IH]; cbn [split_lf]; intros H; [intros []|].
  destruct (Z.eqb_spec b 10) as [->|Hb]; [discriminate|].
  destruct (split_lf t) as [[a r]|]; [discriminate|].
  intros [Hin|Hin]; [congruence|exact (IH eq_refl Hin)].
Qed.

Lemma split_lf_some l a r : split_lf l = Some (a, r) -> l = a ++ 10 :: r /\ ~ In 10 a.
Proof.
  revert a r; induction l as [|b t IH]; cbn [split_lf]; intros a r H; [discriminate|].
  destruct (Z.eqb_spec b 10) as [->|Hb].
  - injection H as <- <-. split; [reflexivity|intros []].
  - destruct (split_lf t) as [[a' r']|] eqn:E; [|discriminate].
    injection H as <- <-. destruct (IH _ _ eq_refl) as [-> Hn].
    split; [reflexivity|]. intros [Hin|Hin]; [congruence|exact (Hn Hin)].
Qed.

Lemma split_lf_app a r : ~ In 10 a -> split_lf (a ++ 10 :: r) = Some (a, r).
Proof.
  induction a as [|b t IH]; cbn [app split_lf]; intros Hn.
  - reflexivity.
  - destruct (Z.eqb_spec b 10) as [->|Hb]; [exfalso; apply Hn; now left|].
    rewrite IH; [reflexivity|]. intros Hin; apply Hn; now right.
Qed.

Lemma split_lf_notin l : ~ In 10 l -> split_lf l = None.
Proof.
  induction l as [|b t IH]; cbn [split_lf]; intros Hn; [reflexivity|].
  destruct (Z.eqb_spec b 10) as [->|Hb]; [exfalso; apply Hn; now left|].
  rewrite IH; [reflexivity|]. intros Hin; apply Hn; now right.
Qed.

Lemma split_lf_shorter l a r : split_lf l = Some (a, r) -> (length r < length l)%nat.
Proof.
  intros H. apply split_lf_some in H as [-> _]. rewrite app_length. cbn [length]. lia.
Qed.

(* the reference splitter, phrased with split_lf *)
Lemma ref_split_none cur l : split_lf l = None -> ref_split cur l = ([], rev cur ++ l).
Proof.
  revert cur; induction l as [|b t IH]; cbn [split_lf ref_split]; intros cur H.
  - now rewrite app_nil_r.
  - destruct (Z.eqb_spec b 10) as [->|Hb]; [discriminate|].
    destruct (split_lf t) as [[a r]|]; [discriminate|].
    rewrite IH by reflexivity. cbn [rev]. now rewrite <- app_assoc.
Qed.

Lemma ref_split_some cur l a r :
  split_lf l = Some (a, r) ->
  ref_split cur l = let '(ls, t) := ref_split [] r in ((rev cur ++ a) :: ls, t).
Proof.
  revert cur a r; induction l as [|b t IH]; cbn [split_lf ref_split]; intros cur a r H.
  - discriminate.
  - destruct (Z.eqb_spec b 10) as [->|Hb].
    + injection H as <- <-. now rewrite app_nil_r.
    + destruct (split_lf t) as [[a' r']|] eqn:E; [|discriminate].
      injection H as <- <-. rewrite (IH _ _ _ eq_refl). cbn [rev].
      now rewrite <- app_assoc.
Qed.

Lemma decode_loop_spec fuel src :
  (length src < fuel)%nat -> decode_loop fuel src = Some (ref_lines src).
Proof.
  revert src; induction fuel as [|f IH]; intros src Hlen; [lia|].
  cbn [decode_loop]. unfold decode, ref_lines.
  destruct (split_lf src) as [[a r]|] eqn:E.
  - rewrite (ref_split_some [] _ _ _ E).
    pose proof (split_lf_shorter _ _ _ E) as Hr.
    rewrite IH by lia. unfold ref_lines.
    destruct (ref_split [] r) as [ls t]. reflexivity.
  - rewrite (ref_split_none [] _ E). reflexivity.
Qed.

Theorem decode_all_spec src : decode_all src = Some (ref_lines src).
Proof. apply decode_loop_spec. lia. Qed.

(* residue of decode_all contains no LF *)
Lemma ref_split_residue cur l ls r :
  ref_split cur l = (ls, r) -> ~ In 10 cur -> ~ In 10 r.
Proof.
  revert cur ls r; induction l as [|b t IH]; cbn [ref_split]; intros cur ls r H Hc.
  - injection H as <- <-. now rewrite <- in_rev.
  - destruct (Z.eqb_spec b 10) as [->|Hb].
    + destruct (ref_split [] t) as [ls' r'] eqn:E. injection H as <- <-.
      eapply IH; [exact E|intros []].
    + eapply IH; [exact H|]. intros [Hin|Hin]; [congruence|exact (Hc Hin)].
Qed.

Lemma ends_cr_removelast l : ends_cr l = true -> l = removelast l ++ [13].
Proof.
  induction l as [|b t IH]; intros H; [discriminate|].
  destruct t as [|c t'].
  - cbn [ends_cr] in H. apply Z.eqb_eq in H. subst. reflexivity.
  - change (ends_cr (c :: t') = true) in H. specialize (IH H).
    change (removelast (b :: c :: t')) with (b :: removelast (c :: t')).
    cbn [app]. now rewrite <- IH.
Qed.

(* the structural definition agrees with "the last byte is CR" *)
Lemma ends_cr_last l : ends_cr l = match rev l with b :: _ => b =? 13 | [] => false end.
Proof.
  induction l as [|b t IH]; [reflexivity|].
  destruct t as [|c t']; [reflexivity|].
  change (ends_cr (b :: c :: t')) with (ends_cr (c :: t')). rewrite IH.
  change (rev (b :: c :: t')) with (rev (c :: t') ++ [b]).
  destruct (rev (c :: t')) as [|x r] eqn:E; [|reflexivity].
  exfalso. apply (f_equal (@length Z)) in E. rewrite rev_length in E. discriminate.
Qed.

(* end of stream on a tail without LF *)
Lemma decode_eof_tail r :
  ~ In 10 r ->
  decode_eof r = match strip_cr r with
                 | [] => (None, if ends_cr r then [13] else [])
                 | b :: t => (Some (finish (b :: t)), if ends_cr r then [13] else [])
                 end.
Proof.
  intros Hn. unfold decode_eof, decode. rewrite (split_lf_notin _ Hn).
  unfold strip_cr. destruct r as [|b t]; [reflexivity|].
  destruct (ends_cr (b :: t)) eqn:E; [|reflexivity].
  destruct (removelast (b :: t)); reflexivity.
Qed.

Lemma decode_eof_cr_only : decode_eof [13] = (None, [13]).
Proof. reflexivity. Qed.

Lemma decode_eof_loop_tail fuel r :
  ~ In 10 r -> (2 <= fuel)%nat ->
  decode_eof_loop fuel r = Some (ref_eof_tail r, if ends_cr r then [13] else []).
Proof.
  intros Hn Hf. destruct fuel as [|[|f]]; try lia.
  cbn [decode_eof_loop]. rewrite (decode_eof_tail _ Hn). unfold ref_eof_tail.
  destruct (strip_cr r) as [|b t] eqn:E; [reflexivity|].
  destruct (ends_cr r); reflexivity.
Qed.

Theorem decode_all_eof_tail r :
  ~ In 10 r ->
  decode_all_eof r = Some (ref_eof_tail r, if ends_cr r then [13] else []).
Proof. intros Hn. apply decode_eof_loop_tail; [exact Hn|lia]. Qed.

(* the whole harness observation *)
Theorem run_lines_spec src :
  run_lines src =
  let '(its, r) := ref_lines src in
  Some (its, ref_eof_tail r, if ends_cr r then [13] else []).
Proof.
  unfold run_lines. rewrite decode_all_spec. unfold ref_lines.
  destruct (ref_split [] src) as [ls r] eqn:E.
  rewrite decode_all_eof_tail; [reflexivity|].
  eapply ref_split_residue; [exact E|intros []].
Qed.

(* decode_eof applied to a buffer that still has complete lines behaves as decode *)
Lemma decode_eof_line a r :
  ~ In 10 a -> decode_eof (a ++ 10 :: r) = (Some (finish (strip_cr a)), r).
Proof.
  intros Hn. unfold decode_eof, decode. now rewrite split_lf_app.
Qed.

(* ---- invalid UTF-8 is an error, never a different string ---- *)
Lemma finish_ok l s : finish l = IOk s -> s = l /\ valid l = true.
Proof. unfold finish. destruct (valid l) eqn:E; intros H; [injection H as <-; auto|discriminate]. Qed.

Lemma finish_err l : finish l = IErr <-> valid l = false.
Proof. unfold finish. destruct (valid l); split; intros; congruence. Qed.

(* ---- encode / round trip ---- *)
Definition good (s : list Z) : Prop := valid s = true /\ ~ In 10 s /\ ends_cr s = false.

Definition encode_all (ss : list (list Z)) : list Z := fold_left (fun dst s => encode s dst) ss [].

Lemma encode_all_concat ss dst :
  fold_left (fun dst s => encode s dst) ss dst = dst ++ concat (map (fun s => s ++ [10]) ss).
Proof.
  revert dst; induction ss as [|s ss IH]; cbn [fold_left map concat]; intros dst.
  - now rewrite app_nil_r.
  - rewrite IH. unfold encode. now rewrite <- !app_assoc.
Qed.

Lemma ref_split_encoded ss :
  Forall good ss ->
  ref_split [] (concat (map (fun s => s ++ [10]) ss)) = (ss, []).
Proof.
  induction ss as [|s ss IH]; cbn [map concat]; intros HF; [reflexivity|].
  inversion HF as [|? ? (Hv & Hn & Hc) HF']; subst.
  rewrite <- app_assoc. cbn [app].
  rewrite (ref_split_some [] _ s _ (split_lf_app _ _ Hn)).
  rewrite (IH HF'). reflexivity.
Qed.

Theorem roundtrip ss :
  Forall good ss -> decode_all (encode_all ss) = Some (map IOk ss, []).
Proof.
  intros HF. rewrite decode_all_spec. unfold encode_all. rewrite encode_all_concat.
  cbn [app]. unfold ref_lines. rewrite (ref_split_encoded _ HF). f_equal. f_equal.
  induction HF as [|s ss (Hv & Hn & Hc) HF IH]; cbn [map]; [reflexivity|].
  rewrite IH. unfold strip_cr, finish. now rewrite Hc, Hv.
Qed.

(* the splitter itself is right: joining its lines with LF and appending the tail
   gives back the input, and neither a line nor the tail contains an LF *)
Lemma ref_split_sound cur l ls r :
  ~ In 10 cur -> ref_split cur l = (ls, r) ->
  rev cur ++ l = concat (map (fun s => s ++ [10]) ls) ++ r
  /\ Forall (fun s => ~ In 10 s) ls /\ ~ In 10 r.
Proof.
  revert cur ls r; induction l as [|b t IH]; cbn [ref_split]; intros cur ls r Hc H.
  - injection H as <- <-. cbn [map concat app]. rewrite app_nil_r.
    repeat split; [constructor|now rewrite <- in_rev].
  - destruct (Z.eqb_spec b 10) as [->|Hb].
    + destruct (ref_split [] t) as [ls' r'] eqn:E. injection H as <- <-.
      destruct (IH [] ls' r' (fun x => x) E) as (Hj & Hf & Hr). cbn [rev app] in Hj.
      cbn [map concat]. rewrite <- !app_assoc. cbn [app]. rewrite <- Hj.
      repeat split; [|exact Hr]. constructor; [now rewrite <- in_rev|exact Hf].
    + assert (Hc' : ~ In 10 (b :: cur)) by (intros [Hin|Hin]; [congruence|exact (Hc Hin)]).
      destruct (IH _ _ _ Hc' H) as (Hj & Hf & Hr). cbn [rev] in Hj.
      rewrite <- app_assoc in Hj. cbn [app] in Hj. repeat split; assumption.
Qed.

Theorem ref_split_correct l ls r :
  ref_split [] l = (ls, r) ->
  l = concat (map (fun s => s ++ [10]) ls) ++ r
  /\ Forall (fun s => ~ In 10 s) ls /\ ~ In 10 r.
Proof. intros H. exact (ref_split_sound [] l ls r (fun x => x) H). Qed.

(* decode_eof called repeatedly on ANY buffer (complete lines still in it — what Framed does when the transport reports
   EOF before the buffered bytes were ever decoded, e.g. a Framed built from parts with a pre-filled read buffer):
   the lines of the reference splitter, then the tail *)
Lemma decode_eof_loop_spec : forall fuel src,
  (length src + 2 <= fuel)%nat ->
  decode_eof_loop fuel src =
  let '(its, r) := ref_lines src in Some (its ++ ref_eof_tail r, if ends_cr r then [13] else []).
Proof.
  induction fuel as [|f IH]; intros src Hlen; [lia|].
  destruct (split_lf src) as [[a r]|] eqn:E.
  - cbn [decode_eof_loop]. unfold decode_eof, decode. rewrite E.
    pose proof (split_lf_shorter _ _ _ E) as Hr. rewrite IH by lia.
    unfold ref_lines. rewrite (ref_split_some [] _ _ _ E).
    destruct (ref_split [] r) as [ls t]. reflexivity.
  - pose proof (split_lf_none _ E) as Hn.
    rewrite (decode_eof_loop_tail (S f) src Hn) by lia.
    unfold ref_lines. rewrite (ref_split_none [] _ E). reflexivity.
Qed.

Theorem decode_all_eof_spec src :
  decode_all_eof src =
  let '(its, r) := ref_lines src in Some (its ++ ref_eof_tail r, if ends_cr r then [13] else []).
Proof. apply decode_eof_loop_spec. lia. Qed.
