(* Base/Utf8.v — UTF-8 validity exactly as core::str::from_utf8 decides it
   (Unicode Table 3-7 "Well-Formed UTF-8 Byte Sequences").  Bytes are Z in 0..255.
   Executable definitions only; lemmas are in Proofs/Utf8Facts.v. *)
From Coq Require Export List ZArith Bool.
Export ListNotations.
Open Scope Z_scope.

Definition byte := Z.

Definition inr (lo hi b : Z) : bool := (lo <=? b) && (b <=? hi).
Definition cont (b : Z) : bool := inr 128 191 b.

Fixpoint valid (l : list Z) : bool :=
  match l with
  | [] => true
  | b0 :: t0 =>
    if inr 0 127 b0 then valid t0 else
    match t0 with [] => false | b1 :: t1 =>
      if inr 194 223 b0 then cont b1 && valid t1 else
      match t1 with [] => false | b2 :: t2 =>
        if inr 224 239 b0 then
          (if b0 =? 224 then inr 160 191 b1 else if b0 =? 237 then inr 128 159 b1 else cont b1)
          && cont b2 && valid t2
        else
        match t2 with [] => false | b3 :: t3 =>
          if inr 240 244 b0 then
            (if b0 =? 240 then inr 144 191 b1 else if b0 =? 244 then inr 128 143 b1 else cont b1)
            && cont b2 && cont b3 && valid t3
          else false
        end end end end.

(* str::is_char_boundary on the byte list of a str *)
Definition boundary (l : list Z) (i : nat) : bool :=
  match i with
  | O => true
  | _ => if Nat.eqb i (length l) then true
         else match nth_error l i with Some b => negb (cont b) | None => false end
  end.

Definition is_byte (b : Z) : bool := inr 0 255 b.
Definition bytes_ok (l : list Z) : bool := forallb is_byte l.
