(* Proofs/SrvTheorems.v — the statements Props/C02..C05,C08 close with `exact`. *)
From Coq Require Import List ZArith NArith Bool Lia.
From AN Require Import Model.Srv Proofs.AvailFacts Proofs.SrvInv.
Import ListNotations.

Lemma limit_all_runs (L : Z) W kinds os :
  (1 <= L)%Z -> 1 <= W <= 512 ->
  forallb nf_op os = true -> forallb (tok_ok (length kinds)) os = true ->
  let st := run L (init W kinds) os in
  err st = None /\
  forall g w, nth_error (ws st) g = Some w ->
    (Z.of_nat (length (w_queue w)) + Z.of_nat (length (w_picked w)) <= L)%Z.
Proof.
  intros HL HW Hnf Htok st.
  pose proof (reachable_inv L HL W kinds os HW Hnf Htok) as HI.
  split; [exact (proj1 HI)|]. intros g w Hg. exact (Inv_limit L _ _ _ _ _ HI Hg).
Qed.

Lemma limit_at_yield (L : Z) nl g0 st os g w :
  (1 <= L)%Z -> Inv L nl (Some g0) st -> forallb nf_eop os = true ->
  nth_error (ws (env_steps L st os)) g = Some w ->
  (Z.of_nat (length (w_queue w)) + Z.of_nat (length (w_picked w)) <= L)%Z.
Proof.
  intros HL HI Hnf Hg.
  exact (Inv_limit L _ _ _ _ _ (proj1 (env_steps_inv L nl _ os st Hnf HI)) Hg).
Qed.

(* C03, the flag never lies once the notices are processed *)
Lemma no_lost_wakeup (L : Z) W kinds os :
  (1 <= L)%Z -> 1 <= W <= 512 ->
  forallb nf_op os = true -> forallb (tok_ok (length kinds)) os = true ->
  let st := run L (init W kinds) os in
  forall g w, nth_error (ws st) g = Some w ->
    (* a worker flagged unavailable with no notice of its own pending is saturated ... *)
    (getb (av st) (N.of_nat g) = false -> nwakes (N.of_nat g) (wq st) = 0 ->
       (Z.of_nat (length (w_queue w)) + Z.of_nat (length (w_picked w)) = L)%Z) /\
    (* ... so a worker with spare capacity is flagged, or its wake-up is in the queue (exactly one) *)
    ((Z.of_nat (length (w_queue w)) + Z.of_nat (length (w_picked w)) < L)%Z ->
       getb (av st) (N.of_nat g) = true \/ nwakes (N.of_nat g) (wq st) = 1) /\
    (* and a flagged worker really has spare capacity *)
    (getb (av st) (N.of_nat g) = true ->
       (Z.of_nat (length (w_queue w)) + Z.of_nat (length (w_picked w)) < L)%Z).
Proof.
  intros HL HW Hnf Htok st g w Hg.
  pose proof (reachable_inv L HL W kinds os HW Hnf Htok) as HI. fold st in HI.
  split; [|split].
  - intros Hb Hn. exact (Inv_no_lost_wakeup L _ _ _ _ HI Hg Hn Hb).
  - intros Hcap. destruct (getb (av st) (N.of_nat g)) eqn:Hb; [now left|right].
    destruct HI as (_ & _ & _ & _ & _ & _ & _ & _ & Hw). destruct (Hw _ _ Hg) as (_ & _ & (Hc & _ & Hf)).
    cbn [isgap] in *. rewrite Hb in Hf. destruct (Hf eq_refl) as (_ & [[? ?]|[? ?]]); [lia|assumption].
  - intros Hb. exact (Inv_flag_capacity L _ _ _ _ HI Hg Hb).
Qed.

(* ---------- C04 ---------- *)
From AN Require Import Proofs.SrvLog.

Lemma rr_window (L : Z) W kinds os post seg pre :
  (1 <= L)%Z -> 1 <= W <= 512 ->
  forallb nf_op os = true -> forallb (tok_ok (length kinds)) os = true ->
  trace (run L (init W kinds) os) = post ++ seg ++ pre ->
  forallb (fun e => negb (is_skip e)) seg = true -> length (dtargets seg) <= W ->
  NoDup (dtargets seg) /\
  exists cur, cur < W /\ dtargets seg = map (fun i => (cur + i) mod W) (seq 0 (length (dtargets seg))).
Proof.
  intros HL HW Hnf Htok Htr Hns Hlen.
  destruct (reachable_tinv L HL W kinds os HW Hnf Htok) as [[T1 _] _].
  eapply window_distinct; try eassumption. lia.
Qed.

Lemma log_events_ok (L : Z) W kinds os e :
  (1 <= L)%Z -> 1 <= W <= 512 ->
  forallb nf_op os = true -> forallb (tok_ok (length kinds)) os = true ->
  In e (trace (run L (init W kinds) os)) -> dispatch_ok L e.
Proof.
  intros HL HW Hnf Htok Hin.
  destruct (reachable_tinv L HL W kinds os HW Hnf Htok) as [[_ T2] _].
  rewrite Forall_forall in T2. now apply T2.
Qed.

(* ---------- C02, second sentence: connections beyond the limit stay in the backlog ---------- *)
(* when every worker is at its limit no worker is flagged ... *)
Lemma saturated_unavailable (L : Z) W kinds os :
  (1 <= L)%Z -> 1 <= W <= 512 ->
  forallb nf_op os = true -> forallb (tok_ok (length kinds)) os = true ->
  let st := run L (init W kinds) os in
  (forall g w, nth_error (ws st) g = Some w ->
     (Z.of_nat (length (w_queue w)) + Z.of_nat (length (w_picked w)) = L)%Z) ->
  available (av st) = false.
Proof.
  intros HL HW Hnf Htok st Hsat.
  pose proof (reachable_inv L HL W kinds os HW Hnf Htok) as HI. fold st in HI.
  destruct (available (av st)) eqn:Ha; [exfalso|reflexivity].
  pose proof HI as (_ & _ & _ & _ & Hwf & Hbits & _).
  destruct (proj1 (available_getb (av st) Hwf) Ha) as (i & Hi & Hb).
  pose proof (Hbits i Hi Hb) as Hlt.
  destruct (nth_error (ws st) (N.to_nat i)) as [w|] eqn:Hw; [|apply nth_error_None in Hw; lia].
  assert (Hb' : getb (av st) (N.of_nat (N.to_nat i)) = true) by (rewrite N2Nat.id; exact Hb).
  pose proof (Inv_flag_capacity L _ _ _ _ HI Hw Hb') as Hcap.
  specialize (Hsat _ _ Hw). lia.
Qed.

(* ... and with no worker flagged an accept call (hence a whole poll turn's listener part) changes nothing: the connection
   stays in the kernel backlog *)
Lemma unavailable_accept_noop (L : Z) st tok ys :
  err st = None -> available (av st) = false -> accept L st tok ys = (st, ys).
Proof.
  intros He Ha. unfold accept. destruct (paused st); [reflexivity|]. unfold accept_fuel.
  destruct (nth_error (lsts st) tok); cbn [accept_loop]; now rewrite He, Ha.
Qed.

Lemma saturated_accept_noop (L : Z) W kinds os tok ys :
  (1 <= L)%Z -> 1 <= W <= 512 ->
  forallb nf_op os = true -> forallb (tok_ok (length kinds)) os = true ->
  let st := run L (init W kinds) os in
  (forall g w, nth_error (ws st) g = Some w ->
     (Z.of_nat (length (w_queue w)) + Z.of_nat (length (w_picked w)) = L)%Z) ->
  accept L st tok ys = (st, ys).
Proof.
  intros HL HW Hnf Htok st Hsat. apply unavailable_accept_noop.
  - exact (proj1 (reachable_inv L HL W kinds os HW Hnf Htok)).
  - now apply saturated_unavailable.
Qed.
