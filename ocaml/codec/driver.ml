(* Driver for the extracted codec models.  One case per stdin line, one trace per stdout line.
   usage: driver <mode>     modes: c15 (input: hex bytes)  c15enc (input: hex strings separated by ,) *)
open Gen

let rec pos_of_int n = if n = 1 then XH else if n land 1 = 1 then XI (pos_of_int (n lsr 1)) else XO (pos_of_int (n lsr 1))
let z_of_int n = if n = 0 then Z0 else if n > 0 then Zpos (pos_of_int n) else Zneg (pos_of_int (-n))
let rec int_of_pos = function XH -> 1 | XO p -> 2 * int_of_pos p | XI p -> 2 * int_of_pos p + 1
let int_of_z = function Z0 -> 0 | Zpos p -> int_of_pos p | Zneg p -> - (int_of_pos p)

let bytes_of_hex s =
  let n = String.length s / 2 in
  List.init n (fun i -> z_of_int (int_of_string ("0x" ^ String.sub s (2*i) 2)))
let hex_of_bytes l = String.concat "" (List.map (fun b -> Printf.sprintf "%02x" (int_of_z b)) l)

let show_item = function IOk s -> "O:" ^ hex_of_bytes s | IErr -> "E"
let show_items l = String.concat "," (List.map show_item l)

let c15 line =
  match run_lines (bytes_of_hex line) with
  | None -> "OUT_OF_FUEL"
  | Some ((its, its2), r) -> show_items its ^ "|" ^ show_items its2 ^ "|" ^ hex_of_bytes r

(* encode every string of the case into one buffer, then run the decoder on it *)
let c15enc line =
  let ss = if line = "" then [] else List.map bytes_of_hex (String.split_on_char ',' line) in
  let buf = List.fold_left (fun dst s -> encode s dst) [] ss in
  hex_of_bytes buf ^ "#" ^ (match run_lines buf with
    | None -> "OUT_OF_FUEL"
    | Some ((its, its2), r) -> show_items its ^ "|" ^ show_items its2 ^ "|" ^ hex_of_bytes r)

let () =
  let f = match Sys.argv.(1) with
    | "c15" -> c15 | "c15enc" -> c15enc
    | m -> failwith ("unknown mode " ^ m) in
  try while true do
    let line = input_line stdin in
    print_string (f line); print_char '\n'
  done with End_of_file -> ()
