//! factory-level cases (filled in with the factory model)
pub fn fac_case(_line: &str) -> String {
    "TODO".to_string()
}
