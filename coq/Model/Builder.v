(* Model/Builder.v — ServerBuilder's token allocation (builder.rs:208-345), what Accept does with
   `sockets` (accept.rs:84-104, 407) and what a worker does with `factories` (worker.rs:341-347,
   721-735, 709).  Pure; no proofs here.

   Code modelled:
     fn next_token(&mut self) -> usize { let token = self.token; self.token += 1; token }
     bind:       let sockets = bind_addr(..)?;  for lst in sockets { let token = self.next_token();
                   self.factories.push(StreamNewService::create(name, token, factory.clone(), lst.local_addr()?));
                   self.sockets.push((token, name, MioListener::Tcp(lst))); }
     listen:     lst.set_nonblocking(true)?; let addr = lst.local_addr()?; let token = self.next_token();
                   self.factories.push(..token..); self.sockets.push((token, name, ..));
     bind_uds:   remove_file (error other than NotFound => Err); bind(addr)?; self.listen_uds(name, lst, factory)
     listen_uds: lst.set_nonblocking(true)?; let token = self.next_token(); push; push
   Every call takes the builder by value and returns io::Result<Self>: after an Err there is no builder. *)
From Coq Require Import List Arith.
Import ListNotations.

Inductive lkind := KTcp | KUds.

Inductive call :=
| Bind (k : nat) (fail_at : option nat)
    (* bind_addr resolved to k bound listeners; `lst.local_addr()?` of listener number fail_at fails
       (after next_token(), before either push) *)
| BindErr                    (* bind_addr(..)? fails *)
| Listen (ok : bool)         (* ok = set_nonblocking and local_addr succeed *)
| BindUds (ok : bool)        (* ok = remove_file, bind and set_nonblocking succeed *)
| ListenUds (ok : bool).

(* the position of a call in the chain stands for its (name, factory) arguments *)
Record factory := { f_token : nat; f_call : nat }.                 (* StreamNewService { token, inner, .. } *)
Record socket := { s_token : nat; s_call : nat; s_kind : lkind }.  (* (token, name, MioListener) *)

Record builder := { b_token : nat; b_factories : list factory; b_sockets : list socket }.

Definition empty : builder := {| b_token := 0; b_factories := []; b_sockets := [] |}.

(* next_token() and the two pushes for one listener *)
Definition push_one (id : nat) (kd : lkind) (b : builder) : builder :=
  let token := b_token b in
  {| b_token := S token;
     b_factories := b_factories b ++ [{| f_token := token; f_call := id |}];
     b_sockets := b_sockets b ++ [{| s_token := token; s_call := id; s_kind := kd |}] |}.

Fixpoint bind_loop (id k : nat) (fail_at : option nat) (j : nat) (b : builder) : option builder :=
  match k with
  | O => Some b
  | S k' =>
      if match fail_at with Some m => Nat.eqb m j | None => false end then None
      else bind_loop id k' fail_at (S j) (push_one id KTcp b)
  end.

Definition do_call (id : nat) (c : call) (b : builder) : option builder :=
  match c with
  | Bind k fa => bind_loop id k fa 0 b
  | BindErr => None
  | Listen ok => if ok then Some (push_one id KTcp b) else None
  | BindUds ok | ListenUds ok => if ok then Some (push_one id KUds b) else None
  end.

(* a chain of calls; None = some call returned Err (the builder is gone) *)
Fixpoint build (id : nat) (cs : list call) (b : builder) : option builder :=
  match cs with
  | [] => Some b
  | c :: r => match do_call id c b with Some b' => build (S id) r b' | None => None end
  end.

(* Accept::new_with_sockets keeps `sockets` in order, registers each under MioToken(its token);
   a readiness event with token t makes accept() use `sockets[t]` *)
Definition registered_token (s : socket) : nat := s_token s.
Definition accept_socket (b : builder) (t : nat) : option socket := nth_error (b_sockets b) t.

(* worker start: `for (idx, factory) in factories.iter().enumerate()`: create() yields (factory.token, service) *)
Definition created (b : builder) : list (nat * nat * nat) :=
  map (fun p => (fst p, f_token (snd p), f_call (snd p))) (combine (seq 0 (length (b_factories b))) (b_factories b)).

Record wservice := { ws_factory_idx : nat; ws_call : nat }.

(* wrap_worker_services: fold with `assert_eq!(token, services.len())`; None = the assertion fires *)
Fixpoint wrap (svcs : list (nat * nat * nat)) (acc : list wservice) : option (list wservice) :=
  match svcs with
  | [] => Some acc
  | (idx, token, cl) :: r =>
      if Nat.eqb token (length acc) then wrap r (acc ++ [{| ws_factory_idx := idx; ws_call := cl |}]) else None
  end.

Definition worker_services (b : builder) : option (list wservice) := wrap (created b) [].

(* ServerWorker::poll: `this.services[msg.token].service.call((guard, msg.io))` *)
Definition service_for (svcs : list wservice) (token : nat) : option wservice := nth_error svcs token.
