(* Proofs/BuilderFacts.v — tokens handed out by ServerBuilder are positions: the listener Accept finds
   under a token and the service a worker finds under the same token were registered by the same call. *)
From Coq Require Import List Arith Lia.
From AN Require Import Model.Builder.
Import ListNotations.

Definition BInv (b : builder) : Prop :=
  b_token b = length (b_sockets b) /\ length (b_factories b) = length (b_sockets b) /\
  forall t s, nth_error (b_sockets b) t = Some s ->
    s_token s = t /\ nth_error (b_factories b) t = Some {| f_token := t; f_call := s_call s |}.

Lemma BInv_empty : BInv empty.
Proof. split; [reflexivity|]. split; [reflexivity|]. intros [|t] s H; discriminate. Qed.

Lemma BInv_push id kd b : BInv b -> BInv (push_one id kd b).
Proof.
  intros (H1 & H2 & H3). unfold push_one, BInv. cbn [b_token b_factories b_sockets]. rewrite !app_length. cbn [length].
  split; [lia|]. split; [lia|]. intros t s Hs.
  destruct (Nat.lt_ge_cases t (length (b_sockets b))) as [Hlt|Hge].
  - rewrite nth_error_app1 in Hs by exact Hlt. destruct (H3 t s Hs) as [E1 E2]. split; [exact E1|].
    rewrite nth_error_app1 by lia. exact E2.
  - rewrite nth_error_app2 in Hs by exact Hge. destruct (t - length (b_sockets b)) as [|k] eqn:Ek; cbn in Hs; [|destruct k; discriminate].
    injection Hs as <-. cbn [s_token s_call]. assert (t = length (b_sockets b)) by lia. subst t. split; [exact H1|].
    rewrite nth_error_app2 by lia. rewrite H2, Nat.sub_diag. cbn. now rewrite H1.
Qed.

Lemma BInv_bind_loop id fa : forall k j b b', BInv b -> bind_loop id k fa j b = Some b' -> BInv b'.
Proof.
  induction k as [|k IH]; intros j b b' HI; cbn [bind_loop].
  - intros H; injection H as <-. exact HI.
  - destruct (match fa with Some m => Nat.eqb m j | None => false end); [discriminate|].
    apply IH. now apply BInv_push.
Qed.

Lemma BInv_call id c b b' : BInv b -> do_call id c b = Some b' -> BInv b'.
Proof.
  intros HI. destruct c as [k fa| |ok|ok|ok]; cbn [do_call].
  - now apply BInv_bind_loop.
  - discriminate.
  - destruct ok; [|discriminate]. intros H; injection H as <-. now apply BInv_push.
  - destruct ok; [|discriminate]. intros H; injection H as <-. now apply BInv_push.
  - destruct ok; [|discriminate]. intros H; injection H as <-. now apply BInv_push.
Qed.

Lemma BInv_build cs : forall id b b', BInv b -> build id cs b = Some b' -> BInv b'.
Proof.
  induction cs as [|c r IH]; intros id b b' HI; cbn [build].
  - intros H; injection H as <-. exact HI.
  - destruct (do_call id c b) as [b1|] eqn:E; [|discriminate]. apply IH. eapply BInv_call; eassumption.
Qed.

(* wrap_worker_services on factories whose i-th token is i *)
Lemma wrap_ok fs : forall off acc,
  length acc = off -> (forall i f, nth_error fs i = Some f -> f_token f = off + i) ->
  exists out, wrap (map (fun p => (fst p, f_token (snd p), f_call (snd p))) (combine (seq off (length fs)) fs)) acc = Some out /\
    length out = off + length fs /\
    (forall i v, i < off -> nth_error acc i = Some v -> nth_error out i = Some v) /\
    (forall i f, nth_error fs i = Some f -> nth_error out (off + i) = Some {| ws_factory_idx := off + i; ws_call := f_call f |}).
Proof.
  induction fs as [|f r IH]; intros off acc Hl Ht; cbn [length seq combine map wrap].
  - exists acc. split; [reflexivity|]. split; [lia|]. split; [auto|]. intros [|i] f H; discriminate.
  - cbn [fst snd]. rewrite (Ht 0 f eq_refl), Nat.add_0_r, Hl, Nat.eqb_refl.
    destruct (IH (S off) (acc ++ [{| ws_factory_idx := off; ws_call := f_call f |}])) as (out & Hw & Hlen & Hold & Hnew).
    { rewrite app_length. cbn. lia. }
    { intros i f0 H. rewrite (Ht (S i) f0 H). lia. }
    exists out. split; [exact Hw|]. split; [lia|]. split.
    + intros i v Hi Hv. apply Hold; [lia|]. rewrite nth_error_app1 by lia. exact Hv.
    + intros [|i] f0 H; cbn in H.
      * injection H as <-. rewrite Nat.add_0_r. apply Hold; [lia|]. rewrite nth_error_app2 by lia.
        rewrite Hl, Nat.sub_diag. reflexivity.
      * replace (off + S i) with (S off + i) by lia. now apply Hnew.
Qed.

Theorem builder_tokens cs b :
  build 0 cs empty = Some b ->
  length (b_factories b) = length (b_sockets b) /\
  (* sockets[t] is the listener registered under token t, factories[t] carries token t, same call *)
  (forall t s, accept_socket b t = Some s ->
     registered_token s = t /\ nth_error (b_factories b) t = Some {| f_token := t; f_call := s_call s |}) /\
  (* the assertion of wrap_worker_services never fires, and services[t] was created by the factory of
     the call that registered the listener with token t *)
  exists svcs, worker_services b = Some svcs /\ length svcs = length (b_sockets b) /\
    forall t s, accept_socket b t = Some s ->
      service_for svcs t = Some {| ws_factory_idx := t; ws_call := s_call s |}.
Proof.
  intros H. pose proof (BInv_build cs 0 empty b BInv_empty H) as (H1 & H2 & H3).
  split; [exact H2|]. split; [exact H3|].
  destruct (wrap_ok (b_factories b) 0 [] eq_refl) as (out & Hw & Hlen & _ & Hnew).
  { intros i f Hf. assert (Hi : i < length (b_sockets b)) by (rewrite <- H2; apply nth_error_Some; congruence).
    destruct (nth_error (b_sockets b) i) as [s|] eqn:Es; [|apply nth_error_None in Es; lia].
    destruct (H3 i s Es) as [_ E]. rewrite E in Hf. injection Hf as <-. reflexivity. }
  exists out. split; [exact Hw|]. split; [lia|].
  intros t s Hs. destruct (H3 t s Hs) as [_ E]. exact (Hnew t _ E).
Qed.
