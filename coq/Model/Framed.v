(* Model/Framed.v — executable model of actix-codec/src/framed.rs (`Framed<T, U>`).
   No proofs here (Proofs/FramedFacts.v).

   Read half  : `next_item` (= `Stream::poll_next`) with the flags {EOF, READABLE} and `read_buf`.
   Write half : `write`, `flush`, `close` and `Sink::{poll_ready, start_send, poll_flush, poll_close}`
                with `write_buf` and the high-water mark.
   Both halves are parametric in the codec (Section variables); the codecs used by the
   correspondence run (LinesCodec, BytesCodec, the harness' length-prefixed test codec) are
   instantiated at the end of the file.

   A buffer (`BytesMut`) is a list of bytes (Z in 0..255).  Capacity is not modelled: `reserve`
   never changes the contents; LW only occurs in the two `reserve` calls. *)
From AN Require Export Model.Lines.
From Coq Require Export NArith.

(* framed.rs:15-18 *)
Definition LW : N := 1024.
Definition HW : N := 8192.

(* ===================================================================================== *)
(* Read half                                                                             *)
(* ===================================================================================== *)

(* One answer of the scripted transport to `AsyncRead::poll_read`:
     RChunk bs : Ready(Ok(())) after putting bs into the ReadBuf (bs = [] is a 0-byte read, i.e. EOF)
     RPending  : Pending
     REof      : Ready(Ok(())) with nothing read
     RErr      : Ready(Err(io))
   An exhausted script answers like REof (as the mock of tests/test_framed_sink.rs does). *)
Inductive rd := RChunk (bs : list Z) | RPending | REof | RErr.

(* flags and read_buf; `ncalls` is instrumentation: the number of Decoder::decode/decode_eof
   calls made so far (a codec implementation observes them) *)
Record rstate := mkR { rbuf : list Z; readable : bool; eof : bool; ncalls : nat }.

(* Framed::new: Flags::empty(), empty read_buf *)
Definition rinit : rstate := mkR [] false false O.

(* Result of one `poll_next`:
     Pending       Poll::Pending
     Item a        Poll::Ready(Some(x)) where x is what the codec returned (a frame or a decode error)
     IoError       Poll::Ready(Some(Err(io.into())))  — the transport's error
     Done          Poll::Ready(None)
     Panic         the `debug_assert!(!EOF)` of framed.rs:215 fired *)
Inductive res (A : Type) := Pending | Item (a : A) | IoError | Done | Panic.
Arguments Pending {A}.
Arguments Item {A} a.
Arguments IoError {A}.
Arguments Done {A}.
Arguments Panic {A}.

Section Read.
  (* A codec result `Ok(Some(frame))` / `Err(e)` is an element of A; `Ok(None)` is None.  The
     second component is the buffer the codec leaves behind. *)
  Variable A : Type.
  Variable decode decode_eof : list Z -> option A * list Z.

  (* a loop iteration that starts with READABLE|EOF set (framed.rs:192-199): always returns,
     flags unchanged *)
  Definition at_eof (buf : list Z) (n : nat) : res A * rstate :=
    match decode_eof buf with
    | (Some a, r) => (Item a, mkR r true true (S n))
    | (None, r) => (Done, mkR r true true (S n))
    end.

  (* framed.rs:192-213: Ret = `return`, Fall = fall through to the read *)
  Inductive phase := Ret (r : res A) (st : rstate) | Fall (st : rstate).

  Definition decode_phase (st : rstate) : phase :=
    if readable st then
      if eof st then let '(r, st') := at_eof (rbuf st) (ncalls st) in Ret r st'
      else match decode (rbuf st) with
           | (Some a, r) => Ret (Item a) (mkR r true false (S (ncalls st)))
           | (None, r) => Fall (mkR r false false (S (ncalls st)))   (* flags.remove(READABLE) *)
           end
    else Fall st.

  (* `next_item`: the `loop` of framed.rs:185-233.  Every iteration that does not return consumes
     one answer of the transport script, so the loop is structural recursion on the script; the
     iteration after a 0-byte read has READABLE|EOF set and is `at_eof`.
     Returns (poll result, state afterwards, rest of the transport script). *)
  Fixpoint next_item (sc : list rd) (st : rstate) {struct sc} : res A * rstate * list rd :=
    match decode_phase st with
    | Ret r st' => (r, st', sc)
    | Fall st1 =>
        if eof st1 then (Panic, st1, sc)                       (* debug_assert!(!EOF) *)
        else
          match sc with
          | [] => let '(r, st2) := at_eof (rbuf st1) (ncalls st1) in (r, st2, [])
          | RPending :: sc' => (Pending, st1, sc')
          | RErr :: sc' => (IoError, st1, sc')
          | REof :: sc' => let '(r, st2) := at_eof (rbuf st1) (ncalls st1) in (r, st2, sc')
          | RChunk [] :: sc' => let '(r, st2) := at_eof (rbuf st1) (ncalls st1) in (r, st2, sc')
          | RChunk bs :: sc' =>                                 (* cnt > 0: flags.insert(READABLE) *)
              next_item sc' (mkR (rbuf st1 ++ bs) true false (ncalls st1))
          end
    end.

  (* What the harness does: poll until Ready(None) (at most `fuel` polls), then `extra` more polls.
     Each entry: the poll result and the number of codec calls made during that poll. *)
  Fixpoint run_more (n : nat) (sc : list rd) (st : rstate) : list (res A * nat) :=
    match n with
    | O => []
    | S k => let '(r, st', sc') := next_item sc st in
             (r, ncalls st' - ncalls st)%nat :: run_more k sc' st'
    end.

  Fixpoint run_read (fuel extra : nat) (sc : list rd) (st : rstate) : list (res A * nat) :=
    match fuel with
    | O => []
    | S f => let '(r, st', sc') := next_item sc st in
             let c := (ncalls st' - ncalls st)%nat in
             match r with
             | Done => (r, c) :: run_more extra sc' st'
             | Panic => [(r, c)]
             | _ => (r, c) :: run_read f extra sc' st'
             end
    end.

  (* tokio_util::codec::Decoder::decode_eof, the provided method: decode; on None, an error if
     bytes remain (the buffer is left as it is).  `rem` is that error. *)
  Definition default_eof (rem : A) (src : list Z) : option A * list Z :=
    match decode src with
    | (Some a, r) => (Some a, r)
    | (None, r) => match r with [] => (None, []) | _ => (Some rem, r) end
    end.
End Read.

Arguments at_eof {A}.
Arguments decode_phase {A}.
Arguments Ret {A}.
Arguments Fall {A}.
Arguments next_item {A}.
Arguments run_more {A}.
Arguments run_read {A}.
Arguments default_eof {A}.

(* ===================================================================================== *)
(* Write half                                                                            *)
(* ===================================================================================== *)

(* Answers of the scripted transport.
   poll_write:  WAccept k : Ready(Ok(min k len)) — the first min k len bytes are taken
                WPending  : Pending        WZero : Ready(Ok(0))        WErr : Ready(Err(io))
   poll_flush / poll_shutdown:  FOk : Ready(Ok(()))   FPending : Pending   FErr : Ready(Err(io))
   Exhausted scripts answer "everything written" / FOk. *)
Inductive wans := WAccept (k : N) | WPending | WZero | WErr.
Inductive fans := FOk | FPending | FErr.

(* what the scripted transport records *)
Inductive wev :=
| EvWrite (bs : list Z)        (* poll_write accepted exactly these bytes (non-empty) *)
| EvWPending | EvWErr | EvWZero
| EvFlush (a : fans)
| EvShutdown (a : fans).

(* return value of a Sink method: Ready(Ok) | Pending | Ready(Err(io)) | Ready(Err(WriteZero)) |
   Err from Encoder::encode *)
Inductive wres := ROk | RPend | RIoErr | RWriteZero | REncErr.

Record wstate := mkW { wbuf : list Z; ws : list wans; fs : list fans; ss : list fans }.

Definition wres_of (a : fans) : wres :=
  match a with FOk => ROk | FPending => RPend | FErr => RIoErr end.

(* the `while !write_buf.is_empty()` loop of `flush` (framed.rs:245-260); None = loop finished *)
Fixpoint write_loop (w : list wans) (buf : list Z) {struct w}
  : option wres * list Z * list wans * list wev :=
  match buf with
  | [] => (None, [], w, [])
  | _ :: _ =>
      match w with
      | [] => (None, [], [], [EvWrite buf])
      | WPending :: w' => (Some RPend, buf, w', [EvWPending])
      | WErr :: w' => (Some RIoErr, buf, w', [EvWErr])
      | WZero :: w' => (Some RWriteZero, buf, w', [EvWZero])
      | WAccept k :: w' =>
          match N.to_nat k with
          | O => (Some RWriteZero, buf, w', [EvWZero])           (* n == 0 *)
          | n => let '(o, buf', w'', evs) := write_loop w' (skipn n buf) in   (* advance(n) *)
                 (o, buf', w'', EvWrite (firstn n buf) :: evs)
          end
      end
  end.

(* io.poll_flush(cx) / io.poll_shutdown(cx) *)
Definition io_flush (st : wstate) : wres * wstate * list wev :=
  match fs st with
  | [] => (ROk, st, [EvFlush FOk])
  | a :: t => (wres_of a, mkW (wbuf st) (ws st) t (ss st), [EvFlush a])
  end.

Definition io_shutdown (st : wstate) : wres * wstate * list wev :=
  match ss st with
  | [] => (ROk, st, [EvShutdown FOk])
  | a :: t => (wres_of a, mkW (wbuf st) (ws st) (fs st) t, [EvShutdown a])
  end.

(* Framed::flush (framed.rs:237-267) *)
Definition flush (st : wstate) : wres * wstate * list wev :=
  let '(o, buf', w', evs) := write_loop (ws st) (wbuf st) in
  let st1 := mkW buf' w' (fs st) (ss st) in
  match o with
  | Some r => (r, st1, evs)
  | None => let '(r, st2, e2) := io_flush st1 in (r, st2, evs ++ e2)
  end.

(* Framed::close as it was on the pinned tree (framed.rs:269-279 before /repo commit c905ff7
   "fix: actix-codec: Framed::close flushes the write buffer ..."): it polled the TRANSPORT's
   poll_flush, not Framed::flush.  No longer the code; kept only for the refutation witness
   C14_pinned_close_refuted (defect D4). *)
Definition close_pinned (st : wstate) : wres * wstate * list wev :=
  let '(r, st1, e1) := io_flush st in
  match r with
  | ROk => let '(r2, st2, e2) := io_shutdown st1 in (r2, st2, e1 ++ e2)
  | _ => (r, st1, e1)
  end.

(* Framed::close (framed.rs:269-279): `ready!(self.as_mut().flush(cx))?;` then
   `ready!(io.poll_shutdown(cx))?` *)
Definition close (st : wstate) : wres * wstate * list wev :=
  let '(r, st1, e1) := flush st in
  match r with
  | ROk => let '(r2, st2, e2) := io_shutdown st1 in (r2, st2, e1 ++ e2)
  | _ => (r, st1, e1)
  end.

Definition wlen (st : wstate) : N := N.of_nat (length (wbuf st)).
(* is_write_ready / is_write_buf_full / is_write_buf_empty.
   `write_buf.len() < HW`, computed without measuring the whole buffer: fewer than HW bytes iff
   nothing is left after dropping HW - 1 of them (FramedFacts.write_ready_spec: = wlen st <? HW). *)
Definition hw_pred : nat := N.to_nat (HW - 1).
Definition write_ready (st : wstate) : bool :=
  match skipn hw_pred (wbuf st) with [] => true | _ :: _ => false end.
Definition wfull (st : wstate) : bool := negb (write_ready st).
Definition wempty (st : wstate) : bool := match wbuf st with [] => true | _ => false end.

(* OConv: one of the state-preserving conversions of Framed — `from_parts(into_parts())`, `into_map_io`, `into_map_codec`,
   `replace_codec` (by a codec that encodes alike): every one of them carries `write_buf`, `read_buf` and the flags over,
   so in terms of this model nothing changes and nothing reaches the transport *)
Inductive wop (I : Type) := OReady | OSend (it : I) | OFlush | OClose | OConv.
Arguments OReady {I}.
Arguments OSend {I} it.
Arguments OFlush {I}.
Arguments OClose {I}.
Arguments OConv {I}.

Section Write.
  Variable I : Type.
  (* Encoder::encode(item, &mut dst): Ok?/Err and dst afterwards *)
  Variable encode : I -> list Z -> bool * list Z.

  (* Framed::write = Sink::start_send *)
  Definition write (st : wstate) (it : I) : wres * wstate * list wev :=
    let '(ok, buf') := encode it (wbuf st) in
    (if ok then ROk else REncErr, mkW buf' (ws st) (fs st) (ss st), []).

  Definition wstep (st : wstate) (op : wop I) : wres * wstate * list wev :=
    match op with
    | OReady => if write_ready st then (ROk, st, []) else flush st     (* Sink::poll_ready *)
    | OSend it => write st it                                           (* Sink::start_send *)
    | OFlush => flush st                                                (* Sink::poll_flush *)
    | OClose => close st                                                (* Sink::poll_close *)
    | OConv => (ROk, st, [])                                            (* into_parts/from_parts, into_map_io, ... *)
    end.

  (* one entry per call: result, transport events during the call, and afterwards
     is_write_buf_empty / is_write_buf_full *)
  Fixpoint run_write (ops : list (wop I)) (st : wstate)
    : list (wres * list wev * bool * bool) * wstate :=
    match ops with
    | [] => ([], st)
    | op :: t => let '(r, st', evs) := wstep st op in
                 let '(outs, fin) := run_write t st' in
                 ((r, evs, wempty st', wfull st') :: outs, fin)
    end.
End Write.

Arguments write {I}.
Arguments wstep {I}.
Arguments run_write {I}.

(* ===================================================================================== *)
(* The codecs of the correspondence run                                                  *)
(* ===================================================================================== *)

(* ---- LinesCodec (Model/Lines.v) as an encoder for the write half ---- *)
Definition lines_encode (s dst : list Z) : bool * list Z := (true, Lines.encode s dst).

(* ---- BytesCodec (bcodec.rs): decode = everything that is buffered; decode_eof is the
        provided method; encode = extend_from_slice ---- *)
Inductive bitem := BOk (p : list Z) | BRemaining.
Definition bytes_decode (src : list Z) : option bitem * list Z :=
  match src with
  | [] => (None, [])
  | _ :: _ => (Some (BOk src), [])        (* src.split() *)
  end.
Definition bytes_decode_eof : list Z -> option bitem * list Z := default_eof bytes_decode BRemaining.
Definition bytes_encode (p dst : list Z) : bool * list Z := (true, dst ++ p).

(* ---- the harness' length-prefixed test codec (harness/h_codec/src/main.rs, `LpCodec`):
        frame = one length byte n (0..254) followed by n payload bytes.
        decode : header 255 is invalid: Err(BadHeader), the header byte is consumed;
                 fewer than n payload bytes buffered: Ok(None), nothing consumed.
        decode_eof : decode; on None with bytes left: Err(Truncated) and the buffer is cleared.
        encode : payload longer than 254 bytes: Err(TooLong), dst untouched. ---- *)
Inductive lpitem := LOk (p : list Z) | LBadHdr | LTrunc | LRemaining | LEnd.

Definition lp_decode (src : list Z) : option lpitem * list Z :=
  match src with
  | [] => (None, [])
  | n :: t =>
      if n =? 255 then (Some LBadHdr, t)
      else if (length t <? Z.to_nat n)%nat then (None, src)
      else (Some (LOk (firstn (Z.to_nat n) t)), skipn (Z.to_nat n) t)
  end.

Definition lp_decode_eof (src : list Z) : option lpitem * list Z :=
  match lp_decode src with
  | (Some a, r) => (Some a, r)
  | (None, r) => match r with [] => (None, []) | _ => (Some LTrunc, []) end
  end.

(* the same codec with the PROVIDED decode_eof (`LpDefaultEof` in the harness): a truncated
   final frame is an error that does not consume anything *)
Definition lpd_decode_eof : list Z -> option lpitem * list Z := default_eof lp_decode LRemaining.

(* the same codec with a trailer (`LpCodec{trailer: true}` in the harness): at the end of the stream, once nothing
   is left to decode, it yields an end marker — derived from nothing but the fact that the stream has ended, so on
   an EMPTY buffer — and again every time it is asked: such a stream never yields None *)
Definition lps_decode_eof (src : list Z) : option lpitem * list Z :=
  match lp_decode src with
  | (Some a, r) => (Some a, r)
  | (None, r) => match r with [] => (Some LEnd, []) | _ => (Some LTrunc, []) end
  end.

Definition lp_encode (p dst : list Z) : bool * list Z :=
  if (254 <? length p)%nat then (false, dst)
  else (true, dst ++ Z.of_nat (length p) :: p).
