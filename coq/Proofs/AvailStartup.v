(* Proofs/AvailStartup.v — the availability bitset at start-up (`Availability::set_available_all`, modelled in `Srv.init` as one
   `set_available(idx, true)` per worker handle): with W <= 512 workers exactly the indices below W are marked available —
   in particular across the boundaries of the four 128-bit words. *)
From AN Require Import Model.Avail Model.Srv Proofs.AvailFacts.
From Coq Require Import List NArith Bool Arith Lia.
Import ListNotations.
Local Open Scope N_scope.

Lemma getb_empty j : getb empty j = false.
Proof.
  unfold getb. destruct (offset j) as [[k b]|] eqn:E.
  - rewrite (get_spec _ _ _ _ E).
    assert (W0 : word empty k = 0) by (unfold word, empty; cbn; destruct k as [|[p|[p|p|]|]]; reflexivity).
    rewrite W0. apply N.bits_0.
  - unfold get. rewrite E. reflexivity.
Qed.

Lemma set_all_getb : forall (l : list N) a j,
  (forall i, In i l -> i < 512) -> j < 512 ->
  getb (fold_left (fun a i => setb a i true) l a) j = existsb (N.eqb j) l || getb a j.
Proof.
  induction l as [|x l IH]; intros a j Hl Hj; cbn [fold_left existsb]; [reflexivity|].
  rewrite IH by (auto; intros i Hi; apply Hl; now right).
  rewrite getb_setb by (auto; apply Hl; now left).
  rewrite (N.eqb_sym j x). destruct (x =? j); cbn; [now rewrite orb_true_r|reflexivity].
Qed.

Theorem startup_all_available (W : nat) (kinds : list bool) (j : N) :
  (W <= 512)%nat -> j < 512 ->
  getb (av (init W kinds)) j = (j <? N.of_nat W).
Proof.
  intros HW Hj. unfold init. cbn [av].
  assert (E : forall (l : list nat) a, fold_left (fun a i => setb a (N.of_nat i) true) l a
                                      = fold_left (fun a i => setb a i true) (map N.of_nat l) a).
  { induction l as [|x l IH]; intros a; cbn [fold_left map]; [reflexivity|apply IH]. }
  rewrite E, set_all_getb, getb_empty, orb_false_r; [|intros i Hi|exact Hj].
  - destruct (N.ltb_spec j (N.of_nat W)) as [Hlt|Hge].
    + apply existsb_exists. exists j. split; [|apply N.eqb_refl].
      apply in_map_iff. exists (N.to_nat j). split; [apply N2Nat.id|]. apply in_seq. lia.
    + apply not_true_is_false. intros H. apply existsb_exists in H as (x & Hx & Ex).
      apply N.eqb_eq in Ex. subst x. apply in_map_iff in Hx as (n & <- & Hn). apply in_seq in Hn. lia.
  - apply in_map_iff in Hi as (n & <- & Hn). apply in_seq in Hn. lia.
Qed.
