(* Props/C08.v — a faulted worker is detected, bypassed and replaced; the accept thread never panics or spins.
   ONLY statements, each closed by `exact <lemma>`, with Print Assumptions. *)
From Coq Require Import List ZArith NArith Bool.
From AN Require Import Model.Srv Proofs.SrvInv Proofs.SrvFault Proofs.SrvRotation Proofs.SrvPauseB Proofs.SrvStrand.
Import ListNotations.

(* For EVERY script — any number of worker deaths at any point (idle, partially loaded, saturated, inside the
   send/inc gap), any order of teardown of their outstanding connections, late availability notices, arrival of
   replacement handles, two or more simultaneous faults, pause/resume/stop, injected accept errors, any limit —
   the accept thread never indexes out of bounds, never hits the Availability panic, never divides by zero
   (err <> Some Panic) and every loop of it terminates within the model's fuel (err <> Some Spin).
   Hypotheses: 1..512 workers, listener tokens used by direct accept calls exist, respawned indices are < 512. *)
Theorem C08_no_panic_no_spin : forall (L : Z) W kinds os,
  1 <= W <= 512 -> forallb wf_op os = true -> forallb (tok_ok (length kinds)) os = true ->
  err (run L (init W kinds) os) = None.
Proof. exact no_panic_no_spin. Qed.

(* Detection: a send attempt at a dead worker emits exactly one WorkerFaulted notice carrying that worker's
   index (the index the server restarts), removes exactly its handle from the rotation, and hands the connection
   back for another attempt — or reports that no handle is left. *)
Theorem C08_detect : forall (L : Z) st c ys g w,
  nth_error (handles st) (next st) = Some g -> nth_error (ws st) g = Some w -> w_open w = false ->
  (w_idx w < 512)%N ->
  exists st' r, send_connection L st c ys = (st', ys, r) /\
    handles st' = swap_remove (next st) (handles st) /\
    (exists post, trace st' = post ++ EvFaulted (w_idx w) :: trace st /\
                  forall e, In e post -> match e with EvFaulted _ | EvDispatch _ _ _ _ _ => False | _ => True end) /\
    match r with SOk => handles st' = [] | SRetry c' => c' = c /\ handles st' <> [] end.
Proof. exact send_connection_detects. Qed.

(* Re-routing: whatever has happened to the workers, one accept_one call (which never fails, by
   C08_no_panic_no_spin) ends by delivering the connection to a worker whose queue was open when it was sent, or
   by dropping it because the last handle has just been removed. *)
Theorem C08_reroute : forall (L : Z) fuel st c ys st' ys',
  accept_one L fuel st c ys = (st', ys') -> err st = None -> err st' = None ->
  delivered c st st' \/ dropped_no_worker c st st'.
Proof. exact accept_one_outcome. Qed.

(* Bypass: in the log of ANY run (newest first), no dispatch to generation g is newer than g's death. *)
Theorem C08_bypass : forall (L : Z) W kinds os pre c tok g idx n post,
  trace (run L (init W kinds) os) = pre ++ EvDispatch c tok g idx n :: post -> ~ In (EvKilled g) post.
Proof. intros L W kinds os. exact (proj2 (proj2 (reachable_rk L W kinds os))). Qed.

(* Only dead workers leave the rotation: in ANY reachable state every live worker generation is in the rotation
   or its handle is waiting in the waker queue. *)
Theorem C08_live_in_rotation : forall (L : Z) W kinds os g w,
  let st := run L (init W kinds) os in
  nth_error (ws st) g = Some w -> w_open w = true -> In g (handles st) \/ In (IWorker g) (wq st).
Proof.
  intros L W kinds os g w st Hg Ho.
  exact (proj1 (reachable_rk L W kinds os) g (ex_intro _ w (conj Hg Ho))).
Qed.

(* Replacement: the server answers WorkerFaulted(idx) by starting a worker with the same index and sending its
   handle through the waker queue ... *)
Theorem C08_respawn_same_index : forall (L : Z) st idx,
  let st' := env_step L st (Respawn idx) in
  ws st' = ws st ++ [{| w_idx := idx; w_open := true; w_queue := []; w_picked := []; w_cnt := 1 |}] /\
  wq st' = wq st ++ [IWorker (length (ws st))] /\ wpend st' = true.
Proof. intros L st idx. cbn. repeat split. Qed.

(* ... and once the accept loop has processed its waker queue (and has not been told to stop) the queue is
   empty and every live generation — survivors and replacements alike — is in the rotation. *)
Theorem C08_rejoin : forall (L : Z) W kinds os ys,
  1 <= W <= 512 -> forallb wf_op (os ++ [HandleWaker ys]) = true ->
  forallb (tok_ok (length kinds)) (os ++ [HandleWaker ys]) = true ->
  let st := run L (init W kinds) os in
  let st' := run L (init W kinds) (os ++ [HandleWaker ys]) in
  live st = true -> stopped st' = false ->
  wq st' = [] /\ forall g w, nth_error (ws st') g = Some w -> w_open w = true -> In g (handles st').
Proof. exact rejoined. Qed.

(* non-vacuity: the double-fault history that defeated the pinned tree (D2): worker 1 is saturated with its
   release notice queued, both workers die, the late notice is processed; with a single replacement service
   resumes: connection 4 is served by generation 2, connection 3 was dropped when no handle was left *)
Example C08_example :
  let os := [E (Connect 0 1); E (Connect 0 2); E (Connect 0 3); Turn [];
             E (Pick 1); E (Kill 0); E (Kill 1); E (Finish 1 2);
             E (Connect 0 4); AcceptTok 0 []; HandleWaker []; E (Respawn 0); HandleWaker [];
             E (Connect 0 5); Turn []] in
  forallb wf_op os = true /\ forallb (tok_ok 1) os = true /\
  let st := run 1 (init 2 [false]) os in
  err st = None /\ handles st = [2] /\ map (fun w => map c_id (w_queue w)) (ws st) = [[]; []; [4%N]] /\
  In (EvDropNoWorker 3) (trace st) /\ In (EvFaulted 0) (trace st) /\ In (EvFaulted 1) (trace st).
Proof. vm_compute. repeat split; auto 30. Qed.

(* "... with a single worker service resumes once the replacement is up": from ANY reachable state (any number of faults
   before) whose waker queue holds the replacement's handle, one handle_waker call ends with the queue drained and, unless
   the loop is stopped or paused, with every flagged worker exhausted or EVERY listener's backlog empty (back-off and
   injected errors excepted): the connections that piled up while no worker could take them are dispatched at once. *)
Theorem C08_resume : forall (L : Z) W kinds os g,
  forallb nwb_op os = true ->
  let st := run L (init W kinds) os in
  live st = true -> In (IWorker g) (wq st) ->
  let st' := step L st (HandleWaker []) in
  err st' = None ->
  (stopped st' = true \/ wq st' = []) /\
  (stopped st' = false -> paused st' = false -> available (av st') = true ->
   forall tok l, nth_error (lsts st') tok = Some l -> l_backlog l = [] \/ l_inject l <> [] \/ l_to l <> None).
Proof. exact worker_handle_drains. Qed.

(* ... and in every state of every run, faults included, nothing is stranded (see Props/C03.v, C03_no_strand_all) *)
Theorem C08_no_strand : forall (L : Z) W kinds os,
  1 <= W <= 512 -> forallb wf_op os = true -> forallb (tok_ok (length kinds)) os = true -> forallb nwb_op os = true ->
  let st := run L (init W kinds) os in
  err st = None /\
  (stopped st = false ->
   (wq st <> [] -> wpend st = true) /\
   forall tok l, nth_error (lsts st) tok = Some l ->
     paused st = false -> available (av st) = true -> l_backlog l <> [] -> l_inject l = [] ->
       (l_reg l = true /\ l_edge l = true) \/
       (exists d t, l_to l = Some d /\ (d <= now st + 500)%N /\ ptimeout st = Some t /\ (t <= 510)%N)).
Proof. exact no_strand_all. Qed.

(* non-vacuity of C08_resume: single worker, limit 2; it dies; client 1's dispatch discovers the fault and is dropped
   ("no workers"), clients 2 and 3 pile up in the backlog (no worker is flagged: accept returns at once); the replacement's
   handle arrives; one handle_waker call dispatches both to the new generation *)
Example C08_resume_example :
  let os := [E (Kill 0); E (Connect 0 1); Turn []; E (Connect 0 2); E (Connect 0 3); Turn []; E (Respawn 0)] in
  let st := run 2 (init 1 [false]) os in
  let st' := step 2 st (HandleWaker []) in
  forallb nwb_op os = true /\ live st = true /\ In (IWorker 1) (wq st) /\ map l_backlog (lsts st) = [[2%N; 3%N]] /\
  err st' = None /\
  (map (fun w => map c_id (w_queue w)) (ws st'), map l_backlog (lsts st'), handles st', wq st') =
  ([[]; [2%N; 3%N]], [[]], [1], []).
Proof. vm_compute. repeat split; auto. Qed.

Print Assumptions C08_no_panic_no_spin.
Print Assumptions C08_resume.
Print Assumptions C08_no_strand.
Print Assumptions C08_detect.
Print Assumptions C08_reroute.
Print Assumptions C08_bypass.
Print Assumptions C08_live_in_rotation.
Print Assumptions C08_respawn_same_index.
Print Assumptions C08_rejoin.
