(* Model/BStr.v — executable model of bytestring/src/lib.rs (ByteString), no proofs
   (Proofs/BStrFacts.v).  A ByteString is the byte list held by its inner `Bytes`; a `str`
   is a byte list `s` with `valid s = true` (the type invariant of Rust's `str`, which
   `core::str::from_utf8` establishes and every safe `str` API preserves).

   Part 1  the `str` operations the crate delegates to or is compared with (the reference)
   Part 2  ByteString operations on byte lists, written as lib.rs writes them
   Part 3  a machine for construction sequences: a heap of immutable buffers and a pool of
           ByteStrings that are (buffer, start, len) views, as `Bytes` really is — needed to
           say what `slice_ref` (pointer arithmetic) does for every `&str` a caller can own. *)
From AN Require Export Base.Utf8.

Definition bstr := list Z.

(* ================================================================== 1. str, [u8] *)

(* core::str::from_utf8 / String::from_utf8 (trusted: = Table 3-7 DFA, validated by the run) *)
Definition str_from_utf8 (b : list Z) : option (list Z) := if valid b then Some b else None.

(* str::split_at: `if self.is_char_boundary(mid) { split_at_unchecked } else { panic }`;
   is_char_boundary is false for mid > len.  None = panic. *)
Definition str_split_at (s : list Z) (mid : nat) : option (list Z * list Z) :=
  if boundary s mid then Some (firstn mid s, skipn mid s) else None.

(* `&s[a..b]` (str::index -> get): `a <= b && is_char_boundary(a) && is_char_boundary(b)` *)
Definition str_slice (s : list Z) (a b : nat) : option (list Z) :=
  if (a <=? b)%nat && boundary s a && boundary s b
  then Some (firstn (b - a) (skipn a s)) else None.

(* `<[u8] as Ord>::cmp`: lexicographic, a proper prefix is smaller *)
Fixpoint bytes_cmp (a b : list Z) : comparison :=
  match a, b with
  | [], [] => Eq
  | [], _ :: _ => Lt
  | _ :: _, [] => Gt
  | x :: a', y :: b' => match x ?= y with Eq => bytes_cmp a' b' | c => c end
  end.

Fixpoint bytes_eqb (a b : list Z) : bool :=
  match a, b with
  | [], [] => true
  | x :: a', y :: b' => (x =? y) && bytes_eqb a' b'
  | _, _ => false
  end.

(* `impl Ord for str`: `self.as_bytes().cmp(other.as_bytes())`; `impl PartialEq for str`:
   byte equality; `impl Hash for str`: `state.write_str(s)` = the bytes then 0xFF;
   `Display for str` writes the string; `ToString` collects Display *)
Definition str_cmp (a b : list Z) : comparison := bytes_cmp a b.
Definition str_eq (a b : list Z) : bool := bytes_eqb a b.
Definition str_hash_input (s : list Z) : list Z := s ++ [255].
Definition str_display (s : list Z) : list Z := s.
Definition str_to_string (s : list Z) : list Z := str_display s.

(* ================================================================== 2. ByteString *)

Definition new : bstr := [].                                   (* ByteString(Bytes::new()), Default *)
Definition from_static (s : list Z) : bstr := s.               (* Bytes::from_static(src.as_bytes()) *)
Definition from_str (s : list Z) : bstr := s.                  (* Bytes::copy_from_slice(value.as_ref()) *)
Definition from_string (s : list Z) : bstr := s.               (* Bytes::from(String) *)
Definition from_box_str (s : list Z) : bstr := s.              (* Bytes::from(value.into_boxed_bytes()) *)

(* TryFrom<&[u8]>: `let _ = str::from_utf8(value)?; Ok(ByteString(Bytes::copy_from_slice(value)))` *)
Definition try_from_slice (b : list Z) : option bstr :=
  match str_from_utf8 b with Some _ => Some b | None => None end.
(* TryFrom<Vec<u8>>: `String::from_utf8(value)` then `Bytes::from(buf)` *)
Definition try_from_vec (b : list Z) : option bstr :=
  match str_from_utf8 b with Some buf => Some buf | None => None end.
(* TryFrom<Bytes>: validate `value.as_ref()`, wrap `value` itself *)
Definition try_from_bytes (b : list Z) : option bstr :=
  match str_from_utf8 b with Some _ => Some b | None => None end.
(* TryFrom<BytesMut>: validate, `value.freeze()` *)
Definition try_from_bytes_mut (b : list Z) : option bstr :=
  match str_from_utf8 b with Some _ => Some b | None => None end.
(* TryFrom<[u8; N]> and TryFrom<&[u8; N]> (N = 0..=32): `ByteString::try_from(&value[..])` *)
Definition try_from_array (b : list Z) : option bstr := try_from_slice b.
Definition try_from_array_ref (b : list Z) : option bstr := try_from_slice b.

Inductive tkind := KSlice | KVec | KBytes | KBytesMut | KArr | KArrRef.
Definition try_from_k (k : tkind) (b : list Z) : option bstr :=
  match k with
  | KSlice => try_from_slice b | KVec => try_from_vec b | KBytes => try_from_bytes b
  | KBytesMut => try_from_bytes_mut b | KArr => try_from_array b | KArrRef => try_from_array_ref b
  end.

Inductive fkind := FStr | FString | FBox | FStatic.
Definition from_k (k : fkind) (s : list Z) : bstr :=
  match k with
  | FStr => from_str s | FString => from_string s | FBox => from_box_str s | FStatic => from_static s
  end.

Definition as_bytes (x : bstr) : list Z := x.
Definition into_bytes (x : bstr) : list Z := x.
(* Deref: `str::from_utf8_unchecked(self.0.as_ref())` — sound only when `valid x` (C20_invariant) *)
Definition deref (x : bstr) : list Z := x.

(* Bytes::split_to(at): panics iff at > len *)
Definition bytes_split_to (l : list Z) (at_ : nat) : option (list Z * list Z) :=
  if (at_ <=? length l)%nat then Some (firstn at_ l, skipn at_ l) else None.

(* ByteString::split_at: the str::split_at call is only there for its panic, then the inner
   Bytes is cloned and split *)
Definition split_at (x : bstr) (mid : nat) : option (bstr * bstr) :=
  match str_split_at (deref x) mid with
  | None => None
  | Some _ => bytes_split_to x mid
  end.

(* ByteString::slice_ref = Bytes::slice_ref(subset.as_bytes()).  `off` is the address of the
   subset minus the address of self's first byte (any integer), `n` the subset's length:
     if subset.is_empty() { return Bytes::new() }
     assert!(sub_p >= bytes_p); assert!(sub_p + sub_len <= bytes_p + bytes_len);
     self.slice(sub_offset..sub_offset + sub_len)                    None = panic *)
Definition slice_ref (x : bstr) (off : Z) (n : nat) : option bstr :=
  if Nat.eqb n 0 then Some []
  else if (0 <=? off) && (off + Z.of_nat n <=? Z.of_nat (length x))
       then Some (firstn n (skipn (Z.to_nat off) x))
       else None.

(* PartialEq<T: AsRef<str>> / PartialEq<str>: `&self[..] == other.as_ref()` *)
Definition eq (x y : bstr) : bool := str_eq (deref x) y.
(* derived PartialOrd/Ord on `ByteString(Bytes)`: Bytes::cmp = `[u8]::cmp` *)
Definition cmp (x y : bstr) : comparison := bytes_cmp x y.
(* Hash: `self.deref().hash(state)` (written with a double star in lib.rs);  Display: `self.deref().fmt(fmt)`;  ToString from Display;
   From<ByteString> for String: `value.to_string()` *)
Definition hash_input (x : bstr) : list Z := str_hash_input (deref x).
Definition display (x : bstr) : list Z := str_display (deref x).
Definition to_string (x : bstr) : list Z := display x.
Definition into_string (x : bstr) : list Z := to_string x.

(* ================================================================== 3. construction sequences *)

(* A `Bytes` is a window into a shared immutable buffer. *)
Record view := mkview { v_alloc : nat; v_start : nat; v_len : nat }.
Record state := mkstate { heap : list (list Z); pool : list view }.

Definition bytes_of (h : list (list Z)) (v : view) : list Z :=
  firstn (v_len v) (skipn (v_start v) (nth (v_alloc v) h [])).

(* buffer 0 is the static empty slice behind `Bytes::new()` *)
Definition init : state := mkstate [[]] [].
Definition empty_view : view := mkview 0 0 0.

(* where a `&str` argument comes from *)
Inductive strsrc :=
| SLit (s : list Z)          (* a str stored outside every ByteString buffer; `valid s` is its type invariant *)
| SSub (j a b : nat).        (* `&pool[j][a..b]` through Deref; panics as str slicing does *)

Inductive op :=
| ONew
| OFrom (k : fkind) (s : strsrc)        (* ByteString::from(..) / from_static; owned kinds copy first *)
| OTry (k : tkind) (b : list Z)         (* ByteString::try_from(<fresh container holding b>) *)
| OTryShared (j a b : nat)              (* ByteString::try_from(pool[j].as_bytes().slice(a..b)) : shares the buffer *)
| OSplit (i mid : nat)                  (* pool[i].split_at(mid), both halves are kept *)
| OSliceRef (i : nat) (s : strsrc)      (* pool[i].slice_ref(s) *)
| OClone (i : nat).

Inductive obs :=
| Made (vals : list (list Z))   (* the bytes of the ByteStrings this op returned (appended to the pool) *)
| Error                         (* Err(Utf8Error) *)
| Panicked
| NoSuch.                       (* the script names a pool slot that does not exist *)

Inductive sres := SPanic | SNoSuch | SStr (loc : option (nat * nat)) (bytes : list Z).

Definition eval_src (s : state) (x : strsrc) : sres :=
  match x with
  | SLit l => SStr None l
  | SSub j a b =>
      match nth_error (pool s) j with
      | None => SNoSuch
      | Some v => match str_slice (deref (bytes_of (heap s) v)) a b with
                  | None => SPanic
                  | Some l => SStr (Some (v_alloc v, v_start v + a)%nat) l
                  end
      end
  end.

Definition push (s : state) (vs : list view) : state * obs :=
  (mkstate (heap s) (pool s ++ vs), Made (map (bytes_of (heap s)) vs)).

(* a constructor that copies into / takes over a buffer of its own *)
Definition fresh (s : state) (b : list Z) : state * obs :=
  let h := heap s ++ [b] in
  let v := mkview (length (heap s)) 0 (length b) in
  (mkstate h (pool s ++ [v]), Made [bytes_of h v]).

Definition step (s : state) (o : op) : state * obs :=
  match o with
  | ONew => push s [empty_view]
  | OFrom k x =>
      match eval_src s x with
      | SPanic => (s, Panicked)
      | SNoSuch => (s, NoSuch)
      | SStr _ l => fresh s (from_k k l)
      end
  | OTry k b =>
      match try_from_k k b with
      | None => (s, Error)
      | Some x => fresh s x
      end
  | OTryShared j a b =>
      match nth_error (pool s) j with
      | None => (s, NoSuch)
      | Some v =>
          (* Bytes::slice: assert!(begin <= end); assert!(end <= len) *)
          if (a <=? b)%nat && (b <=? v_len v)%nat then
            let v' := mkview (v_alloc v) (v_start v + a) (b - a) in
            match try_from_bytes (bytes_of (heap s) v') with
            | None => (s, Error)
            | Some _ => push s [v']
            end
          else (s, Panicked)
      end
  | OSplit i mid =>
      match nth_error (pool s) i with
      | None => (s, NoSuch)
      | Some v =>
          match split_at (bytes_of (heap s) v) mid with
          | None => (s, Panicked)
          | Some _ => push s [mkview (v_alloc v) (v_start v) mid;
                              mkview (v_alloc v) (v_start v + mid) (v_len v - mid)]
          end
      end
  | OSliceRef i x =>
      match nth_error (pool s) i with
      | None => (s, NoSuch)
      | Some v =>
          match eval_src s x with
          | SPanic => (s, Panicked)
          | SNoSuch => (s, NoSuch)
          | SStr loc l =>
              if Nat.eqb (length l) 0 then push s [empty_view]
              else match loc with
                   | None => (s, Panicked)            (* other memory: one of the two asserts fails *)
                   | Some (al, st) =>
                       if Nat.eqb al (v_alloc v) then
                         match slice_ref (bytes_of (heap s) v)
                                         (Z.of_nat st - Z.of_nat (v_start v)) (length l) with
                         | None => (s, Panicked)
                         | Some _ => push s [mkview al st (length l)]
                         end
                       else (s, Panicked)             (* different buffer: disjoint memory *)
                   end
          end
      end
  | OClone i =>
      match nth_error (pool s) i with
      | None => (s, NoSuch)
      | Some v => push s [v]
      end
  end.

Fixpoint run_from (s : state) (ops : list op) : state * list obs :=
  match ops with
  | [] => (s, [])
  | o :: r => let '(s1, ob) := step s o in
              let '(s2, obs) := run_from s1 r in (s2, ob :: obs)
  end.

Definition run (ops : list op) : state * list obs := run_from init ops.

(* the type invariant of `str` for arguments that come from outside the crate *)
Definition src_ok (x : strsrc) : bool :=
  match x with SLit l => valid l | SSub _ _ _ => true end.
Definition op_ok (o : op) : bool :=
  match o with OFrom _ x => src_ok x | OSliceRef _ x => src_ok x | _ => true end.

(* C20 as a predicate on the observable trace: every ByteString handed out is valid UTF-8 *)
Definition obs_ok (o : obs) : bool :=
  match o with Made vs => forallb valid vs | _ => true end.
Definition c20_ok (tr : list obs) : bool := forallb obs_ok tr.
