(* Proofs/SrvInv.v — the counter/availability protocol invariant of the accept loop, for runs in which
   no worker faults (C02, C03, basis of C04).  One inductive invariant [Inv], preserved by every
   environment step (also at the yield point between send and inc, where one worker is "in the gap")
   and by every accept-thread function of Model/Srv.v. *)
From Coq Require Import List Arith ZArith NArith Bool Lia.
From AN Require Import Model.Srv Proofs.AvailFacts Proofs.ListFacts.
Import ListNotations.

Definition nwakes (i : N) (q : list interest) : nat :=
  length (filter (fun x => match x with IAvail j => N.eqb i j | _ => false end) q).

Lemma nwakes_app i q1 q2 : nwakes i (q1 ++ q2) = nwakes i q1 + nwakes i q2.
Proof. unfold nwakes. now rewrite filter_app, app_length. Qed.

(* scripts without faults *)
Definition nf_eop (o : eop) : bool := match o with Kill _ | Respawn _ => false | _ => true end.
Definition nf_ys (ys : ysched) : bool := forallb (forallb nf_eop) ys.
Definition tok_ok (nl : nat) (o : op) : bool :=
  match o with AcceptTok t _ => Nat.ltb t nl | _ => true end.
Definition nf_op (o : op) : bool :=
  match o with
  | E e => nf_eop e
  | AcceptTok _ ys | HandleWaker ys | Turn ys => nf_ys ys
  | _ => true
  end.

Section Facts.
Variable L : Z.
Hypothesis HL : (1 <= L)%Z.

(* the single-worker protocol invariant: c counter, bit availability flag as seen by the accept loop,
   q queued, p picked, wk pending WorkerAvailable notices, gap = sent but not yet counted *)
Definition PInv (gap : bool) (c : Z) (bit : bool) (q p wk : nat) : Prop :=
  c = (1 + Z.of_nat q + Z.of_nat p - (if gap then 1 else 0))%Z /\
  (bit = true -> wk = 0 /\ (c <= L)%Z) /\
  (bit = false -> gap = false /\ ((wk = 0 /\ c = (L + 1)%Z) \/ (wk = 1 /\ (c <= L)%Z))).

Definition isgap (gap : option nat) (g : nat) : bool :=
  match gap with Some g' => Nat.eqb g g' | None => false end.

Definition WInv (gap : option nat) (avl : avail) (q : list interest) (g : nat) (w : worker) : Prop :=
  w_idx w = N.of_nat g /\ w_open w = true /\
  PInv (isgap gap g) (w_cnt w) (getb avl (N.of_nat g)) (length (w_queue w)) (length (w_picked w))
       (nwakes (N.of_nat g) q).

Definition InvC (nl : nat) (gap : option nat) (e : option bad) (wsl : list worker) (hs : list nat) (nx : nat)
           (avl : avail) (q : list interest) (ls : list lst) : Prop :=
  e = None /\ 1 <= length wsl <= 512 /\ hs = seq 0 (length wsl) /\ nx < length wsl /\ wf avl /\
  (forall i, (i < 512)%N -> getb avl i = true -> N.to_nat i < length wsl) /\
  (forall g, ~ In (IWorker g) q) /\
  length ls = nl /\
  (forall g w, nth_error wsl g = Some w -> WInv gap avl q g w).

Definition Inv (nl : nat) (gap : option nat) (st : state) : Prop :=
  InvC nl gap (err st) (ws st) (handles st) (next st) (av st) (wq st) (lsts st).

(* ---------- the dispatch log (C04) ----------
   Ghost events: EvSkip g when accept_one passes over worker g, EvDispatch .. g .. n when it sends to g
   (n = connections g had in progress).  [tr_next] replays the log (newest first) and computes the value
   `next` must have: every skip/dispatch concerns exactly the worker `next` pointed at, and moves `next`
   to its cyclic successor.  [TInv] ties the log to the state. *)
Definition succ_mod_w (W g : nat) : nat := (g + 1) mod W.

Fixpoint tr_next (W : nat) (tr : list event) : option nat :=
  match tr with
  | [] => Some 0
  | e :: r =>
      match tr_next W r with
      | None => None
      | Some cur =>
          match e with
          | EvSkip g _ _ | EvDispatch _ _ g _ _ => if Nat.eqb g cur then Some (succ_mod_w W g) else None
          | _ => Some cur
          end
      end
  end.

Definition dispatch_ok (e : event) : Prop :=
  match e with
  | EvDispatch _ _ _ _ n => (Z.of_nat n < L)%Z                     (* the target had spare capacity *)
  | EvSkip _ n pend => Z.of_nat n = L \/ pend = true               (* the skipped worker was at its limit, or its
                                                                      release has not been processed yet *)
  | _ => True
  end.

Definition TrI (W : nat) (tr : list event) (nx : nat) : Prop :=
  tr_next W tr = Some nx /\ Forall dispatch_ok tr.

Definition TInv (W : nat) (st : state) : Prop := TrI W (trace st) (next st).

Lemma TrI_emit_other W tr nx e :
  match e with EvSkip _ _ _ | EvDispatch _ _ _ _ _ => False | _ => True end ->
  TrI W tr nx -> TrI W (e :: tr) nx.
Proof.
  intros He [H1 H2]. unfold TrI. cbn [tr_next]. rewrite H1.
  split; [destruct e; try reflexivity; contradiction|]. constructor; [destruct e; exact I || contradiction|exact H2].
Qed.

(* ---------- consequences ---------- *)
Lemma PInv_limit gap c bit q p wk : PInv gap c bit q p wk -> (Z.of_nat q + Z.of_nat p <= L)%Z.
Proof.
  intros (Hc & Ht & Hf). destruct bit.
  - destruct (Ht eq_refl). destruct gap; lia.
  - destruct (Hf eq_refl) as (-> & [[? ?]|[? ?]]); lia.
Qed.

(* C02 at the model level: in-progress count never exceeds the limit *)
Lemma Inv_limit nl gap st g w :
  Inv nl gap st -> nth_error (ws st) g = Some w ->
  (Z.of_nat (length (w_queue w)) + Z.of_nat (length (w_picked w)) <= L)%Z.
Proof.
  intros (_ & _ & _ & _ & _ & _ & _ & _ & Hw) Hg. destruct (Hw _ _ Hg) as (_ & _ & HP).
  eapply PInv_limit; eassumption.
Qed.

(* C03 core: once every notice has been processed, a worker flagged unavailable is really saturated *)
Lemma Inv_no_lost_wakeup nl st g w :
  Inv nl None st -> nth_error (ws st) g = Some w ->
  nwakes (N.of_nat g) (wq st) = 0 -> getb (av st) (N.of_nat g) = false ->
  (Z.of_nat (length (w_queue w)) + Z.of_nat (length (w_picked w)) = L)%Z.
Proof.
  intros (_ & _ & _ & _ & _ & _ & _ & _ & Hw) Hg Hn Hb. destruct (Hw _ _ Hg) as (_ & _ & (Hc & _ & Hf)).
  cbn [isgap] in *. rewrite Hb in Hf. destruct (Hf eq_refl) as (_ & [[? ?]|[? ?]]); lia.
Qed.

(* ... and a worker flagged available has spare capacity *)
Lemma Inv_flag_capacity nl st g w :
  Inv nl None st -> nth_error (ws st) g = Some w -> getb (av st) (N.of_nat g) = true ->
  (Z.of_nat (length (w_queue w)) + Z.of_nat (length (w_picked w)) < L)%Z.
Proof.
  intros (_ & _ & _ & _ & _ & _ & _ & _ & Hw) Hg Hb. destruct (Hw _ _ Hg) as (_ & _ & (Hc & Ht & _)).
  cbn [isgap] in *. rewrite Hb in Ht. destruct (Ht eq_refl). lia.
Qed.

(* ---------- helpers ---------- *)
Lemma of_nat_lt512 g n : g < n -> n <= 512 -> (N.of_nat g < 512)%N.
Proof. lia. Qed.

Lemma of_nat_inj_ne g g' : g <> g' -> N.of_nat g <> N.of_nat g'.
Proof. lia. Qed.

Lemma av_set_ok st i v : (i < 512)%N -> av_set st i v = set_av st (setb (av st) i v).
Proof.
  intros Hi. unfold av_set, setb. destruct (set_total (av st) i v Hi) as [a Ha]. now rewrite Ha.
Qed.

Lemma av_get_ok st i : (i < 512)%N -> av_get st i = (st, getb (av st) i).
Proof.
  intros Hi. unfold av_get, getb. unfold get. rewrite offset_spec by assumption. reflexivity.
Qed.

Lemma remove_conn_length c l x p : remove_conn c l = Some (x, p) -> length l = S (length p).
Proof.
  revert x p; induction l as [|y t IH]; cbn; intros x p H; [discriminate|].
  destruct (N.eqb (c_id y) c).
  - injection H as <- <-. reflexivity.
  - destruct (remove_conn c t) as [[z t']|] eqn:E; [|discriminate].
    injection H as <- <-. cbn. f_equal. eapply IH. reflexivity.
Qed.

(* the per-worker facts survive when only other workers / other parts change *)
Lemma WInv_ext gap avl avl' q q' g w :
  getb avl' (N.of_nat g) = getb avl (N.of_nat g) -> nwakes (N.of_nat g) q' = nwakes (N.of_nat g) q ->
  WInv gap avl q g w -> WInv gap avl' q' g w.
Proof. intros Hb Hn (Hi & Ho & HP). unfold WInv. rewrite Hb, Hn. auto. Qed.

(* ---------- one guard drop (Finish / DrainDrop) ---------- *)
Lemma PInv_release gap c bit q p wk q' p' :
  PInv gap c bit q p wk -> q' + p' + 1 = q + p ->
  PInv gap (c - 1) bit q' p' (if (c =? L + 1)%Z then wk + 1 else wk).
Proof.
  intros (Hc & Ht & Hf) Hqp. unfold PInv.
  destruct (Z.eqb_spec c (L + 1)) as [He|Hne].
  - split; [destruct gap; lia|]. split.
    + intros Hb. destruct (Ht Hb). lia.
    + intros Hb. destruct (Hf Hb) as (Hg & [[? ?]|[? ?]]); split; auto; right; lia.
  - split; [destruct gap; lia|]. split.
    + intros Hb. destruct (Ht Hb). lia.
    + intros Hb. destruct (Hf Hb) as (Hg & [[? ?]|[? ?]]); split; auto; [lia|right; lia].
Qed.

(* replacing one worker's record (and possibly extending the waker queue) *)
Lemma InvC_upd_worker nl gap e wsl hs nx avl q ls g w w' q' :
  InvC nl gap e wsl hs nx avl q ls -> nth_error wsl g = Some w ->
  w_idx w' = w_idx w -> w_open w' = w_open w ->
  (forall g0, ~ In (IWorker g0) q') ->
  (forall g', g' <> g -> nwakes (N.of_nat g') q' = nwakes (N.of_nat g') q) ->
  PInv (isgap gap g) (w_cnt w') (getb avl (N.of_nat g)) (length (w_queue w')) (length (w_picked w'))
       (nwakes (N.of_nat g) q') ->
  InvC nl gap e (replace_nth g w' wsl) hs nx avl q' ls.
Proof.
  intros (He & HW & Hh & Hn & Hwf & Hbits & Hnw & Hnl & Hw) Hg Hi Ho Hnw' Hoth HP.
  destruct (Hw _ _ Hg) as (Hidx & Hopen & _).
  unfold InvC. rewrite length_replace_nth.
  split; [exact He|]. split; [exact HW|]. split; [exact Hh|]. split; [exact Hn|]. split; [exact Hwf|].
  split; [exact Hbits|]. split; [exact Hnw'|]. split; [exact Hnl|].
  intros g0 w0 H0. rewrite nth_error_replace_nth in H0.
  destruct (Nat.eqb_spec g g0) as [<-|Hne].
  - destruct (Nat.ltb g (length wsl)); [|discriminate]. injection H0 as <-.
    unfold WInv. rewrite Hi, Ho. auto.
  - destruct (Hw _ _ H0) as (Hi0 & Ho0 & HP0). unfold WInv. rewrite (Hoth g0) by congruence. auto.
Qed.

Lemma nwakes_snoc_avail i j q : nwakes i (q ++ [IAvail j]) = nwakes i q + (if N.eqb i j then 1 else 0).
Proof. rewrite nwakes_app. unfold nwakes at 2. cbn [filter]. destruct (N.eqb i j); reflexivity. Qed.

Lemma nwakes_snoc_other i x q :
  (forall j, x <> IAvail j) -> nwakes i (q ++ [x]) = nwakes i q.
Proof.
  intros H. rewrite nwakes_app. unfold nwakes at 2. cbn [filter].
  destruct x; try (cbn; lia). exfalso. eapply H. reflexivity.
Qed.

Lemma guard_drop_inv nl gap st g w w' :
  Inv nl gap st -> nth_error (ws st) g = Some w ->
  w_idx w' = w_idx w -> w_open w' = w_open w -> w_cnt w' = w_cnt w ->
  length (w_queue w') + length (w_picked w') + 1 = length (w_queue w) + length (w_picked w) ->
  Inv nl gap (guard_drop L st g w').
Proof.
  intros HI Hg Hi Ho Hc Hlen.
  pose proof HI as (He & HW & Hh & Hn & Hwf & Hbits & Hnw & Hnl & Hw).
  destruct (Hw _ _ Hg) as (Hidx & Hopen & HP).
  pose proof (PInv_release _ _ _ _ _ _ _ _ HP Hlen) as HP'.
  unfold guard_drop. rewrite Hc.
  destruct (Z.eqb_spec (w_cnt w) (L + 1)) as [Heq|Hne].
  - unfold Inv, wake, upd_worker. cbn.
    eapply InvC_upd_worker with (w := w); try eassumption; cbn; auto.
    + intros g0 Hin. apply in_app_or in Hin as [Hin|[Hin|[]]]; [exact (Hnw _ Hin)|discriminate].
    + intros g' Hne. rewrite nwakes_snoc_avail, Hi, Hidx.
      destruct (N.eqb_spec (N.of_nat g') (N.of_nat g)) as [E|_]; [apply Nat2N.inj in E; congruence|lia].
    + rewrite nwakes_snoc_avail, Hi, Hidx, N.eqb_refl. exact HP'.
  - unfold Inv, upd_worker. cbn.
    eapply InvC_upd_worker with (w := w); try eassumption; cbn; auto.
Qed.

Lemma PInv_same_sum gap c bit q p wk q' p' :
  PInv gap c bit q p wk -> q' + p' = q + p -> PInv gap c bit q' p' wk.
Proof. intros (Hc & Ht & Hf) Hs. unfold PInv. split; [destruct gap; lia|]. split; assumption. Qed.

Lemma InvC_change_q nl gap e wsl hs nx avl q q' ls :
  (forall i, nwakes i q' = nwakes i q) -> (forall g, ~ In (IWorker g) q') ->
  InvC nl gap e wsl hs nx avl q ls -> InvC nl gap e wsl hs nx avl q' ls.
Proof.
  intros Hn Hnw' (He & HW & Hh & Hnx & Hwf & Hbits & Hnw & Hnl & Hw).
  unfold InvC. repeat (split; [assumption|]).
  intros g w Hg. destruct (Hw _ _ Hg) as (? & ? & ?). unfold WInv. rewrite Hn. auto.
Qed.

Lemma InvC_change_ls nl gap e wsl hs nx avl q ls ls' :
  length ls' = nl -> InvC nl gap e wsl hs nx avl q ls -> InvC nl gap e wsl hs nx avl q ls'.
Proof.
  intros Hl (He & HW & Hh & Hnx & Hwf & Hbits & Hnw & Hnl & Hw).
  unfold InvC. repeat (split; [assumption|]). assumption.
Qed.

Lemma Inv_lsts_len nl gap st : Inv nl gap st -> length (lsts st) = nl.
Proof. intros (_ & _ & _ & _ & _ & _ & _ & H & _). exact H. Qed.

(* what an environment step never touches (fault-free steps) *)
Lemma env_step_frame st o : nf_eop o = true ->
  handles (env_step L st o) = handles st /\ next (env_step L st o) = next st /\
  av (env_step L st o) = av st /\ err (env_step L st o) = err st /\
  length (ws (env_step L st o)) = length (ws st) /\ paused (env_step L st o) = paused st /\
  stopped (env_step L st o) = stopped st /\ now (env_step L st o) = now st /\
  ptimeout (env_step L st o) = ptimeout st.
Proof.
  intros Hnf. destruct o; try discriminate; cbn [env_step].
  - destruct (nth_error (lsts st) tok); [|repeat split]. destruct (l_uds l && negb (l_linked l)); repeat split.
  - destruct (nth_error (ws st) g) as [w|]; [|repeat split]. destruct (w_open w); [|repeat split].
    destruct (w_queue w); repeat split. cbn. apply length_replace_nth.
  - destruct (nth_error (ws st) g) as [w|]; [|repeat split]. destruct (remove_conn c (w_picked w)) as [[x p]|]; [|repeat split].
    unfold guard_drop. destruct (Z.eqb _ _); cbn; repeat split; apply length_replace_nth.
  - destruct (nth_error (ws st) g) as [w|]; [|repeat split]. destruct (w_open w); [|repeat split].
    destruct (w_queue w); [repeat split|].
    unfold guard_drop. destruct (Z.eqb _ _); cbn; repeat split; apply length_replace_nth.
  - repeat split.
  - destruct (nth_error (lsts st) tok); repeat split.
Qed.

Lemma env_step_inv nl gap st o : nf_eop o = true -> Inv nl gap st -> Inv nl gap (env_step L st o).
Proof.
  intros Hnf HI. pose proof HI as (He & HW & Hh & Hn & Hwf & Hbits & Hnw & Hnl & Hw).
  destruct o; try discriminate; cbn [env_step].
  - destruct (nth_error (lsts st) tok) as [l|]; [|exact HI].
    destruct (l_uds l && negb (l_linked l)); [exact HI|].
    unfold Inv, upd_lst. cbn. eapply InvC_change_ls; [|exact HI]. now rewrite length_replace_nth.
  - destruct (nth_error (ws st) g) as [w|] eqn:Eg; [|exact HI]. destruct (w_open w) eqn:Eo; [|exact HI].
    destruct (w_queue w) as [|c q] eqn:Eq; [exact HI|].
    unfold Inv, upd_worker. cbn.
    eapply InvC_upd_worker with (w := w); try eassumption; cbn; auto.
    destruct (Hw _ _ Eg) as (_ & _ & HP). eapply PInv_same_sum; [exact HP|].
    rewrite Eq, app_length. cbn. lia.
  - destruct (nth_error (ws st) g) as [w|] eqn:Eg; [|exact HI].
    destruct (remove_conn c (w_picked w)) as [[x p]|] eqn:Er; [|exact HI].
    change (Inv nl gap (guard_drop L st g (set_w_picked w p))).
    eapply guard_drop_inv with (w := w); try eassumption; cbn; auto.
    rewrite (remove_conn_length _ _ _ _ Er). lia.
  - destruct (nth_error (ws st) g) as [w|] eqn:Eg; [|exact HI]. destruct (w_open w) eqn:Eo; [|exact HI].
    destruct (w_queue w) as [|c q] eqn:Eq; [exact HI|].
    change (Inv nl gap (guard_drop L st g (set_w_queue w q))).
    eapply guard_drop_inv with (w := w); try eassumption; cbn; auto.
    rewrite Eq. cbn. lia.
  - unfold Inv, wake. cbn. eapply InvC_change_q; [| |exact HI].
    + intros i. apply nwakes_snoc_other. intros j. destruct c; discriminate.
    + intros g Hin. apply in_app_or in Hin as [Hin|[Hin|[]]]; [exact (Hnw _ Hin)|destruct c; discriminate].
  - destruct (nth_error (lsts st) tok) as [l|]; [|exact HI].
    unfold Inv, upd_lst. cbn. eapply InvC_change_ls; [|exact HI]. now rewrite length_replace_nth.
Qed.

Lemma env_step_wq_len st o : length (wq (env_step L st o)) <= S (length (wq st)).
Proof.
  destruct o; cbn [env_step].
  - destruct (nth_error (lsts st) tok); [|lia]. destruct (l_uds l && negb (l_linked l)); cbn; lia.
  - destruct (nth_error (ws st) g) as [w|]; [|lia]. destruct (w_open w); [|lia]. destruct (w_queue w); cbn; lia.
  - destruct (nth_error (ws st) g) as [w|]; [|lia]. destruct (remove_conn c (w_picked w)) as [[x p]|]; [|lia].
    unfold guard_drop. destruct (Z.eqb _ _); cbn; rewrite ?app_length; cbn; lia.
  - destruct (nth_error (ws st) g) as [w|]; [|lia]. destruct (w_open w); [|lia]. destruct (w_queue w); [lia|].
    unfold guard_drop. destruct (Z.eqb _ _); cbn; rewrite ?app_length; cbn; lia.
  - destruct (nth_error (ws st) g) as [w|]; [|lia]. destruct (w_open w); [|lia].
    assert (G : forall l s, length (wq (fold_left (fun s c => emit s (EvLost (c_id c))) l s)) = length (wq s)).
    { induction l as [|x l IH]; intros s; cbn [fold_left]; [reflexivity|]. rewrite IH. reflexivity. }
    rewrite G. cbn. lia.
  - cbn. rewrite app_length. cbn. lia.
  - cbn. rewrite app_length. cbn. lia.
  - destruct (nth_error (lsts st) tok); cbn; lia.
Qed.

Lemma env_steps_wq_len os st : length (wq (env_steps L st os)) <= length os + length (wq st).
Proof.
  revert st; induction os as [|o os IH]; intros st; cbn [env_steps fold_left length]; [lia|].
  specialize (IH (env_step L st o)). unfold env_steps in IH.
  pose proof (env_step_wq_len st o). lia.
Qed.

Lemma env_steps_inv nl gap os st :
  forallb nf_eop os = true -> Inv nl gap st ->
  Inv nl gap (env_steps L st os) /\
  handles (env_steps L st os) = handles st /\ next (env_steps L st os) = next st /\
  av (env_steps L st os) = av st /\ length (ws (env_steps L st os)) = length (ws st) /\
  paused (env_steps L st os) = paused st /\ stopped (env_steps L st os) = stopped st /\
  now (env_steps L st os) = now st /\ ptimeout (env_steps L st os) = ptimeout st.
Proof.
  revert st; induction os as [|o os IH]; intros st Hnf HI; cbn [env_steps fold_left].
  - split; [exact HI|repeat split].
  - cbn [forallb] in Hnf. apply andb_true_iff in Hnf as [Ho Hos].
    pose proof (env_step_inv _ _ _ _ Ho HI) as HI1.
    pose proof (env_step_frame st o Ho) as (F1 & F2 & F3 & F4 & F5 & F6 & F7 & F8 & F9).
    destruct (IH _ Hos HI1) as (G0 & G1 & G2 & G3 & G4 & G5 & G6 & G7 & G8). unfold env_steps in *.
    split; [exact G0|]. repeat split; congruence.
Qed.

Lemma env_step_tinv W st o nx : TrI W (trace st) nx -> TrI W (trace (env_step L st o)) nx.
Proof.
  intros HT.
  assert (G : forall l s, TrI W (trace s) nx -> TrI W (trace (fold_left (fun s c => emit s (EvLost (c_id c))) l s)) nx).
  { induction l as [|x l IHl]; intros s Hs; cbn [fold_left]; [exact Hs|]. apply IHl. cbn [trace emit]. now apply TrI_emit_other. }
  destruct o; cbn [env_step].
  - destruct (nth_error (lsts st) tok); [|exact HT]. destruct (l_uds l && negb (l_linked l)).
    + cbn [trace emit]. now apply TrI_emit_other.
    + exact HT.
  - destruct (nth_error (ws st) g) as [w|]; [|exact HT]. destruct (w_open w); [|exact HT].
    destruct (w_queue w); exact HT.
  - destruct (nth_error (ws st) g) as [w|]; [|exact HT]. destruct (remove_conn c (w_picked w)) as [[x p]|]; [|exact HT].
    cbn [trace emit]. apply TrI_emit_other; [exact I|]. unfold guard_drop. destruct (Z.eqb _ _); exact HT.
  - destruct (nth_error (ws st) g) as [w|]; [|exact HT]. destruct (w_open w); [|exact HT].
    destruct (w_queue w); [exact HT|].
    cbn [trace emit]. apply TrI_emit_other; [exact I|]. unfold guard_drop. destruct (Z.eqb _ _); exact HT.
  - destruct (nth_error (ws st) g) as [w|]; [|exact HT]. destruct (w_open w); [|exact HT].
    apply G. cbn [trace emit]. apply TrI_emit_other; [exact I|exact HT].
  - exact HT.
  - exact HT.
  - destruct (nth_error (lsts st) tok); exact HT.
Qed.

Lemma env_steps_tinv W os nx : forall st, TrI W (trace st) nx -> TrI W (trace (env_steps L st os)) nx.
Proof.
  induction os as [|o os IH]; intros st HT; cbn [env_steps fold_left]; [exact HT|].
  apply IH. now apply env_step_tinv.
Qed.

(* ---------- inc_counter closes the gap ---------- *)
Lemma PInv_inc c q p wk :
  PInv true c true q p wk -> PInv false (c + 1) (if (c =? L)%Z then false else true) q p wk.
Proof.
  intros (Hc & Ht & _). destruct (Ht eq_refl) as [Hwk Hle]. unfold PInv.
  destruct (Z.eqb_spec c L) as [He|Hne].
  - split; [lia|]. split; [discriminate|]. intros _. split; [reflexivity|]. left. lia.
  - split; [lia|]. split; [intros _; lia|discriminate].
Qed.

Lemma PInv_gap_bit c bit q p wk : PInv true c bit q p wk -> bit = true.
Proof. intros (_ & _ & Hf). destruct bit; [reflexivity|]. destruct (Hf eq_refl). discriminate. Qed.

Lemma isgap_other g g0 : g0 <> g -> isgap (Some g) g0 = false.
Proof. intros H. cbn. now apply Nat.eqb_neq. Qed.

Lemma InvC_inc nl e wsl hs nx avl q ls g w2 :
  InvC nl (Some g) e wsl hs nx avl q ls -> nth_error wsl g = Some w2 ->
  InvC nl None e (replace_nth g (set_w_cnt w2 (w_cnt w2 + 1)) wsl) hs nx
       (if (w_cnt w2 =? L)%Z then setb avl (N.of_nat g) false else avl) q ls.
Proof.
  intros (He & HW & Hh & Hnx & Hwf & Hbits & Hnw & Hnl & Hw) Hg.
  pose proof (nth_error_Some_lt _ _ _ Hg) as Hlt.
  assert (Hg512 : (N.of_nat g < 512)%N) by lia.
  destruct (Hw _ _ Hg) as (Hidx & Hopen & HP). cbn [isgap] in HP. rewrite Nat.eqb_refl in HP.
  pose proof (PInv_gap_bit _ _ _ _ _ HP) as Hbit. rewrite Hbit in HP.
  pose proof (PInv_inc _ _ _ _ HP) as HP'.
  unfold InvC. rewrite length_replace_nth.
  split; [exact He|]. split; [exact HW|]. split; [exact Hh|]. split; [exact Hnx|].
  split; [destruct (w_cnt w2 =? L)%Z; [apply wf_setb|]; exact Hwf|].
  split.
  { intros i Hi Hb. apply Hbits; [exact Hi|].
    destruct (w_cnt w2 =? L)%Z; [|exact Hb].
    rewrite getb_setb in Hb by assumption. destruct (N.of_nat g =? i)%N; [discriminate|exact Hb]. }
  split; [exact Hnw|]. split; [exact Hnl|].
  intros g0 w0 H0. rewrite nth_error_replace_nth in H0.
  destruct (Nat.eqb_spec g g0) as [<-|Hne].
  - destruct (Nat.ltb g (length wsl)); [|discriminate]. injection H0 as <-.
    unfold WInv. cbn [w_idx w_open w_cnt w_queue w_picked set_w_cnt isgap].
    split; [exact Hidx|]. split; [exact Hopen|].
    destruct (w_cnt w2 =? L)%Z.
    + rewrite getb_setb, N.eqb_refl by assumption. exact HP'.
    + rewrite Hbit. exact HP'.
  - destruct (Hw _ _ H0) as (Hi0 & Ho0 & HP0). rewrite isgap_other in HP0 by congruence.
    unfold WInv. cbn [isgap]. split; [exact Hi0|]. split; [exact Ho0|].
    pose proof (nth_error_Some_lt _ _ _ H0) as Hlt0.
    destruct (w_cnt w2 =? L)%Z; [|exact HP0].
    rewrite getb_setb by lia.
    destruct (N.eqb_spec (N.of_nat g) (N.of_nat g0)) as [E|_]; [apply Nat2N.inj in E; congruence|exact HP0].
Qed.

(* send opens the gap *)
Lemma InvC_send nl e wsl hs nx avl q ls g w c :
  InvC nl None e wsl hs nx avl q ls -> nth_error wsl g = Some w -> getb avl (N.of_nat g) = true ->
  InvC nl (Some g) e (replace_nth g (set_w_queue w (w_queue w ++ [c])) wsl) hs nx avl q ls.
Proof.
  intros (He & HW & Hh & Hnx & Hwf & Hbits & Hnw & Hnl & Hw) Hg Hb.
  destruct (Hw _ _ Hg) as (Hidx & Hopen & (Hc & Ht & Hf)). cbn [isgap] in *.
  unfold InvC. rewrite length_replace_nth. repeat (split; [assumption|]).
  intros g0 w0 H0. rewrite nth_error_replace_nth in H0.
  destruct (Nat.eqb_spec g g0) as [<-|Hne].
  - destruct (Nat.ltb g (length wsl)); [|discriminate]. injection H0 as <-.
    unfold WInv. cbn [w_idx w_open w_cnt w_queue w_picked set_w_queue isgap]. rewrite Nat.eqb_refl.
    split; [exact Hidx|]. split; [exact Hopen|]. rewrite Hb in *. destruct (Ht eq_refl).
    unfold PInv. rewrite app_length. cbn [length]. split; [lia|]. split; [auto|discriminate].
  - destruct (Hw _ _ H0) as (Hi0 & Ho0 & HP0). unfold WInv. rewrite isgap_other by congruence. auto.
Qed.

Lemma do_set_next_ok st : 0 < length (handles st) ->
  do_set_next st = set_next_ st ((next st + 1) mod length (handles st)).
Proof. unfold do_set_next. destruct (length (handles st)); [lia|reflexivity]. Qed.

Lemma nf_ys_hd ys : nf_ys ys = true -> forallb nf_eop (hd [] ys) = true /\ nf_ys (tl ys) = true.
Proof. destruct ys as [|y ys]; cbn; [auto|]. intros H. now apply andb_true_iff in H. Qed.

Lemma ysize_hd_tl ys : ysize ys = length (hd [] ys) + ysize (tl ys).
Proof. destruct ys as [|y ys]; cbn; [reflexivity|]. unfold ysize. cbn. now rewrite app_length. Qed.

(* what the environment does to the listeners depends on the listeners only *)
Lemma env_steps_lsts_congr os : forall sa sb, lsts sa = lsts sb ->
  lsts (env_steps L sa os) = lsts (env_steps L sb os).
Proof.
  induction os as [|o os IH]; intros sa sb Hl; cbn [env_steps fold_left]; [exact Hl|].
  apply IH. destruct o; cbn [env_step]; try rewrite Hl.
  - destruct (nth_error (lsts sb) tok); [|exact Hl]. destruct (l_uds l && negb (l_linked l)); cbn; congruence.
  - destruct (nth_error (ws sa) g) as [wa|], (nth_error (ws sb) g) as [wb|]; try exact Hl;
      repeat match goal with |- context [if ?b then _ else _] => destruct b end;
      repeat match goal with |- context [match ?l with [] => _ | _ :: _ => _ end] => destruct l end; cbn; exact Hl.
  - destruct (nth_error (ws sa) g) as [wa|], (nth_error (ws sb) g) as [wb|]; try exact Hl;
      repeat match goal with |- context [match remove_conn ?a ?b with _ => _ end] => destruct (remove_conn a b) as [[? ?]|] end;
      unfold guard_drop; repeat match goal with |- context [if ?b then _ else _] => destruct b end; cbn; exact Hl.
  - destruct (nth_error (ws sa) g) as [wa|], (nth_error (ws sb) g) as [wb|]; try exact Hl;
      repeat match goal with |- context [if w_open ?b then _ else _] => destruct (w_open b) end;
      repeat match goal with |- context [match w_queue ?l with [] => _ | _ :: _ => _ end] => destruct (w_queue l) end;
      unfold guard_drop; repeat match goal with |- context [if ?b then _ else _] => destruct b end; cbn; exact Hl.
  - assert (G : forall l s, lsts (fold_left (fun s c => emit s (EvLost (c_id c))) l s) = lsts s).
    { induction l as [|x l IHl]; intros s; cbn [fold_left]; [reflexivity|]. now rewrite IHl. }
    destruct (nth_error (ws sa) g) as [wa|], (nth_error (ws sb) g) as [wb|]; try exact Hl;
      repeat match goal with |- context [if w_open ?b then _ else _] => destruct (w_open b) end;
      rewrite ?G; cbn; exact Hl.
  - cbn. exact Hl.
  - cbn. exact Hl.
  - destruct (nth_error (lsts sb) tok); cbn; congruence.
Qed.

(* Accept::send_connection to a worker whose flag is set *)
Lemma send_connection_inv nl st c ys :
  Inv nl None st -> nf_ys ys = true -> getb (av st) (N.of_nat (next st)) = true ->
  exists st', send_connection L st c ys = (st', tl ys, SOk) /\ Inv nl None st' /\
              length (wq st') <= length (wq st) + length (hd [] ys) /\
              lsts st' = lsts (env_steps L st (hd [] ys)) /\ paused st' = paused st /\ stopped st' = stopped st /\
              now st' = now st /\ ptimeout st' = ptimeout st /\
              length (ws st') = length (ws st) /\
              (TInv (length (ws st)) st -> TInv (length (ws st)) st').
Proof.
  intros HI Hys Hb. pose proof HI as (He & HW & Hh & Hnx & Hwf & Hbits & Hnw & Hnl & Hw).
  destruct (nf_ys_hd _ Hys) as [Hhd Htl].
  unfold send_connection. rewrite Hh, nth_error_seq0 by exact Hnx.
  destruct (nth_error_lt_Some (ws st) (next st) Hnx) as [w Hg]. rewrite Hg.
  destruct (Hw _ _ Hg) as (Hidx & Hopen & _). rewrite Hopen.
  set (st1 := emit (upd_worker st (next st) (set_w_queue w (w_queue w ++ [c]))) _).
  assert (HI1 : Inv nl (Some (next st)) st1).
  { unfold Inv, st1, upd_worker. cbn. eapply InvC_send; eassumption. }
  destruct (env_steps_inv nl _ (hd [] ys) st1 Hhd HI1) as (HI2 & F1 & F2 & F3 & F4 & F5 & F6 & F7 & F8).
  set (st2 := env_steps L st1 (hd [] ys)) in *.
  assert (Hlt2 : next st < length (ws st2)) by (rewrite F4; unfold st1; cbn; now rewrite length_replace_nth).
  destruct (nth_error_lt_Some (ws st2) (next st) Hlt2) as [w2 Hg2]. rewrite Hg2.
  assert (HI3 : InvC nl None (err st2) (replace_nth (next st) (set_w_cnt w2 (w_cnt w2 + 1)) (ws st2)) (handles st2)
                     (next st2) (if (w_cnt w2 =? L)%Z then setb (av st2) (N.of_nat (next st)) false else av st2)
                     (wq st2) (lsts st2)).
  { apply InvC_inc; [exact HI2|exact Hg2]. }
  assert (H512 : (w_idx w < 512)%N) by (rewrite Hidx; lia).
  assert (Hlen : length (wq st2) <= length (wq st) + length (hd [] ys)).
  { pose proof (env_steps_wq_len (hd [] ys) st1). unfold st2. unfold st1 in H at 2. cbn in H. lia. }
  assert (Hls : lsts st2 = lsts (env_steps L st (hd [] ys))).
  { unfold st2, st1. apply env_steps_lsts_congr. reflexivity. }
  assert (HT : TInv (length (ws st)) st ->
               TrI (length (ws st)) (trace st2) ((next st2 + 1) mod length (handles st2))).
  { intros [T1 T2]. rewrite F1, F2. unfold st2. apply env_steps_tinv.
    unfold TrI, st1. cbn [trace emit next handles upd_worker set_ws tr_next].
    rewrite T1, Nat.eqb_refl. unfold succ_mod_w. rewrite Hh, seq_length. split; [reflexivity|].
    constructor; [|exact T2]. cbn. pose proof (Inv_flag_capacity nl st (next st) w HI Hg Hb). lia. }
  destruct (Z.eqb_spec (w_cnt w2) L) as [HeqL|HneL].
  - rewrite av_set_ok by (cbn; exact H512).
    rewrite do_set_next_ok by (cbn; rewrite F1; unfold st1; cbn; rewrite Hh, seq_length; lia).
    eexists. split; [reflexivity|]. split.
    + unfold Inv. cbn. rewrite Hidx. rewrite F1, F2 in *. unfold st1 in HI3 |- *. cbn in HI3 |- *.
      destruct HI3 as (A1 & A2 & A3 & A4 & A5). unfold InvC. split; [exact A1|]. split; [exact A2|].
      split; [exact A3|]. split; [|exact A5].
      rewrite A3, seq_length. apply Nat.mod_upper_bound. lia.
    + cbn. rewrite length_replace_nth, F4. unfold st1 at 1. cbn. rewrite length_replace_nth.
      repeat match goal with |- _ /\ _ => split; [solve [auto]|] end. intros HT0. exact (HT HT0).
  - rewrite do_set_next_ok by (cbn; rewrite F1; unfold st1; cbn; rewrite Hh, seq_length; lia).
    eexists. split; [reflexivity|]. split.
    + unfold Inv. cbn. rewrite F1, F2 in *. unfold st1 in HI3 |- *. cbn in HI3 |- *.
      destruct HI3 as (A1 & A2 & A3 & A4 & A5). unfold InvC. split; [exact A1|]. split; [exact A2|].
      split; [exact A3|]. split; [|exact A5].
      rewrite A3, seq_length. apply Nat.mod_upper_bound. lia.
    + cbn. rewrite length_replace_nth, F4. unfold st1 at 1. cbn. rewrite length_replace_nth.
      repeat match goal with |- _ /\ _ => split; [solve [auto]|] end. intros HT0. exact (HT HT0).
Qed.

(* clearing a flag that is already clear changes nothing observable *)
Lemma InvC_clear_false nl gap e wsl hs nx avl q ls i :
  (i < 512)%N -> getb avl i = false ->
  InvC nl gap e wsl hs nx avl q ls -> InvC nl gap e wsl hs nx (setb avl i false) q ls.
Proof.
  intros Hi Hb (He & HW & Hh & Hnx & Hwf & Hbits & Hnw & Hnl & Hw).
  assert (Hsame : forall j, (j < 512)%N -> getb (setb avl i false) j = getb avl j).
  { intros j Hj. rewrite getb_setb by assumption. destruct (N.eqb_spec i j) as [<-|_]; [now rewrite Hb|reflexivity]. }
  unfold InvC. split; [exact He|]. split; [exact HW|]. split; [exact Hh|]. split; [exact Hnx|].
  split; [now apply wf_setb|]. split.
  { intros j Hj Hbj. rewrite Hsame in Hbj by assumption. now apply Hbits. }
  split; [exact Hnw|]. split; [exact Hnl|].
  intros g w Hg. destruct (Hw _ _ Hg) as (? & ? & ?). pose proof (nth_error_Some_lt _ _ _ Hg).
  unfold WInv. rewrite Hsame by lia. auto.
Qed.

Definition cdist (W nx k : nat) : nat := if Nat.leb nx k then k - nx else k + W - nx.

(* Accept::accept_one reaches a flagged worker and sends exactly once *)
Lemma accept_one_inv nl : forall d fuel st c ys k,
  Inv nl None st -> nf_ys ys = true -> k < length (ws st) -> getb (av st) (N.of_nat k) = true ->
  d = cdist (length (ws st)) (next st) k -> d < fuel ->
  exists st', accept_one L fuel st c ys = (st', tl ys) /\ Inv nl None st' /\
              length (wq st') <= length (wq st) + length (hd [] ys) /\
              lsts st' = lsts (env_steps L st (hd [] ys)) /\ paused st' = paused st /\ stopped st' = stopped st /\
              now st' = now st /\ ptimeout st' = ptimeout st /\
              length (ws st') = length (ws st) /\
              (TInv (length (ws st)) st -> TInv (length (ws st)) st').
Proof.
  induction d as [d IH] using lt_wf_ind. intros fuel st c ys k HI Hys Hk Hbk Hd Hfuel.
  pose proof HI as (He & HW & Hh & Hnx & Hwf & Hbits & Hnw & Hnl & Hw).
  destruct fuel as [|f]; [lia|]. cbn [accept_one]. rewrite He.
  rewrite Hh, nth_error_seq0 by exact Hnx.
  destruct (nth_error_lt_Some (ws st) (next st) Hnx) as [w Hg]. rewrite Hg.
  destruct (Hw _ _ Hg) as (Hidx & Hopen & _).
  assert (H512 : (w_idx w < 512)%N) by (rewrite Hidx; lia).
  rewrite av_get_ok by exact H512. rewrite Hidx.
  destruct (getb (av st) (N.of_nat (next st))) eqn:Hb.
  - destruct (send_connection_inv nl st c ys HI Hys Hb) as (st' & Hs & HI' & Hrest). rewrite Hs.
    exists st'. split; [reflexivity|]. split; [exact HI'|exact Hrest].
  - (* skip this worker *)
    rewrite av_set_ok by (cbn; rewrite <- Hidx; exact H512).
    set (ev := EvSkip (next st) (length (w_queue w) + length (w_picked w)) (pending_notice (N.of_nat (next st)) (wq st))).
    set (sta := set_av (emit st ev) (setb (av (emit st ev)) (N.of_nat (next st)) false)).
    assert (Hlenh : 0 < length (handles sta)) by (unfold sta; cbn; rewrite Hh, seq_length; lia).
    rewrite (do_set_next_ok _ Hlenh).
    replace (length (handles sta)) with (length (ws st)) by (unfold sta; cbn; now rewrite Hh, seq_length).
    replace (next sta) with (next st) by reflexivity.
    rewrite succ_mod by exact Hnx.
    set (nx' := if Nat.eqb (next st + 1) (length (ws st)) then 0 else next st + 1).
    set (st1 := set_next_ sta nx').
    assert (Hnk : next st <> k) by (intros E; rewrite E in Hb; congruence).
    assert (Hnx' : nx' < length (ws st)).
    { unfold nx'. destruct (Nat.eqb_spec (next st + 1) (length (ws st))); lia. }
    assert (HI1 : Inv nl None st1).
    { unfold Inv, st1, sta. cbn.
      pose proof (InvC_clear_false nl None _ _ _ _ _ _ _ (N.of_nat (next st)) ltac:(lia) Hb HI) as H1.
      destruct H1 as (A1 & A2 & A3 & A4 & A5). unfold InvC. split; [exact A1|]. split; [exact A2|].
      split; [exact A3|]. split; [exact Hnx'|exact A5]. }
    assert (Hbk1 : getb (av st1) (N.of_nat k) = true).
    { unfold st1, sta. cbn. rewrite getb_setb by lia.
      destruct (N.eqb_spec (N.of_nat (next st)) (N.of_nat k)) as [E|_]; [apply Nat2N.inj in E; congruence|exact Hbk]. }
    assert (Havail : available (av st1) = true).
    { apply available_getb; [apply HI1|]. exists (N.of_nat k). split; [lia|exact Hbk1]. }
    rewrite Havail.
    assert (Hd1 : cdist (length (ws st1)) (next st1) k < d).
    { unfold st1, sta. cbn. subst d. unfold cdist, nx'.
      destruct (Nat.eqb_spec (next st + 1) (length (ws st)));
        destruct (Nat.leb_spec (next st) k); destruct (Nat.leb_spec 0 k);
        try destruct (Nat.leb_spec (next st + 1) k); lia. }
    destruct (IH _ Hd1 f st1 c ys k HI1 Hys ltac:(exact Hk) Hbk1 eq_refl ltac:(lia))
      as (st' & Hs & HI' & Hrest).
    rewrite Hs. exists st'. split; [reflexivity|]. split; [exact HI'|].
    destruct Hrest as (R1 & R2 & R3 & R4 & R5 & R6 & R7 & R8).
    rewrite (env_steps_lsts_congr (hd [] ys) st1 st eq_refl) in R2.
    repeat match goal with |- _ /\ _ => split; [solve [auto]|] end.
    intros [T1 T2]. apply R8. change (length (ws st1)) with (length (ws st)).
    unfold TInv, TrI, st1, sta, ev. cbn [trace next set_next_ set_av emit tr_next].
    rewrite T1, Nat.eqb_refl. unfold succ_mod_w. rewrite succ_mod by exact Hnx. fold nx'.
    split; [reflexivity|]. constructor; [|exact T2].
    (* the skipped worker is saturated or its notice is pending *)
    cbn. destruct (Hw _ _ Hg) as (_ & _ & (Hc & _ & Hf)). cbn [isgap] in *. rewrite Hb in Hf.
    destruct (Hf eq_refl) as (_ & [[Hwk Hc1]|[Hwk Hc1]]); [left; lia|right].
    unfold pending_notice. unfold nwakes in Hwk.
    destruct (filter _ (wq st)) as [|x l] eqn:Ef; [discriminate|].
    apply existsb_exists. exists x.
    assert (Hin : In x (filter (fun x => match x with IAvail j => N.eqb (N.of_nat (next st)) j | _ => false end) (wq st)))
      by (rewrite Ef; now left).
    apply filter_In in Hin. exact Hin.
Qed.

(* ---------- Accept::accept ---------- *)
Definition lmeas (ls : list lst) (tok : nat) : nat :=
  match nth_error ls tok with Some l => length (l_backlog l) + length (l_inject l) | None => 0 end.

Lemma lmeas_replace ls tok l : tok < length ls ->
  lmeas (replace_nth tok l ls) tok = length (l_backlog l) + length (l_inject l).
Proof. intros H. unfold lmeas. now rewrite nth_error_replace_nth_same. Qed.

Lemma env_step_lmeas st o tok : lmeas (lsts (env_step L st o)) tok <= S (lmeas (lsts st) tok).
Proof.
  assert (G : forall l s, lsts (fold_left (fun s c => emit s (EvLost (c_id c))) l s) = lsts s).
  { induction l as [|x l IHl]; intros s; cbn [fold_left]; [reflexivity|]. now rewrite IHl. }
  destruct o; cbn [env_step];
    try (destruct (nth_error (ws st) g) as [w|]; [|lia]);
    try (destruct (w_open w); [|lia]);
    try (destruct (w_queue w); [lia|]);
    try (destruct (remove_conn c (w_picked w)) as [[? ?]|]; [|lia]);
    unfold guard_drop; try (destruct (Z.eqb _ _)); rewrite ?G; cbn [lsts emit upd_worker set_ws wake set_wq]; try lia.
  - destruct (nth_error (lsts st) tok0) as [l|] eqn:E; [|lia].
    destruct (l_uds l && negb (l_linked l)); cbn [lsts emit upd_lst set_lsts]; [lia|].
    unfold lmeas. rewrite nth_error_replace_nth.
    destruct (Nat.eqb_spec tok0 tok) as [<-|_]; [|lia].
    destruct (Nat.ltb tok0 (length (lsts st))); [|rewrite E; lia].
    rewrite E. cbn. rewrite app_length. cbn. lia.
  - destruct (nth_error (lsts st) tok0) as [l|] eqn:E; [|lia].
    cbn [lsts emit upd_lst set_lsts].
    unfold lmeas. rewrite nth_error_replace_nth.
    destruct (Nat.eqb_spec tok0 tok) as [<-|_]; [|lia].
    destruct (Nat.ltb tok0 (length (lsts st))); [|rewrite E; lia].
    rewrite E. cbn. rewrite app_length. cbn. lia.
Qed.

Lemma env_steps_lmeas os st tok : lmeas (lsts (env_steps L st os)) tok <= length os + lmeas (lsts st) tok.
Proof.
  revert st; induction os as [|o os IH]; intros st; cbn [env_steps fold_left length]; [lia|].
  specialize (IH (env_step L st o)). unfold env_steps in IH. pose proof (env_step_lmeas st o tok). lia.
Qed.

Lemma Inv_set_timeout nl gap st d : Inv nl gap st -> Inv nl gap (set_timeout st d).
Proof. intros H. unfold set_timeout. destruct (ptimeout st); [destruct (N.ltb d n)|]; exact H. Qed.

Lemma set_timeout_frame st d :
  lsts (set_timeout st d) = lsts st /\ wq (set_timeout st d) = wq st /\ paused (set_timeout st d) = paused st /\
  stopped (set_timeout st d) = stopped st /\ now (set_timeout st d) = now st /\
  ws (set_timeout st d) = ws st /\ trace (set_timeout st d) = trace st /\ next (set_timeout st d) = next st.
Proof. unfold set_timeout. destruct (ptimeout st); [destruct (N.ltb d n)|]; repeat split. Qed.

Lemma Inv_upd_lst nl gap st tok l : Inv nl gap st -> Inv nl gap (upd_lst st tok l).
Proof.
  intros H. unfold Inv, upd_lst. cbn. eapply InvC_change_ls; [|exact H].
  rewrite length_replace_nth. exact (Inv_lsts_len _ _ _ H).
Qed.

Definition Post (nl : nat) (st : state) (ys : ysched) (st' : state) (ys' : ysched) : Prop :=
  Inv nl None st' /\ nf_ys ys' = true /\ length (wq st') + ysize ys' <= length (wq st) + ysize ys /\
  paused st' = paused st /\ stopped st' = stopped st /\ now st' = now st /\
  length (ws st') = length (ws st) /\
  (TInv (length (ws st)) st -> TInv (length (ws st)) st').

Lemma Post_refl nl st ys : Inv nl None st -> nf_ys ys = true -> Post nl st ys st ys.
Proof. intros. unfold Post. split; [assumption|]. split; [assumption|]. split; [lia|].
  repeat match goal with |- _ /\ _ => split; [reflexivity|] end. auto. Qed.

Lemma Post_trans nl s0 y0 s1 y1 s2 y2 : Post nl s0 y0 s1 y1 -> Post nl s1 y1 s2 y2 -> Post nl s0 y0 s2 y2.
Proof.
  intros (A1 & A2 & A3 & A4 & A5 & A6 & A7 & A8) (B1 & B2 & B3 & B4 & B5 & B6 & B7 & B8). unfold Post.
  split; [exact B1|]. split; [exact B2|]. split; [lia|].
  split; [congruence|]. split; [congruence|]. split; [congruence|]. split; [congruence|].
  intros HT. rewrite A7 in B8. auto.
Qed.

(* steps that touch neither the workers, nor `next`, nor the log *)
Lemma Post_frame nl st ys st' :
  Inv nl None st' -> nf_ys ys = true -> wq st' = wq st -> paused st' = paused st -> stopped st' = stopped st ->
  now st' = now st -> ws st' = ws st -> trace st' = trace st -> next st' = next st -> Post nl st ys st' ys.
Proof.
  intros HI Hys Hq Hp Hs Hn Hw Ht Hx. unfold Post. split; [exact HI|]. split; [exact Hys|]. rewrite Hq, Hw.
  split; [lia|]. repeat match goal with |- _ /\ _ => split; [solve [auto]|] end.
  unfold TInv. now rewrite Ht, Hx.
Qed.

Lemma accept_loop_inv nl : forall fuel st tok ys,
  Inv nl None st -> nf_ys ys = true -> tok < nl -> lmeas (lsts st) tok + ysize ys < fuel ->
  exists st' ys', accept_loop L fuel st tok ys = (st', ys') /\ Post nl st ys st' ys'.
Proof.
  induction fuel as [|f IH]; intros st tok ys HI Hys Htok Hfuel; [lia|].
  pose proof HI as (He & HW & Hh & Hnx & Hwf & Hbits & Hnw & Hnl & Hw).
  cbn [accept_loop]. rewrite He.
  destruct (available (av st)) eqn:Hav; [|exists st, ys; split; [reflexivity|now apply Post_refl]].
  assert (Hlt : tok < length (lsts st)) by (rewrite Hnl; exact Htok).
  destruct (nth_error_lt_Some _ _ Hlt) as [l Hl]. rewrite Hl.
  assert (Hm : lmeas (lsts st) tok = length (l_backlog l) + length (l_inject l)) by (unfold lmeas; now rewrite Hl).
  destruct (l_inject l) as [|k rest] eqn:Hinj.
  - destruct (l_backlog l) as [|c rest] eqn:Hback.
    + exists st, ys. split; [reflexivity|now apply Post_refl].
    + set (l1 := {| l_uds := l_uds l; l_reg := l_reg l; l_edge := l_edge l; l_to := l_to l; l_backlog := rest;
                    l_inject := []; l_linked := l_linked l |}).
      set (st1 := upd_lst st tok l1).
      assert (HI1 : Inv nl None st1) by (apply Inv_upd_lst; exact HI).
      (* some worker is flagged *)
      destruct (proj1 (available_getb (av st) Hwf) Hav) as (i & Hi & Hbi).
      pose proof (Hbits i Hi Hbi) as Hik.
      assert (Hbk : getb (av st1) (N.of_nat (N.to_nat i)) = true) by (rewrite N2Nat.id; exact Hbi).
      destruct (accept_one_inv nl _ (accept_one_fuel st1) st1 {| c_id := c; c_tok := tok |} ys (N.to_nat i)
                  HI1 Hys Hik Hbk eq_refl) as (st2 & Hs & HI2 & Hwq & Hls & Hp & Hst & Hnow & _ & Hlw & HTI).
      { unfold accept_one_fuel, st1. cbn [handles upd_lst set_lsts ws next]. rewrite Hh, seq_length. unfold cdist.
        destruct (Nat.leb (next st) (N.to_nat i)); nia. }
      rewrite Hs.
      destruct (nf_ys_hd _ Hys) as [_ Htl].
      assert (Hm2 : lmeas (lsts st2) tok + ysize (tl ys) < f).
      { rewrite Hls. pose proof (env_steps_lmeas (hd [] ys) st1 tok) as Hle.
        unfold st1 in Hle at 2. cbn [lsts upd_lst set_lsts] in Hle. rewrite lmeas_replace in Hle by exact Hlt.
        cbn [l1 l_backlog l_inject length] in Hle. rewrite (ysize_hd_tl ys) in Hfuel. cbn [length] in Hm. lia. }
      destruct (IH st2 tok (tl ys) HI2 Htl Htok Hm2) as (st' & ys' & Hs' & HP').
      rewrite Hs'. exists st', ys'. split; [reflexivity|].
      eapply Post_trans; [|exact HP']. unfold Post. split; [exact HI2|]. split; [exact Htl|].
      split; [rewrite (ysize_hd_tl ys); unfold st1 in Hwq; cbn in Hwq; lia|].
      repeat match goal with |- _ /\ _ => split; [solve [auto]|] end. exact HTI.
  - set (l1 := {| l_uds := l_uds l; l_reg := l_reg l; l_edge := l_edge l; l_to := l_to l; l_backlog := l_backlog l;
                  l_inject := rest; l_linked := l_linked l |}).
    destruct k.
    + exists (upd_lst st tok l1), ys. split; [reflexivity|].
      apply Post_frame; auto. now apply Inv_upd_lst.
    + assert (HI1 : Inv nl None (upd_lst st tok l1)) by (apply Inv_upd_lst; exact HI).
      assert (Hm1 : lmeas (lsts (upd_lst st tok l1)) tok + ysize ys < f).
      { cbn [lsts upd_lst set_lsts]. rewrite lmeas_replace by exact Hlt. cbn [l1 l_backlog l_inject]. cbn [length] in Hm. lia. }
      destruct (IH _ tok ys HI1 Hys Htok Hm1) as (st' & ys' & Hs' & HP').
      rewrite Hs'. exists st', ys'. split; [reflexivity|].
      eapply Post_trans; [|exact HP']. apply Post_frame; auto.
    + eexists _, ys. split; [reflexivity|].
      pose proof (set_timeout_frame (upd_lst st tok (set_l_to (deregister l1) (Some (now st + 500)%N))) 510%N)
        as (F1 & F2 & F3 & F4 & F5 & F6 & F7 & F8).
      apply Post_frame; auto. apply Inv_set_timeout, Inv_upd_lst; exact HI.
Qed.

Lemma accept_inv nl st tok ys :
  Inv nl None st -> nf_ys ys = true -> tok < nl ->
  exists st' ys', accept L st tok ys = (st', ys') /\ Post nl st ys st' ys'.
Proof.
  intros HI Hys Htok. unfold accept.
  destruct (paused st); [exists st, ys; split; [reflexivity|now apply Post_refl]|].
  apply accept_loop_inv; auto.
  unfold accept_fuel, lmeas. pose proof (Inv_lsts_len _ _ _ HI) as Hnl.
  destruct (nth_error_lt_Some (lsts st) tok ltac:(lia)) as [l Hl]. rewrite Hl. lia.
Qed.

Lemma accept_toks_inv nl toks : forall st ys,
  Inv nl None st -> nf_ys ys = true -> Forall (fun t => t < nl) toks ->
  exists st' ys', accept_toks L st toks ys = (st', ys') /\ Post nl st ys st' ys'.
Proof.
  induction toks as [|t r IH]; intros st ys HI Hys HF; cbn [accept_toks].
  - exists st, ys. split; [reflexivity|now apply Post_refl].
  - inversion HF as [|? ? Ht HF']; subst.
    destruct (accept_inv nl st t ys HI Hys Ht) as (st1 & ys1 & Hs1 & HP1). rewrite Hs1.
    destruct HP1 as (HI1 & Hys1 & HP1).
    destruct (IH st1 ys1 HI1 Hys1 HF') as (st2 & ys2 & Hs2 & HP2). rewrite Hs2.
    exists st2, ys2. split; [reflexivity|]. eapply Post_trans; [|exact HP2]. split; [exact HI1|]. split; assumption.
Qed.

Lemma accept_all_inv nl st ys :
  Inv nl None st -> nf_ys ys = true ->
  exists st' ys', accept_all L st ys = (st', ys') /\ Post nl st ys st' ys'.
Proof.
  intros HI Hys. unfold accept_all. apply accept_toks_inv; auto.
  rewrite (Inv_lsts_len _ _ _ HI). apply Forall_forall. intros t Ht. apply in_seq in Ht. lia.
Qed.

(* frame for the dispatch log *)
Definition Fr (st st' : state) : Prop :=
  length (ws st') = length (ws st) /\ (TInv (length (ws st)) st -> TInv (length (ws st)) st').

Lemma Fr_refl st : Fr st st.
Proof. split; auto. Qed.

Lemma Fr_trans s0 s1 s2 : Fr s0 s1 -> Fr s1 s2 -> Fr s0 s2.
Proof. intros [A1 A2] [B1 B2]. split; [congruence|]. intros H. rewrite A1 in B2. auto. Qed.

Lemma Fr_same st st' : ws st' = ws st -> trace st' = trace st -> next st' = next st -> Fr st st'.
Proof. intros Hw Ht Hn. split; [now rewrite Hw|]. unfold TInv. now rewrite Ht, Hn. Qed.

Lemma Fr_of_Post nl st ys st' ys' : Post nl st ys st' ys' -> Fr st st'.
Proof. intros (_ & _ & _ & _ & _ & _ & A & B). split; assumption. Qed.

(* ---------- Accept::handle_waker ---------- *)
Lemma Inv_deregister_all nl gap st : Inv nl gap st -> Inv nl gap (deregister_all st).
Proof.
  intros H. unfold Inv, deregister_all. cbn. eapply InvC_change_ls; [|exact H].
  rewrite map_length. exact (Inv_lsts_len _ _ _ H).
Qed.

(* popping one interest *)
Lemma nwakes_cons i x q : nwakes i (x :: q) = (match x with IAvail j => if N.eqb i j then 1 else 0 | _ => 0 end) + nwakes i q.
Proof. unfold nwakes. cbn [filter]. destruct x; try reflexivity. destruct (N.eqb i i0); reflexivity. Qed.

(* WorkerAvailable(idx) processed: the flag is set again *)
Lemma InvC_wake nl e wsl hs nx avl q ls idx :
  InvC nl None e wsl hs nx avl (IAvail idx :: q) ls ->
  InvC nl None e wsl hs nx
       (if existsb (fun g => match nth_error wsl g with Some w => N.eqb (w_idx w) idx | None => false end) hs
        then setb avl idx true else avl) q ls.
Proof.
  intros (He & HW & Hh & Hnx & Hwf & Hbits & Hnw & Hnl & Hw).
  assert (Hnw' : forall g, ~ In (IWorker g) q) by (intros g Hin; apply (Hnw g); now right).
  destruct (existsb _ hs) eqn:Hex.
  - apply existsb_exists in Hex as (g & Hin & Hg). rewrite Hh in Hin. apply in_seq in Hin.
    destruct (nth_error wsl g) as [w|] eqn:Eg; [|discriminate]. apply N.eqb_eq in Hg.
    destruct (Hw _ _ Eg) as (Hidx & Hopen & HP). rewrite Hidx in Hg. subst idx.
    assert (H512 : (N.of_nat g < 512)%N) by lia.
    unfold InvC. split; [exact He|]. split; [exact HW|]. split; [exact Hh|]. split; [exact Hnx|].
    split; [now apply wf_setb|]. split.
    { intros i Hi Hb. rewrite getb_setb in Hb by assumption.
      destruct (N.eqb_spec (N.of_nat g) i) as [<-|_]; [rewrite Nat2N.id; lia|now apply Hbits]. }
    split; [exact Hnw'|]. split; [exact Hnl|].
    intros g0 w0 H0. destruct (Hw _ _ H0) as (Hi0 & Ho0 & HP0). pose proof (nth_error_Some_lt _ _ _ H0).
    unfold WInv. split; [exact Hi0|]. split; [exact Ho0|].
    rewrite getb_setb by lia. rewrite nwakes_cons in HP0. cbn [isgap] in *.
    destruct (Nat.eq_dec g g0) as [<-|Hne].
    + rewrite N.eqb_refl in *. destruct HP0 as (Hc & Ht & Hf).
      destruct (getb avl (N.of_nat g)) eqn:Hb.
      * destruct (Ht eq_refl). lia.
      * destruct (Hf eq_refl) as (_ & [[? ?]|[? ?]]); [lia|].
        unfold PInv. split; [exact Hc|]. split; [intros _; lia|discriminate].
    + destruct (N.eqb_spec (N.of_nat g) (N.of_nat g0)) as [E|_]; [apply Nat2N.inj in E; congruence|].
      destruct (N.eqb_spec (N.of_nat g0) (N.of_nat g)) as [E|_]; [apply Nat2N.inj in E; congruence|].
      exact HP0.
  - (* index owned by nobody: notice ignored; it cannot be one of ours *)
    unfold InvC. repeat (split; [assumption|]).
    intros g0 w0 H0. destruct (Hw _ _ H0) as (Hi0 & Ho0 & HP0). pose proof (nth_error_Some_lt _ _ _ H0).
    unfold WInv. split; [exact Hi0|]. split; [exact Ho0|]. rewrite nwakes_cons in HP0.
    destruct (N.eqb_spec (N.of_nat g0) idx) as [E|_]; [|exact HP0].
    exfalso. assert (Hin : In g0 hs) by (rewrite Hh; apply in_seq; lia).
    assert (existsb (fun g => match nth_error wsl g with Some w => N.eqb (w_idx w) idx | None => false end) hs = true).
    { apply existsb_exists. exists g0. split; [exact Hin|]. rewrite H0. apply N.eqb_eq. congruence. }
    congruence.
Qed.

Lemma InvC_pop_other nl e wsl hs nx avl q ls x :
  (forall j, x <> IAvail j) ->
  InvC nl None e wsl hs nx avl (x :: q) ls -> InvC nl None e wsl hs nx avl q ls.
Proof.
  intros Hx HI. eapply InvC_change_q; [| |exact HI].
  - intros i. rewrite nwakes_cons. destruct x; try reflexivity. exfalso. eapply Hx. reflexivity.
  - destruct HI as (_ & _ & _ & _ & _ & _ & Hnw & _). intros g Hin. apply (Hnw g). now right.
Qed.

Lemma handle_waker_inv nl : forall fuel st ys,
  Inv nl None st -> nf_ys ys = true -> length (wq st) + ysize ys < fuel ->
  exists st' ys', handle_waker L fuel st ys = (st', ys') /\ Inv nl None st' /\ nf_ys ys' = true /\ Fr st st'.
Proof.
  induction fuel as [|f IH]; intros st ys HI Hys Hfuel; [lia|].
  pose proof HI as (He & HW & Hh & Hnx & Hwf & Hbits & Hnw & Hnl & Hw).
  cbn [handle_waker]. rewrite He.
  destruct (wq st) as [|i rest] eqn:Hq;
    [exists st, ys; split; [reflexivity|]; split; [exact HI|]; split; [exact Hys|apply Fr_refl]|].
  set (st0 := set_wq st rest (wpend st)).
  assert (Hq0 : wq st0 = rest) by reflexivity.
  assert (Fr0 : Fr st st0) by (apply Fr_same; reflexivity).
  destruct i as [idx|g| | |].
  - (* WorkerAvailable *)
    set (st1 := if existsb _ (handles st0) then av_set st0 idx true else st0).
    assert (HI1 : Inv nl None st1 /\ wq st1 = rest /\ paused st1 = paused st /\ Fr st st1).
    { pose proof (InvC_wake nl _ _ _ _ _ rest _ idx ltac:(unfold Inv in HI; rewrite Hq in HI; exact HI)) as H1.
      unfold st1. change (handles st0) with (handles st). change (ws st0) with (ws st).
      destruct (existsb _ (handles st)) eqn:Hex.
      - assert (H512 : (idx < 512)%N).
        { apply existsb_exists in Hex as (g & Hin & Hg). rewrite Hh in Hin. apply in_seq in Hin.
          destruct (nth_error (ws st) g) as [w|] eqn:Eg; [|discriminate]. apply N.eqb_eq in Hg.
          destruct (Hw _ _ Eg) as (Hidx & _). lia. }
        rewrite av_set_ok by exact H512. split; [exact H1|]. split; [reflexivity|]. split; [reflexivity|].
        apply Fr_same; reflexivity.
      - split; [exact H1|]. split; [reflexivity|]. split; [reflexivity|exact Fr0]. }
    destruct HI1 as (HI1 & Hq1 & Hp1 & Fr1).
    destruct (paused st1) eqn:Hpa.
    + destruct (IH st1 ys HI1 Hys) as (st' & ys' & Hs & HI' & Hys' & Fr'); [rewrite Hq1; cbn in Hfuel; lia|].
      rewrite Hs. exists st', ys'. repeat (split; [solve [auto]|]). eapply Fr_trans; eassumption.
    + destruct (accept_all_inv nl st1 ys HI1 Hys) as (st2 & ys2 & Hs2 & HP2). rewrite Hs2.
      pose proof (Fr_of_Post _ _ _ _ _ HP2) as Fr2. destruct HP2 as (HI2 & Hys2 & Hm2 & _).
      destruct (IH st2 ys2 HI2 Hys2) as (st' & ys' & Hs & HI' & Hys' & Fr'); [rewrite Hq1 in Hm2; cbn in Hfuel; lia|].
      rewrite Hs. exists st', ys'. repeat (split; [solve [auto]|]).
      eapply Fr_trans; [exact Fr1|]. eapply Fr_trans; eassumption.
  - exfalso. apply (Hnw g). now left.
  - (* Pause *)
    assert (HI0 : Inv nl None st0).
    { unfold Inv, st0. cbn. eapply InvC_pop_other; [|unfold Inv in HI; rewrite Hq in HI; exact HI]. discriminate. }
    set (st1 := if paused st0 then st0 else emit (deregister_all (set_paused st0 true)) EvPauseOn).
    assert (HI1 : Inv nl None st1 /\ wq st1 = rest /\ Fr st st1).
    { unfold st1. destruct (paused st0); [auto|]. split; [|split; [reflexivity|]].
      - apply (Inv_deregister_all nl None (set_paused st0 true)). exact HI0.
      - split; [reflexivity|]. intros HT. unfold TInv. cbn [trace next emit]. apply TrI_emit_other; [exact I|exact HT]. }
    destruct HI1 as (HI1 & Hq1 & Fr1).
    destruct (IH st1 ys HI1 Hys) as (st' & ys' & Hs & HI' & Hys' & Fr'); [rewrite Hq1; cbn in Hfuel; lia|].
    rewrite Hs. exists st', ys'. repeat (split; [solve [auto]|]). eapply Fr_trans; eassumption.
  - (* Resume *)
    assert (HI0 : Inv nl None st0).
    { unfold Inv, st0. cbn. eapply InvC_pop_other; [|unfold Inv in HI; rewrite Hq in HI; exact HI]. discriminate. }
    destruct (paused st0) eqn:Hpa.
    + set (st1 := emit (set_lsts (set_paused st0 false) (map register (lsts st0))) EvPauseOff).
      assert (HI1 : Inv nl None st1).
      { unfold Inv, st1. cbn. eapply InvC_change_ls; [|exact HI0]. rewrite map_length. exact Hnl. }
      assert (Fr1 : Fr st st1).
      { split; [reflexivity|]. intros HT. unfold TInv, st1. cbn [trace next emit]. apply TrI_emit_other; [exact I|exact HT]. }
      destruct (accept_all_inv nl st1 ys HI1 Hys) as (st2 & ys2 & Hs2 & HP2). rewrite Hs2.
      pose proof (Fr_of_Post _ _ _ _ _ HP2) as Fr2. destruct HP2 as (HI2 & Hys2 & Hm2 & _).
      destruct (IH st2 ys2 HI2 Hys2) as (st' & ys' & Hs & HI' & Hys' & Fr'); [unfold st1 in Hm2; cbn in Hm2, Hfuel; lia|].
      rewrite Hs. exists st', ys'. repeat (split; [solve [auto]|]).
      eapply Fr_trans; [exact Fr1|]. eapply Fr_trans; eassumption.
    + destruct (IH st0 ys HI0 Hys) as (st' & ys' & Hs & HI' & Hys' & Fr'); [rewrite Hq0; cbn in Hfuel; lia|].
      rewrite Hs. exists st', ys'. repeat (split; [solve [auto]|]). exact (Fr_trans _ _ _ Fr0 Fr').
  - (* Stop *)
    assert (HI0 : Inv nl None st0).
    { unfold Inv, st0. cbn. eapply InvC_pop_other; [|unfold Inv in HI; rewrite Hq in HI; exact HI]. discriminate. }
    eexists _, ys. split; [reflexivity|]. split; [|split; [exact Hys|]].
    + destruct (paused st0); [exact HI0|]. apply Inv_deregister_all in HI0. exact HI0.
    + split; [destruct (paused st0); reflexivity|]. intros HT. unfold TInv. cbn [trace next emit].
      apply TrI_emit_other; [exact I|]. destruct (paused st0); exact HT.
Qed.

(* ---------- Accept::process_timeout ---------- *)
Lemma process_timeout_lsts_len p nw ls : forall acc,
  length (fst (fold_left (process_one_timeout p nw) ls acc)) = length (fst acc) + length ls.
Proof.
  induction ls as [|l ls IH]; intros [done pt]; cbn [fold_left length]; [cbn; lia|].
  rewrite IH. unfold process_one_timeout.
  destruct (l_to l) as [inst|]; [destruct (N.ltb nw inst); [|destruct p]|]; cbn [fst]; rewrite app_length; cbn; lia.
Qed.

Lemma process_timeout_inv nl gap st : Inv nl gap st -> Inv nl gap (process_timeout st).
Proof.
  intros H. unfold process_timeout. destruct (ptimeout st); [|exact H].
  destruct (fold_left _ _ _) as [ls pt] eqn:E.
  unfold Inv. cbn. eapply InvC_change_ls; [|exact H].
  pose proof (process_timeout_lsts_len (paused st) (now st) (lsts st) ([], None)) as Hl.
  rewrite E in Hl. cbn in Hl. rewrite Hl. exact (Inv_lsts_len _ _ _ H).
Qed.

(* ---------- every operation, every run ---------- *)
Lemma ready_toks_bound ls : forall k t, In t (ready_toks k ls) -> k <= t < k + length ls.
Proof.
  induction ls as [|l ls IH]; intros k t Hin; cbn [ready_toks] in Hin; [destruct Hin|].
  apply in_app_or in Hin as [Hin|Hin].
  - destruct (l_reg l && l_edge l && _); [|destruct Hin]. destruct Hin as [<-|[]]. cbn. lia.
  - apply IH in Hin. cbn. lia.
Qed.

Lemma process_timeout_fr st : Fr st (process_timeout st).
Proof.
  unfold process_timeout. destruct (ptimeout st); [|apply Fr_refl].
  destruct (fold_left _ _ _) as [ls pt]. apply Fr_same; reflexivity.
Qed.

Lemma env_step_fr st o : nf_eop o = true -> Fr st (env_step L st o).
Proof.
  intros Hnf. destruct (env_step_frame st o Hnf) as (_ & F2 & _ & _ & F5 & _).
  split; [exact F5|]. intros HT. unfold TInv. rewrite F2. apply env_step_tinv. exact HT.
Qed.

Lemma step_inv nl st o :
  nf_op o = true -> tok_ok nl o = true -> Inv nl None st -> Inv nl None (step L st o) /\ Fr st (step L st o).
Proof.
  intros Hnf Htok HI. destruct o as [e|tok ys|ys| |ys|ms]; cbn [step nf_op tok_ok] in *.
  - split; [now apply env_step_inv|now apply env_step_fr].
  - destruct (live st); [|split; [exact HI|apply Fr_refl]]. apply Nat.ltb_lt in Htok.
    destruct (accept_inv nl st tok ys HI Hnf Htok) as (st' & ys' & Hs & HP). rewrite Hs. cbn [fst].
    split; [exact (proj1 HP)|exact (Fr_of_Post _ _ _ _ _ HP)].
  - destruct (live st); [|split; [exact HI|apply Fr_refl]].
    destruct (handle_waker_inv nl (handle_waker_fuel st ys) st ys HI Hnf) as (st' & ys' & Hs & HI' & _ & Fr').
    { unfold handle_waker_fuel. lia. }
    rewrite Hs. cbn [fst]. split; assumption.
  - destruct (live st); [|split; [exact HI|apply Fr_refl]].
    split; [now apply process_timeout_inv|apply process_timeout_fr].
  - destruct (live st); [|split; [exact HI|apply Fr_refl]].
    set (st0 := emit _ _).
    assert (HI0 : Inv nl None st0).
    { unfold Inv, st0. cbn. eapply InvC_change_ls; [|exact HI]. unfold clear_edges. rewrite map_length.
      exact (Inv_lsts_len _ _ _ HI). }
    assert (Fr0 : Fr st st0).
    { split; [reflexivity|]. intros HT. unfold TInv, st0. cbn [trace next emit]. apply TrI_emit_other; [exact I|exact HT]. }
    destruct (accept_toks_inv nl (ready_toks 0 (lsts st)) st0 ys HI0 Hnf) as (st1 & ys1 & Hs1 & HP1).
    { apply Forall_forall. intros t Ht. apply ready_toks_bound in Ht. rewrite (Inv_lsts_len _ _ _ HI) in Ht. lia. }
    rewrite Hs1. pose proof (Fr_of_Post _ _ _ _ _ HP1) as Fr1. destruct HP1 as (HI1 & Hys1 & _).
    destruct (wpend st).
    + destruct (handle_waker_inv nl (handle_waker_fuel st1 ys1) st1 ys1 HI1 Hys1) as (st2 & ys2 & Hs2 & HI2 & _ & Fr2).
      { unfold handle_waker_fuel. lia. }
      rewrite Hs2. destruct (live st2).
      * split; [now apply process_timeout_inv|].
        eapply Fr_trans; [exact Fr0|]. eapply Fr_trans; [exact Fr1|]. eapply Fr_trans; [exact Fr2|apply process_timeout_fr].
      * split; [exact HI2|]. eapply Fr_trans; [exact Fr0|]. eapply Fr_trans; [exact Fr1|exact Fr2].
    + destruct (live st1).
      * split; [now apply process_timeout_inv|].
        eapply Fr_trans; [exact Fr0|]. eapply Fr_trans; [exact Fr1|apply process_timeout_fr].
      * split; [exact HI1|]. eapply Fr_trans; [exact Fr0|exact Fr1].
  - split; [exact HI|apply Fr_same; reflexivity].
Qed.

Lemma run_inv nl os : forall st,
  forallb nf_op os = true -> forallb (tok_ok nl) os = true -> Inv nl None st ->
  Inv nl None (run L st os) /\ Fr st (run L st os).
Proof.
  induction os as [|o os IH]; intros st Hnf Htok HI; cbn [run fold_left]; [split; [exact HI|apply Fr_refl]|].
  cbn [forallb] in Hnf, Htok. apply andb_true_iff in Hnf as [Ho Hos]. apply andb_true_iff in Htok as [To Tos].
  destruct (step_inv nl st o Ho To HI) as [HI1 Fr1].
  destruct (IH _ Hos Tos HI1) as [HI2 Fr2]. split; [exact HI2|]. eapply Fr_trans; eassumption.
Qed.

(* ---------- the initial state ---------- *)
Lemma init_av_bits W : W <= 512 ->
  wf (fold_left (fun a i => setb a (N.of_nat i) true) (seq 0 W) empty) /\
  forall i, (i < 512)%N ->
    getb (fold_left (fun a i => setb a (N.of_nat i) true) (seq 0 W) empty) i = Nat.ltb (N.to_nat i) W.
Proof.
  induction W as [|W IH]; intros HW.
  - cbn. split; [apply wf_empty|]. intros i Hi. unfold getb, get. rewrite offset_spec by exact Hi.
    rewrite testbit_mask. destruct (i / 128)%N as [|[[|p|]|[|p|]|]]; cbn [word empty w0 w1 w2 w3]; apply N.bits_0.
  - destruct (IH ltac:(lia)) as [Hwf Hb]. rewrite seq_S, fold_left_app. cbn [fold_left Nat.add].
    split; [now apply wf_setb|]. intros i Hi. rewrite getb_setb by lia. rewrite Hb by exact Hi.
    destruct (N.eqb_spec (N.of_nat W) i) as [<-|Hne].
    + rewrite Nat2N.id. symmetry. apply Nat.ltb_lt. lia.
    + destruct (Nat.ltb_spec (N.to_nat i) W), (Nat.ltb_spec (N.to_nat i) (S W)); try reflexivity; lia.
Qed.

Lemma init_inv W kinds : 1 <= W <= 512 -> Inv (length kinds) None (init W kinds).
Proof.
  intros HW. destruct (init_av_bits W ltac:(lia)) as [Hwf Hb].
  unfold Inv, init, InvC. cbn. rewrite map_length, seq_length.
  split; [reflexivity|]. split; [exact HW|]. split; [reflexivity|]. split; [lia|]. split; [exact Hwf|].
  split; [intros i Hi Hbi; rewrite Hb in Hbi by exact Hi; now apply Nat.ltb_lt in Hbi|].
  split; [intros g []|]. split; [apply map_length|].
  intros g w Hg. pose proof (nth_error_Some_lt _ _ _ Hg) as Hlt. rewrite map_length, seq_length in Hlt.
  rewrite nth_error_map, nth_error_seq0 in Hg by exact Hlt. cbn in Hg. injection Hg as <-.
  unfold WInv, mk_worker. cbn. split; [reflexivity|]. split; [reflexivity|].
  rewrite Hb by lia. rewrite Nat2N.id. apply Nat.ltb_lt in Hlt. rewrite Hlt.
  unfold PInv. split; [reflexivity|]. split; [intros _; split; [reflexivity|lia]|discriminate].
Qed.

Theorem reachable_inv W kinds os :
  1 <= W <= 512 -> forallb nf_op os = true -> forallb (tok_ok (length kinds)) os = true ->
  Inv (length kinds) None (run L (init W kinds) os).
Proof. intros HW Hnf Htok. apply run_inv; auto. now apply init_inv. Qed.

Theorem reachable_tinv W kinds os :
  1 <= W <= 512 -> forallb nf_op os = true -> forallb (tok_ok (length kinds)) os = true ->
  TInv W (run L (init W kinds) os) /\ length (ws (run L (init W kinds) os)) = W.
Proof.
  intros HW Hnf Htok.
  destruct (run_inv (length kinds) os (init W kinds) Hnf Htok (init_inv W kinds HW)) as [_ [F1 F2]].
  assert (HlenW : length (ws (init W kinds)) = W) by (cbn; now rewrite map_length, seq_length).
  rewrite HlenW in *. split; [|exact F1]. apply F2. split; [reflexivity|constructor].
Qed.

End Facts.
