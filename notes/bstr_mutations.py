#!/usr/bin/env python3
"""mutation test of ./check C20: apply one edit to /repo/bytestring/src/lib.rs, run the check, replay, restore"""
import subprocess, sys, re, json, time
LIB = "/repo/bytestring/src/lib.rs"
ORIG = open(LIB).read()

MUTS = {
 "M1-split_at-skips-check-at-len-1": [(
   "        let _valid_midpoint_check = this.split_at(mid);",
   "        if mid + 1 != this.len() {\n            let _valid_midpoint_check = this.split_at(mid);\n        }")],
 "M2-tryfrom-bytesmut-no-validation": [(
   "        let _ = str::from_utf8(&value)?;\n        Ok(ByteString(value.freeze()))",
   "        Ok(ByteString(value.freeze()))")],
 "M3-tryfrom-vec-lossy": [(
   "        let buf = String::from_utf8(value).map_err(|err| err.utf8_error())?;",
   "        let buf = String::from_utf8_lossy(&value).into_owned();")],
 "M4-slice_ref-off-by-one-end": [(
   "        Self(self.0.slice_ref(subset.as_bytes()))",
   """        let sub = subset.as_bytes();
        if sub.is_empty() {
            return Self(Bytes::new());
        }
        let (bytes_p, sub_p) = (self.0.as_ptr() as usize, sub.as_ptr() as usize);
        assert!(sub_p >= bytes_p, "subset pointer is smaller than self pointer");
        let off = sub_p - bytes_p;
        assert!(off + sub.len() <= self.0.len() + 1, "subset is out of bounds");
        Self(self.0.slice(off..core::cmp::min(off + sub.len(), self.0.len())))""")],
 "M5-ord-length-first": [(
   "#[derive(Clone, Default, Eq, PartialOrd, Ord)]",
   "#[derive(Clone, Default, Eq)]"),
   ("impl PartialEq<str> for ByteString {",
   """impl PartialOrd for ByteString {
    fn partial_cmp(&self, other: &Self) -> Option<core::cmp::Ordering> {
        Some(self.cmp(other))
    }
}

impl Ord for ByteString {
    fn cmp(&self, other: &Self) -> core::cmp::Ordering {
        self.0.len().cmp(&other.0.len()).then_with(|| self.0.cmp(&other.0))
    }
}

impl PartialEq<str> for ByteString {""")],
 "M6-hash-as-bytes": [(
   "        (**self).hash(state);",
   "        self.0.hash(state);")],
 "M7-split_at-wrong-continuation-mask": [(
   "        let _valid_midpoint_check = this.split_at(mid);",
   """        let b = this.as_bytes();
        assert!(
            mid == 0 || mid == b.len() || (mid < b.len() && (b[mid] & 0xE0) != 0x80),
            "byte index {mid} is not a char boundary or out of bounds"
        );""")],
 "M8-display-ignores-formatter-flags": [(
   "impl fmt::Display for ByteString {\n    fn fmt(&self, fmt: &mut fmt::Formatter<'_>) -> fmt::Result {\n        (**self).fmt(fmt)",
   "impl fmt::Display for ByteString {\n    fn fmt(&self, fmt: &mut fmt::Formatter<'_>) -> fmt::Result {\n        fmt.write_str(self)")],
 "M9-tryfrom-array-by-value-unchecked": [(
   "                fn try_from(value: [u8; $len]) -> Result<Self, Self::Error> {\n                    ByteString::try_from(&value[..])",
   "                fn try_from(value: [u8; $len]) -> Result<Self, Self::Error> {\n                    Ok(unsafe { ByteString::from_bytes_unchecked(Bytes::copy_from_slice(&value)) })")],
 "M10-tryfrom-bytes-validates-prefix-only": [(
   "        let _ = str::from_utf8(value.as_ref())?;\n        Ok(ByteString(value))",
   "        let _ = str::from_utf8(&value[..value.len().min(4)])?;\n        Ok(ByteString(value))")],
 "M11-eq-str-prefix": [(
   "impl PartialEq<str> for ByteString {\n    fn eq(&self, other: &str) -> bool {\n        &self[..] == other",
   "impl PartialEq<str> for ByteString {\n    fn eq(&self, other: &str) -> bool {\n        self.starts_with(other)")],
 "M12-slice_ref-empty-self-offset": [(
   "        Self(self.0.slice_ref(subset.as_bytes()))",
   """        let sub = subset.as_bytes();
        let (bytes_p, sub_p) = (self.0.as_ptr() as usize, sub.as_ptr() as usize);
        if sub_p >= bytes_p && sub_p <= bytes_p + self.0.len() && sub_p + sub.len() > bytes_p + self.0.len() {
            // "helpfully" clamp a subset that starts inside
            let off = sub_p - bytes_p;
            return Self(self.0.slice(off..));
        }
        Self(self.0.slice_ref(sub))""")],
 "M13-slice_ref-empty-subset-returns-self": [(
   "        Self(self.0.slice_ref(subset.as_bytes()))",
   "        if subset.is_empty() {\n            return self.clone();\n        }\n        Self(self.0.slice_ref(subset.as_bytes()))")],
 # ---- harmless refactorings: must PASS ----
 "H1-eq-via-bytes": [(
   "impl PartialEq<str> for ByteString {\n    fn eq(&self, other: &str) -> bool {\n        &self[..] == other",
   "impl PartialEq<str> for ByteString {\n    fn eq(&self, other: &str) -> bool {\n        self.0.as_ref() == other.as_bytes()")],
 "H2-split_at-own-assert": [(
   "        let _valid_midpoint_check = this.split_at(mid);",
   "        assert!(this.is_char_boundary(mid), \"byte index {mid} is not a char boundary (or out of bounds)\");")],
 "H3-tryfrom-slice-via-string": [(
   "        let _ = str::from_utf8(value)?;\n        Ok(ByteString(Bytes::copy_from_slice(value)))",
   "        let buf = String::from_utf8(value.to_vec()).map_err(|err| err.utf8_error())?;\n        Ok(ByteString(Bytes::from(buf)))")],
}

def sh(cmd, timeout=900):
    p = subprocess.run(cmd, shell=True, stdout=subprocess.PIPE, stderr=subprocess.STDOUT, text=True, timeout=timeout)
    return p.returncode, p.stdout

def restore():
    sh("git -C /repo checkout -- bytestring/src/lib.rs")
    assert open(LIB).read() == ORIG

names = sys.argv[1:] or list(MUTS)
results = {}
for name in names:
    src = ORIG
    for a, b in MUTS[name]:
        assert src.count(a) == 1, (name, a, src.count(a))
        src = src.replace(a, b)
    try:
        open(LIB, "w").write(src)
        t = time.time()
        rc, out = sh("cd /verif && ./check C20")
        viol = [l for l in out.split("\n") if l.startswith("VIOLATION")]
        last = [l for l in out.split("\n") if l.startswith("[C20]")]
        reps = []
        for v in viol[:3]:
            m = re.search(r"replay=(\S+)", v)
            info = json.load(open(m.group(1)))
            rrc, rout = sh("cd /verif && ./check C20 --replay %s" % m.group(1))
            reps.append({"file": m.group(1).split("/")[-1], "nfi": "no-failing-input-found" in v, "stream": info.get("stream"), "case": info.get("case"),
                         "key": info.get("finding_key"), "impl": (info.get("impl_trace") or "")[:150], "model": (info.get("model_trace") or "")[:150],
                         "replay_rc_mutant": rrc, "what": info.get("what", "")[:160] if "case" not in info else ""})
    finally:
        restore()
    for r in reps:
        rrc, _ = sh("cd /verif && ./check C20 --replay /verif/evidence/replay/%s" % r["file"])
        r["replay_rc_restored"] = rrc
    results[name] = {"rc": rc, "n_viol": len(viol), "summary": last[-1] if last else out[-400:], "replays": reps, "wall": round(time.time() - t, 1)}
    print(name, json.dumps(results[name], indent=1), flush=True)
json.dump(results, open("/tmp/mut_c20_results.json", "w"), indent=1)
