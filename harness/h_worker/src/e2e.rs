//! End-to-end scenarios of the whole `Server` through the public API (real threads, real time).
//! One scenario name per line -> "ok ..." or "FAIL <what>".  All bounds are generous (a bound that
//! must NOT be reached is a pure safety check, independent of load; a bound that must be reached is
//! 30 s for something that takes milliseconds to ~1 s).
use std::{
    io::{BufRead, BufReader, Read},
    net::TcpListener,
    process::{Command, Stdio},
    time::{Duration, Instant},
};

use actix_rt::net::TcpStream;
use actix_server::{Server, ServerHandle};
use actix_service::fn_service;
use tokio::io::{AsyncReadExt, AsyncWriteExt};

const BOUND: Duration = Duration::from_secs(30);

fn build(workers: usize, shutdown_timeout: u64, signals: bool) -> (Server, std::net::SocketAddr) {
    let lst = TcpListener::bind("127.0.0.1:0").unwrap();
    let addr = lst.local_addr().unwrap();
    let mut b = Server::build().workers(workers).shutdown_timeout(shutdown_timeout);
    if !signals {
        b = b.disable_signals();
    }
    let srv = b
        .listen("held", lst, || {
            fn_service(|mut stream: TcpStream| async move {
                // tell the client the connection is in progress, then hold it until the peer closes
                let _ = stream.write_all(b"h").await;
                let mut buf = [0u8; 16];
                loop {
                    match stream.read(&mut buf).await {
                        Ok(0) | Err(_) => break,
                        Ok(_) => {}
                    }
                }
                Ok::<_, ()>(())
            })
        })
        .unwrap()
        .run();
    (srv, addr)
}

/// connect and wait until the service has the connection
async fn held_conn(addr: std::net::SocketAddr) -> Result<TcpStream, String> {
    let mut c = tokio::time::timeout(BOUND, TcpStream::connect(addr))
        .await
        .map_err(|_| "connect timed out".to_string())?
        .map_err(|e| format!("connect: {e}"))?;
    let mut b = [0u8; 1];
    tokio::time::timeout(BOUND, c.read_exact(&mut b))
        .await
        .map_err(|_| "service did not take the connection".to_string())?
        .map_err(|e| format!("read: {e}"))?;
    Ok(c)
}

/// the peer observes the connection closed (EOF or reset) within the bound
async fn sees_close(c: &mut TcpStream) -> bool {
    let mut b = [0u8; 8];
    matches!(
        tokio::time::timeout(BOUND, c.read(&mut b)).await,
        Ok(Ok(0)) | Ok(Err(_))
    )
}

async fn within<F: std::future::Future>(f: F) -> Result<F::Output, String> {
    tokio::time::timeout(BOUND, f).await.map_err(|_| "not resolved within 30 s".to_string())
}

/// poll a future exactly once
async fn futures_util_poll_once<F: std::future::Future + Unpin>(mut f: F) -> Option<F::Output> {
    std::future::poll_fn(move |cx| match std::pin::Pin::new(&mut f).poll(cx) {
        std::task::Poll::Ready(v) => std::task::Poll::Ready(Some(v)),
        std::task::Poll::Pending => std::task::Poll::Ready(None),
    })
    .await
}

fn is_done<T>(h: &mut tokio::task::JoinHandle<T>) -> bool {
    h.is_finished()
}

async fn scenario(name: &str) -> Result<String, String> {
    match name {
        // forced stop with a connection held open: completes without waiting for it
        "forced_held" => {
            let (srv, addr) = build(1, 30, false);
            let h: ServerHandle = srv.handle();
            let mut st = actix_rt::spawn(srv);
            let mut c = held_conn(addr).await?;
            let t0 = Instant::now();
            within(h.stop(false)).await.map_err(|e| format!("stop(false): {e}"))?;
            let ms = t0.elapsed().as_millis();
            within(&mut st).await.map_err(|e| format!("Server future: {e}"))?.ok();
            if !sees_close(&mut c).await {
                return Err("held connection not closed by the teardown".into());
            }
            Ok(format!("stop_ms={ms}"))
        }
        // graceful stop waits for the connection in progress, completes once it finished
        "graceful_held" | "two_workers_graceful" => {
            let two = name == "two_workers_graceful";
            let (srv, addr) = build(if two { 2 } else { 1 }, 30, false);
            let h = srv.handle();
            let mut st = actix_rt::spawn(srv);
            let c1 = held_conn(addr).await?;
            let c2 = if two { Some(held_conn(addr).await?) } else { None };
            let mut sf = actix_rt::spawn(h.stop(true));
            tokio::time::sleep(Duration::from_millis(1500)).await;
            if is_done(&mut sf) || is_done(&mut st) {
                return Err("graceful stop completed while a connection was in progress".into());
            }
            drop(c1);
            if let Some(c2) = c2 {
                tokio::time::sleep(Duration::from_millis(1500)).await;
                if is_done(&mut sf) || is_done(&mut st) {
                    return Err("graceful stop completed while the second worker's connection was in progress".into());
                }
                drop(c2);
            }
            let t0 = Instant::now();
            within(&mut sf).await.map_err(|e| format!("stop(true) after release: {e}"))?.ok();
            within(&mut st).await.map_err(|e| format!("Server future: {e}"))?.ok();
            Ok(format!("after_release_ms={}", t0.elapsed().as_millis()))
        }
        // the future returned by stop(true) is dropped without ever being polled (or after one poll): the stop still waits
        "graceful_dropped_unpolled" | "graceful_dropped_polled" => {
            let (srv, addr) = build(1, 30, false);
            let h = srv.handle();
            let mut st = actix_rt::spawn(srv);
            let c1 = held_conn(addr).await?;
            if name == "graceful_dropped_unpolled" {
                drop(h.stop(true));
            } else {
                let mut f = Box::pin(h.stop(true));
                let _ = futures_util_poll_once(f.as_mut()).await;
                drop(f);
            }
            tokio::time::sleep(Duration::from_millis(1500)).await;
            if is_done(&mut st) {
                return Err("the Server future resolved while a connection was in progress (graceful stop whose future was dropped)".into());
            }
            drop(c1);
            let t0 = Instant::now();
            within(&mut st).await.map_err(|e| format!("Server future: {e}"))?.ok();
            Ok(format!("after_release_ms={}", t0.elapsed().as_millis()))
        }
        // the Server future itself is dropped (its task aborted) in the middle of a graceful stop: the workers go on with their
        // graceful shutdown, the connection in progress is not killed
        "server_dropped_mid_graceful" => {
            let (srv, addr) = build(1, 30, false);
            let h = srv.handle();
            let st = actix_rt::spawn(srv);
            let mut c1 = held_conn(addr).await?;
            drop(h.stop(true));
            tokio::time::sleep(Duration::from_millis(500)).await;
            st.abort();
            let mut b = [0u8; 8];
            match tokio::time::timeout(Duration::from_millis(1500), c1.read(&mut b)).await {
                Ok(Ok(0)) | Ok(Err(_)) => {
                    return Err("the connection in progress was closed when the Server future was dropped during a graceful stop".into())
                }
                _ => {}
            }
            drop(c1);
            Ok(String::new())
        }
        // shutdown_timeout reached with the connection still held
        "graceful_timeout" => {
            let (srv, addr) = build(1, 1, false);
            let h = srv.handle();
            let mut st = actix_rt::spawn(srv);
            let mut c = held_conn(addr).await?;
            let t0 = Instant::now();
            within(h.stop(true)).await.map_err(|e| format!("stop(true): {e}"))?;
            let ms = t0.elapsed().as_millis();
            if ms < 900 {
                return Err(format!("graceful stop completed after {ms} ms, before shutdown_timeout (1 s), connection still in progress"));
            }
            within(&mut st).await.map_err(|e| format!("Server future: {e}"))?.ok();
            if !sees_close(&mut c).await {
                return Err("held connection not closed after the timeout".into());
            }
            Ok(format!("stop_ms={ms}"))
        }
        "stop_twice_forced" => {
            let (srv, addr) = build(1, 30, false);
            let h = srv.handle();
            let mut st = actix_rt::spawn(srv);
            let _c = held_conn(addr).await?;
            let f1 = h.stop(false);
            let f2 = h.stop(false);
            within(f1).await.map_err(|e| format!("first stop: {e}"))?;
            within(f2).await.map_err(|e| format!("second stop: {e}"))?;
            within(&mut st).await.map_err(|e| format!("Server future: {e}"))?.ok();
            Ok(String::new())
        }
        "stop_twice_graceful" => {
            let (srv, addr) = build(1, 30, false);
            let h = srv.handle();
            let mut st = actix_rt::spawn(srv);
            let c = held_conn(addr).await?;
            let mut f1 = actix_rt::spawn(h.stop(true));
            tokio::time::sleep(Duration::from_millis(200)).await;
            let mut f2 = actix_rt::spawn(h.stop(true));
            tokio::time::sleep(Duration::from_millis(1300)).await;
            if is_done(&mut f1) || is_done(&mut f2) || is_done(&mut st) {
                return Err("a graceful stop completed while a connection was in progress".into());
            }
            drop(c);
            within(&mut f1).await.map_err(|e| format!("first stop: {e}"))?.ok();
            within(&mut f2).await.map_err(|e| format!("second stop: {e}"))?.ok();
            within(&mut st).await.map_err(|e| format!("Server future: {e}"))?.ok();
            Ok(String::new())
        }
        // the stop future is dropped without ever being polled: the command was sent eagerly
        "stop_dropped_unpolled" => {
            let (srv, addr) = build(1, 30, false);
            let h = srv.handle();
            let mut st = actix_rt::spawn(srv);
            let mut c = held_conn(addr).await?;
            drop(h.stop(false));
            within(&mut st).await.map_err(|e| format!("Server future: {e}"))?.ok();
            if !sees_close(&mut c).await {
                return Err("held connection not closed".into());
            }
            Ok(String::new())
        }
        "idle_graceful" => {
            let (srv, _addr) = build(2, 30, false);
            let h = srv.handle();
            let mut st = actix_rt::spawn(srv);
            tokio::time::sleep(Duration::from_millis(50)).await;
            let t0 = Instant::now();
            within(h.stop(true)).await.map_err(|e| format!("stop(true): {e}"))?;
            let ms = t0.elapsed().as_millis();
            within(&mut st).await.map_err(|e| format!("Server future: {e}"))?.ok();
            Ok(format!("stop_ms={ms}"))
        }
        "stop_after_done" => {
            let (srv, _addr) = build(1, 30, false);
            let h = srv.handle();
            let mut st = actix_rt::spawn(srv);
            within(h.stop(false)).await.map_err(|e| format!("stop(false): {e}"))?;
            within(&mut st).await.map_err(|e| format!("Server future: {e}"))?.ok();
            within(h.stop(true)).await.map_err(|e| format!("stop after the server is gone: {e}"))?;
            within(h.stop(false)).await.map_err(|e| format!("stop after the server is gone: {e}"))?;
            Ok(String::new())
        }
        "stop_while_paused" => {
            let (srv, addr) = build(1, 30, false);
            let h = srv.handle();
            let mut st = actix_rt::spawn(srv);
            let c = held_conn(addr).await?;
            within(h.pause()).await.map_err(|e| format!("pause: {e}"))?;
            let mut sf = actix_rt::spawn(h.stop(true));
            tokio::time::sleep(Duration::from_millis(1300)).await;
            if is_done(&mut sf) || is_done(&mut st) {
                return Err("graceful stop (while paused) completed while a connection was in progress".into());
            }
            drop(c);
            within(&mut sf).await.map_err(|e| format!("stop while paused: {e}"))?.ok();
            within(&mut st).await.map_err(|e| format!("Server future: {e}"))?.ok();
            Ok(String::new())
        }
        _ => Err(format!("unknown scenario {name}")),
    }
}

/// child process for the signal scenarios: a server with OS signals enabled
pub fn child() {
    // `e2e_child c`: the server has handled other commands (a pause and a resume, both acknowledged) before the signal arrives
    let mode = std::env::args().nth(2).unwrap_or_default();
    let cmds_first = mode.contains('c');
    if mode.contains('t') {
        // `e2e_child t`: the server runs in a plain Tokio runtime, without an actix System
        let rt = tokio::runtime::Builder::new_current_thread().enable_all().build().unwrap();
        rt.block_on(async {
            let (srv, addr) = build(1, 30, true);
            println!("READY {}", addr.port());
            let _ = srv.await;
        });
        println!("SERVER_DONE");
        return;
    }
    let sys = actix_rt::System::new();
    sys.block_on(async {
        let (srv, addr) = build(1, 30, true);
        if cmds_first {
            let h = srv.handle();
            let st = actix_rt::spawn(srv);
            h.pause().await;
            h.resume().await;
            println!("READY {}", addr.port());
            let _ = st.await;
        } else {
            println!("READY {}", addr.port());
            let _ = srv.await;
        }
    });
    println!("SERVER_DONE");
}

fn signal_scenario(name: &str) -> Result<String, String> {
    // "<scenario>_c": the same after a pause() and a resume() have been handled
    // "<scenario>_t": the same with the server in a plain Tokio runtime (no actix System)
    let (name, cmds_first, plain) = match (name.strip_suffix("_c"), name.strip_suffix("_t")) {
        (Some(n), _) => (n, true, false),
        (_, Some(n)) => (n, false, true),
        _ => (name, false, false),
    };
    let (sig, held, graceful) = match name {
        "signal_int" => (libc::SIGINT, true, false),
        "signal_quit" => (libc::SIGQUIT, true, false),
        "signal_term" => (libc::SIGTERM, false, true),
        "signal_term_held" => (libc::SIGTERM, true, true),
        _ => return Err("unknown".into()),
    };
    let exe = std::env::current_exe().map_err(|e| e.to_string())?;
    let mut ch = Command::new(exe)
        .arg("e2e_child")
        .arg(if cmds_first { "c" } else if plain { "t" } else { "-" })
        .stdout(Stdio::piped())
        .stderr(Stdio::null())
        .spawn()
        .map_err(|e| e.to_string())?;
    let mut out = BufReader::new(ch.stdout.take().unwrap());
    let mut line = String::new();
    out.read_line(&mut line).map_err(|e| e.to_string())?;
    let port: u16 = line
        .trim()
        .strip_prefix("READY ")
        .and_then(|p| p.parse().ok())
        .ok_or_else(|| format!("child said {line:?}"))?;
    let res = (|| {
        let mut conn = None;
        if held {
            let mut c = std::net::TcpStream::connect(("127.0.0.1", port)).map_err(|e| e.to_string())?;
            c.set_read_timeout(Some(BOUND)).ok();
            let mut b = [0u8; 1];
            c.read_exact(&mut b).map_err(|e| format!("service did not take the connection: {e}"))?;
            conn = Some(c);
        }
        // give the child's signal handlers (installed when the Server future is first polled) a moment
        std::thread::sleep(Duration::from_millis(300));
        let t0 = Instant::now();
        // SAFETY: plain kill(2) on our own child
        unsafe { libc::kill(ch.id() as i32, sig) };
        if graceful && held {
            std::thread::sleep(Duration::from_millis(1800));
            if ch.try_wait().map_err(|e| e.to_string())?.is_some() {
                return Err("SIGTERM: the process exited while a connection was in progress".to_string());
            }
            drop(conn.take());
        }
        // a forced stop (SIGINT, SIGQUIT) does not wait for the held connection: 10 s stand for "waits" (shutdown_timeout is 30 s)
        let limit = if graceful { BOUND } else { Duration::from_secs(10) };
        let deadline = Instant::now() + limit;
        loop {
            if let Some(st) = ch.try_wait().map_err(|e| e.to_string())? {
                let mut rest = String::new();
                let _ = out.read_to_string(&mut rest);
                if !rest.contains("SERVER_DONE") {
                    return Err(format!("child exited ({st}) without the Server future resolving"));
                }
                return Ok(format!("exit_ms={}", t0.elapsed().as_millis()));
            }
            if Instant::now() > deadline {
                return Err(format!("child did not exit within {} s of the signal", limit.as_secs()));
            }
            std::thread::sleep(Duration::from_millis(20));
        }
    })();
    let _ = ch.kill();
    let _ = ch.wait();
    res
}

/// E2E_LOG=1: print actix-server's own log lines (tracing -> log) to stderr, with a timestamp
struct StderrLog(Instant);
impl log::Log for StderrLog {
    fn enabled(&self, m: &log::Metadata<'_>) -> bool {
        m.target().starts_with("actix_server")
    }
    fn log(&self, r: &log::Record<'_>) {
        if self.enabled(r.metadata()) {
            eprintln!("[{:>8.3}] {:?} {} {}", self.0.elapsed().as_secs_f64(), std::thread::current().name(), r.level(), r.args());
        }
    }
    fn flush(&self) {}
}

pub fn run(line: &str) -> String {
    if std::env::var_os("E2E_LOG").is_some() {
        let _ = log::set_logger(Box::leak(Box::new(StderrLog(Instant::now()))));
        log::set_max_level(log::LevelFilter::Trace);
    }
    let name = line.trim();
    let r = if name.starts_with("signal_") {
        signal_scenario(name)
    } else {
        let name = name.to_string();
        // own thread + own System per scenario
        std::thread::spawn(move || actix_rt::System::new().block_on(scenario(&name)))
            .join()
            .unwrap_or_else(|_| Err("scenario panicked".into()))
    };
    match r {
        Ok(s) => format!("ok {s}").trim_end().to_string(),
        Err(e) => format!("FAIL {e}"),
    }
}
