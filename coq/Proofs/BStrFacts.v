(* Proofs/BStrFacts.v — lemmas about Model/BStr.v (ByteString).
     1. fallible constructors            4. comparison / hashing / Display / String
     2. split_at                         5. the construction-sequence machine: invariant
     3. str slicing and slice_ref *)
From AN Require Import Model.BStr Proofs.Utf8Facts.
From Coq Require Import Lia.

(* ------------------------------------------------------------------ 1. constructors *)
Lemma try_from_k_spec k b : try_from_k k b = if valid b then Some b else None.
Proof.
  destruct k; cbn [try_from_k]; unfold try_from_array, try_from_array_ref, try_from_slice,
    try_from_vec, try_from_bytes, try_from_bytes_mut, str_from_utf8; now destruct (valid b).
Qed.

(* every fallible constructor is exactly str::from_utf8: same acceptance, same bytes *)
Lemma try_from_k_str k b : try_from_k k b = str_from_utf8 b.
Proof. rewrite try_from_k_spec. reflexivity. Qed.

Lemma try_from_k_some k b x : try_from_k k b = Some x <-> valid b = true /\ x = b.
Proof.
  rewrite try_from_k_spec. destruct (valid b); split.
  - intros H; injection H as <-; auto.
  - intros [_ ->]; reflexivity.
  - discriminate.
  - intros [H _]; discriminate.
Qed.

Lemma try_from_k_none k b : try_from_k k b = None <-> valid b = false.
Proof. rewrite try_from_k_spec. destruct (valid b); split; congruence. Qed.

Lemma from_k_id k s : from_k k s = s.
Proof. now destruct k. Qed.

(* ------------------------------------------------------------------ 2. split_at *)
Lemma split_at_str x mid : split_at x mid = str_split_at (deref x) mid.
Proof.
  unfold split_at, str_split_at, bytes_split_to, deref.
  destruct (boundary x mid) eqn:E; [|reflexivity].
  apply boundary_le in E. apply Nat.leb_le in E. now rewrite E.
Qed.

Lemma split_at_none_iff x mid :
  split_at x mid = None <-> (length x < mid)%nat \/ boundary x mid = false.
Proof.
  rewrite split_at_str. unfold str_split_at, deref. destruct (boundary x mid) eqn:E.
  - split; [discriminate|]. intros [H|H]; [apply boundary_le in E; lia|discriminate].
  - split; auto.
Qed.

Lemma split_at_some x mid a b : split_at x mid = Some (a, b) ->
  boundary x mid = true /\ (mid <= length x)%nat /\ a = firstn mid x /\ b = skipn mid x /\ a ++ b = x.
Proof.
  rewrite split_at_str. unfold str_split_at, deref. destruct (boundary x mid) eqn:E; [|discriminate].
  intros H; injection H as <- <-. pose proof (boundary_le _ _ E).
  repeat split; auto using firstn_skipn.
Qed.

Lemma split_at_valid x mid a b : valid x = true -> split_at x mid = Some (a, b) ->
  valid a = true /\ valid b = true.
Proof.
  intros Hv H. apply split_at_some in H as (Hb & Hle & -> & -> & _). now apply split_valid.
Qed.

(* ------------------------------------------------------------------ 3. slices *)
Lemma str_slice_some s a b l : str_slice s a b = Some l ->
  (a <= b)%nat /\ (b <= length s)%nat /\ boundary s a = true /\ boundary s b = true /\
  l = firstn (b - a) (skipn a s) /\ length l = (b - a)%nat.
Proof.
  unfold str_slice. destruct (Nat.leb_spec a b) as [Hab|]; [|discriminate]. cbn [andb].
  destruct (boundary s a) eqn:Ea; [|discriminate]. destruct (boundary s b) eqn:Eb; [|discriminate].
  cbn [andb]. intros H; injection H as <-. pose proof (boundary_le _ _ Eb).
  repeat split; auto. rewrite firstn_length, skipn_length. lia.
Qed.

Lemma str_slice_none_iff s a b :
  str_slice s a b = None <-> (b < a)%nat \/ boundary s a = false \/ boundary s b = false.
Proof.
  unfold str_slice. destruct (Nat.leb_spec a b) as [Hab|Hab]; cbn [andb].
  - destruct (boundary s a), (boundary s b); cbn [andb]; split; try discriminate; auto;
      intros [H|[H|H]]; try discriminate; lia.
  - split; auto.
Qed.

Lemma str_slice_valid s a b l : valid s = true -> str_slice s a b = Some l -> valid l = true.
Proof.
  intros Hv H. apply str_slice_some in H as (Hab & _ & Ha & Hb & -> & _). now apply slice_valid.
Qed.

Lemma slice_ref_none_iff x off n :
  slice_ref x off n = None <->
  n <> 0%nat /\ (off < 0 \/ Z.of_nat (length x) < off + Z.of_nat n).
Proof.
  unfold slice_ref. destruct (Nat.eqb_spec n 0) as [->|Hn].
  - split; [discriminate|]. intros [H _]; congruence.
  - destruct (Z.leb_spec 0 off), (Z.leb_spec (off + Z.of_nat n) (Z.of_nat (length x)));
      cbn [andb]; split; try discriminate; auto; intros [_ [H1|H1]]; lia.
Qed.

Lemma slice_ref_some x off n l : slice_ref x off n = Some l ->
  (n = 0%nat /\ l = []) \/
  (0 <= off /\ off + Z.of_nat n <= Z.of_nat (length x) /\ l = firstn n (skipn (Z.to_nat off) x)).
Proof.
  unfold slice_ref. destruct (Nat.eqb_spec n 0) as [->|Hn].
  - intros H; injection H as <-; auto.
  - destruct (Z.leb_spec 0 off) as [Ha|Ha], (Z.leb_spec (off + Z.of_nat n) (Z.of_nat (length x))) as [Hb|Hb];
      cbn [andb]; try discriminate. intros H; injection H as <-. right; auto.
Qed.

(* The subset is a `&str` with bytes `sub` whose address is `off` bytes after x's first byte.
   Memory coherence (one address holds one byte): when the subset lies inside x's window its
   bytes are the bytes of x there.  Then slice_ref returns exactly the subset or panics. *)
Lemma slice_ref_subset x off sub l :
  (0 <= off -> off + Z.of_nat (length sub) <= Z.of_nat (length x) ->
   sub = firstn (length sub) (skipn (Z.to_nat off) x)) ->
  slice_ref x off (length sub) = Some l -> l = sub.
Proof.
  intros Hco H. apply slice_ref_some in H as [[Hn ->]|(H0 & H1 & ->)].
  - destruct sub; [reflexivity|discriminate].
  - symmetry. now apply Hco.
Qed.

(* slice_ref of the str slice `&x[a..b]` returns that slice *)
Lemma slice_ref_of_slice x a b l : str_slice (deref x) a b = Some l ->
  slice_ref x (Z.of_nat a) (length l) = Some l.
Proof.
  intros H. apply str_slice_some in H as (Hab & Hb & _ & _ & Hl & Hlen). unfold deref in *.
  unfold slice_ref. destruct (Nat.eqb_spec (length l) 0) as [E|E].
  - destruct l; [reflexivity|discriminate].
  - destruct (Z.leb_spec 0 (Z.of_nat a)); [|lia].
    destruct (Z.leb_spec (Z.of_nat a + Z.of_nat (length l)) (Z.of_nat (length x))); [|lia].
    cbn [andb]. rewrite Nat2Z.id, Hlen. now rewrite <- Hl.
Qed.

(* ------------------------------------------------------------------ 4. agreement with str *)
Lemma bytes_eqb_eq a b : bytes_eqb a b = true <-> a = b.
Proof.
  revert b; induction a as [|x a IH]; intros [|y b]; cbn [bytes_eqb]; split; try discriminate; auto.
  - intros H. apply andb_true_iff in H as [H1 H2]. apply Z.eqb_eq in H1. apply IH in H2. congruence.
  - intros H; injection H as -> ->. rewrite Z.eqb_refl. now apply IH.
Qed.

Lemma bytes_cmp_eq a b : bytes_cmp a b = Eq <-> a = b.
Proof.
  revert b; induction a as [|x a IH]; intros [|y b]; cbn [bytes_cmp]; split; try discriminate; auto.
  - destruct (Z.compare_spec x y) as [->|H|H]; try discriminate. intros H. apply IH in H. congruence.
  - intros H; injection H as -> ->. rewrite Z.compare_refl. now apply IH.
Qed.

Lemma bytes_cmp_antisym a b : bytes_cmp b a = CompOpp (bytes_cmp a b).
Proof.
  revert b; induction a as [|x a IH]; intros [|y b]; cbn [bytes_cmp]; try reflexivity.
  rewrite (Z.compare_antisym x y). destruct (x ?= y); cbn [CompOpp]; auto.
Qed.

Lemma bytes_cmp_lt_trans a b c :
  bytes_cmp a b = Lt -> bytes_cmp b c = Lt -> bytes_cmp a c = Lt.
Proof.
  revert b c; induction a as [|x a IH]; intros [|y b] [|z c]; cbn [bytes_cmp]; try discriminate; auto.
  destruct (Z.compare_spec x y) as [->|Hxy|Hxy]; try discriminate.
  - destruct (Z.compare_spec y z) as [->|Hyz|Hyz]; try discriminate; auto. apply IH.
  - intros _. destruct (Z.compare_spec y z) as [->|Hyz|Hyz]; try discriminate; intros _.
    + now apply Z.compare_lt_iff in Hxy as ->.
    + assert (x < z) as H by lia. now apply Z.compare_lt_iff in H as ->.
Qed.

Lemma bytes_cmp_eqb a b : bytes_eqb a b = match bytes_cmp a b with Eq => true | _ => false end.
Proof.
  destruct (bytes_cmp a b) eqn:E.
  - apply bytes_cmp_eq in E as ->. now apply bytes_eqb_eq.
  - destruct (bytes_eqb a b) eqn:E2; [|reflexivity]. apply bytes_eqb_eq in E2 as ->.
    rewrite (proj2 (bytes_cmp_eq b b) eq_refl) in E. discriminate.
  - destruct (bytes_eqb a b) eqn:E2; [|reflexivity]. apply bytes_eqb_eq in E2 as ->.
    rewrite (proj2 (bytes_cmp_eq b b) eq_refl) in E. discriminate.
Qed.

(* 0xFF occurs in no valid UTF-8 string, which is why `str`'s Hash appends it *)
Lemma valid_no_ff l : valid l = true -> ~ In 255 l.
Proof.
  intros H; apply valid_wf in H.
  induction H as [|b0 t H0 _ IH|b0 b1 t H0 H1 _ IH|b0 b1 b2 t H0 H1 H2 _ IH
                 |b0 b1 b2 b3 t H0 H1 H2 H3 _ IH]; cbn [In]; try tauto;
    try (apply snd3_cont in H1); try (apply snd4_cont in H1);
    rewrite ?inr_true, ?cont_true in *; intuition lia.
Qed.

Lemma hash_input_inj x y : hash_input x = hash_input y -> x = y.
Proof. unfold hash_input, str_hash_input, deref. intros H. now apply app_inj_tail in H. Qed.

(* the hash input of a valid string is self-delimiting: in a stream of hashed fields the
   first string determines where it ends *)
Lemma hash_input_prefix_free x y r r' : valid x = true -> valid y = true ->
  hash_input x ++ r = hash_input y ++ r' -> x = y /\ r = r'.
Proof.
  unfold hash_input, str_hash_input, deref. intros Hx Hy.
  apply valid_no_ff in Hx. apply valid_no_ff in Hy. rewrite <- !app_assoc. cbn [app].
  revert y Hy; induction x as [|a x IH]; intros [|b y] Hy H; cbn [app] in H.
  - injection H as ->. auto.
  - injection H as <- _. exfalso. apply Hy. now left.
  - injection H as -> _. exfalso. apply Hx. now left.
  - injection H as -> H. destruct (IH (fun Hi => Hx (or_intror Hi)) y (fun Hi => Hy (or_intror Hi)) H)
      as [-> ->]. auto.
Qed.

(* ------------------------------------------------------------------ 5. the machine *)
Lemma skipn_add {A} (l : list A) a b : skipn a (skipn b l) = skipn (b + a) l.
Proof.
  revert l; induction b as [|b IH]; intros l; [reflexivity|].
  destruct l as [|x l]; cbn [Nat.add skipn]; [now destruct a|apply IH].
Qed.

(* the str slice a..b of a view is the view (start + a, b - a) of the same buffer *)
Lemma bytes_of_sub h v a b : (a <= b)%nat -> (b <= v_len v)%nat ->
  firstn (b - a) (skipn a (bytes_of h v)) = bytes_of h (mkview (v_alloc v) (v_start v + a) (b - a)).
Proof.
  intros Hab Hb. unfold bytes_of. cbn [v_alloc v_start v_len].
  rewrite skipn_firstn_comm, firstn_firstn, skipn_add.
  now replace (Nat.min (b - a) (v_len v - a)) with (b - a)%nat by lia.
Qed.

Definition view_ok (h : list (list Z)) (v : view) : Prop :=
  (v_alloc v < length h)%nat /\
  (v_start v + v_len v <= length (nth (v_alloc v) h []))%nat /\
  valid (bytes_of h v) = true.

Definition inv (s : state) : Prop :=
  (0 < length (heap s))%nat /\ Forall (view_ok (heap s)) (pool s).

Lemma bytes_of_length h v : (v_start v + v_len v <= length (nth (v_alloc v) h []))%nat ->
  length (bytes_of h v) = v_len v.
Proof. intros H. unfold bytes_of. rewrite firstn_length, skipn_length. lia. Qed.

Lemma bytes_of_grow h b v : (v_alloc v < length h)%nat -> bytes_of (h ++ [b]) v = bytes_of h v.
Proof. intros H. unfold bytes_of. now rewrite app_nth1. Qed.

Lemma view_ok_grow h b v : view_ok h v -> view_ok (h ++ [b]) v.
Proof.
  intros (H1 & H2 & H3). unfold view_ok. rewrite bytes_of_grow by exact H1.
  rewrite app_nth1 by exact H1. rewrite app_length. cbn [length]. repeat split; auto. lia.
Qed.

Lemma bytes_of_fresh h b : bytes_of (h ++ [b]) (mkview (length h) 0 (length b)) = b.
Proof.
  unfold bytes_of. cbn [v_alloc v_start v_len]. rewrite app_nth2 by lia.
  rewrite Nat.sub_diag. cbn [nth skipn]. apply firstn_all.
Qed.

Lemma view_ok_fresh h b : valid b = true -> view_ok (h ++ [b]) (mkview (length h) 0 (length b)).
Proof.
  intros Hv. unfold view_ok. rewrite bytes_of_fresh. cbn [v_alloc v_start v_len].
  rewrite app_length, app_nth2, Nat.sub_diag by lia. cbn [length nth]. repeat split; auto; lia.
Qed.

Lemma view_ok_empty h : (0 < length h)%nat -> view_ok h empty_view.
Proof. intros H. unfold view_ok, empty_view, bytes_of; cbn. repeat split; auto; lia. Qed.

(* a sub-window of an ok view whose bytes are valid is ok *)
Lemma view_ok_sub h v a b : view_ok h v -> (a <= b)%nat -> (b <= v_len v)%nat ->
  valid (firstn (b - a) (skipn a (bytes_of h v))) = true ->
  view_ok h (mkview (v_alloc v) (v_start v + a) (b - a)).
Proof.
  intros (H1 & H2 & _) Hab Hb Hv. unfold view_ok. rewrite <- bytes_of_sub by assumption.
  cbn [v_alloc v_start v_len]. repeat split; auto. lia.
Qed.

Lemma inv_push s vs : inv s -> Forall (view_ok (heap s)) vs ->
  inv (fst (push s vs)) /\ obs_ok (snd (push s vs)) = true.
Proof.
  intros [H0 Hp] Hvs. unfold push, inv; cbn [fst snd heap pool obs_ok]. split.
  - split; [exact H0|]. apply Forall_app; auto.
  - apply forallb_forall. intros x Hx. apply in_map_iff in Hx as [v [<- Hin]].
    rewrite Forall_forall in Hvs. now destruct (Hvs v Hin) as (_ & _ & ?).
Qed.

Lemma inv_fresh s b : inv s -> valid b = true ->
  inv (fst (fresh s b)) /\ obs_ok (snd (fresh s b)) = true.
Proof.
  intros [H0 Hp] Hv. unfold fresh, inv; cbn [fst snd heap pool obs_ok forallb]. split.
  - split; [rewrite app_length; lia|]. apply Forall_app. split.
    + eapply Forall_impl; [|exact Hp]. intros v; apply view_ok_grow.
    + constructor; [now apply view_ok_fresh|constructor].
  - now rewrite bytes_of_fresh, Hv.
Qed.

Lemma inv_nth s i v : inv s -> nth_error (pool s) i = Some v -> view_ok (heap s) v.
Proof. intros [_ Hp] H. rewrite Forall_forall in Hp. apply Hp. eapply nth_error_In; eauto. Qed.

(* what a `&str` argument evaluates to: valid bytes, and if it points into a buffer it is the
   str slice a..b of an ok view of that buffer *)
Lemma eval_src_ok s x loc l : inv s -> src_ok x = true -> eval_src s x = SStr loc l ->
  valid l = true /\
  (forall al st, loc = Some (al, st) ->
     exists w a b, view_ok (heap s) w /\ al = v_alloc w /\ st = (v_start w + a)%nat /\
                   (a <= b)%nat /\ (b <= v_len w)%nat /\ length l = (b - a)%nat /\
                   l = firstn (b - a) (skipn a (bytes_of (heap s) w))).
Proof.
  intros Hi Hok H. destruct x as [l0|j a b]; cbn [eval_src src_ok] in *.
  - injection H as <- <-. split; [exact Hok|discriminate].
  - destruct (nth_error (pool s) j) as [w|] eqn:Ej; [|discriminate].
    destruct (str_slice (deref (bytes_of (heap s) w)) a b) as [l1|] eqn:Es; [|discriminate].
    injection H as <- <-. pose proof (inv_nth _ _ _ Hi Ej) as Hw.
    pose proof Hw as (Hw1 & Hw2 & Hw3). unfold deref in Es. split; [eapply str_slice_valid; eauto|].
    intros al st E; injection E as <- <-.
    apply str_slice_some in Es as (Hab & Hb & _ & _ & Hl & Hlen).
    rewrite bytes_of_length in Hb by exact Hw2.
    exists w, a, b. repeat split; auto.
Qed.

(* ONE STEP: the invariant is kept and everything handed out is valid UTF-8 *)
Lemma inv_step s o : inv s -> op_ok o = true ->
  inv (fst (step s o)) /\ obs_ok (snd (step s o)) = true.
Proof.
  intros Hi Hok. pose proof Hi as [H0 Hp]. destruct o as [|k x|k b|j a b|i mid|i x|i]; cbn [step op_ok] in *.
  - (* new *) apply inv_push; [exact Hi|]. constructor; [now apply view_ok_empty|constructor].
  - (* from *) destruct (eval_src s x) as [| |loc l] eqn:E; try (split; [exact Hi|reflexivity]).
    destruct (eval_src_ok _ _ _ _ Hi Hok E) as [Hv _]. apply inv_fresh; [exact Hi|now rewrite from_k_id].
  - (* try_from *) destruct (try_from_k k b) as [x|] eqn:E; [|split; [exact Hi|reflexivity]].
    apply try_from_k_some in E as [Hv ->]. now apply inv_fresh.
  - (* try_from a shared Bytes slice *)
    destruct (nth_error (pool s) j) as [v|] eqn:Ej; [|split; [exact Hi|reflexivity]].
    destruct (Nat.leb_spec a b) as [Hab|]; [|split; [exact Hi|reflexivity]].
    destruct (Nat.leb_spec b (v_len v)) as [Hb|]; [|split; [exact Hi|reflexivity]]. cbn [andb].
    destruct (try_from_bytes _) as [y|] eqn:E; [|split; [exact Hi|reflexivity]].
    apply inv_push; [exact Hi|]. constructor; [|constructor].
    apply view_ok_sub; auto; [eapply inv_nth; eauto|].
    rewrite bytes_of_sub by assumption.
    apply (try_from_k_some KBytes) in E. tauto.
  - (* split_at *)
    destruct (nth_error (pool s) i) as [v|] eqn:Ei; [|split; [exact Hi|reflexivity]].
    destruct (split_at (bytes_of (heap s) v) mid) as [[x y]|] eqn:E; [|split; [exact Hi|reflexivity]].
    pose proof (inv_nth _ _ _ Hi Ei) as Hv. pose proof Hv as (Hv1 & Hv2 & Hv3).
    destruct (split_at_valid _ _ _ _ Hv3 E) as [Hx Hy].
    apply split_at_some in E as (_ & Hle & -> & -> & _).
    rewrite bytes_of_length in Hle by exact Hv2.
    apply inv_push; [exact Hi|]. constructor; [|constructor; [|constructor]].
    + replace (mkview (v_alloc v) (v_start v) mid)
        with (mkview (v_alloc v) (v_start v + 0) (mid - 0))
        by (now rewrite Nat.add_0_r, Nat.sub_0_r).
      apply view_ok_sub; auto; try lia. now rewrite Nat.sub_0_r.
    + apply view_ok_sub; auto.
      rewrite firstn_all2; [exact Hy|]. rewrite skipn_length, bytes_of_length by exact Hv2. lia.
  - (* slice_ref *)
    destruct (nth_error (pool s) i) as [v|] eqn:Ei; [|split; [exact Hi|reflexivity]].
    destruct (eval_src s x) as [| |loc l] eqn:E; try (split; [exact Hi|reflexivity]).
    destruct (Nat.eqb_spec (length l) 0) as [E0|E0].
    { apply inv_push; [exact Hi|]. constructor; [now apply view_ok_empty|constructor]. }
    destruct loc as [[al st]|]; [|split; [exact Hi|reflexivity]].
    destruct (Nat.eqb_spec al (v_alloc v)) as [Eal|]; [|split; [exact Hi|reflexivity]].
    destruct (slice_ref _ _ _) as [y|] eqn:Er; [|split; [exact Hi|reflexivity]].
    destruct (eval_src_ok _ _ _ _ Hi Hok E) as [Hvl Hloc].
    destruct (Hloc _ _ eq_refl) as (w & a & b & Hw & -> & -> & Hab & Hb & Hlen & Hl).
    apply inv_push; [exact Hi|]. constructor; [|constructor].
    rewrite Hlen. apply view_ok_sub; auto. now rewrite <- Hl.
  - (* clone *)
    destruct (nth_error (pool s) i) as [v|] eqn:Ei; [|split; [exact Hi|reflexivity]].
    apply inv_push; [exact Hi|]. constructor; [eapply inv_nth; eauto|constructor].
Qed.

Lemma inv_init : inv init.
Proof. split; [cbn; lia|constructor]. Qed.

Lemma inv_run_from ops : forall s, inv s -> forallb op_ok ops = true ->
  inv (fst (run_from s ops)) /\ c20_ok (snd (run_from s ops)) = true.
Proof.
  induction ops as [|o r IH]; intros s Hi Hok; cbn [run_from forallb] in *.
  - split; [exact Hi|reflexivity].
  - apply andb_true_iff in Hok as [Ho Hr].
    destruct (inv_step s o Hi Ho) as [Hi1 Hob]. destruct (step s o) as [s1 ob]. cbn [fst snd] in *.
    destruct (IH s1 Hi1 Hr) as [Hi2 Hobs]. destruct (run_from s1 r) as [s2 obs]. cbn [fst snd] in *.
    split; [exact Hi2|]. unfold c20_ok in *. cbn [forallb]. now rewrite Hob, Hobs.
Qed.

(* C20_invariant: whatever sequence of safe-API calls a program makes — the only assumption
   being that `&str` arguments created outside the crate are strs — every ByteString in
   existence holds valid UTF-8 (= the precondition of from_utf8_unchecked in Deref), its window
   lies inside its buffer, and every value handed out was valid when it was handed out. *)
Theorem run_invariant ops : forallb op_ok ops = true ->
  let s := fst (run ops) in
  Forall (fun v => valid (deref (bytes_of (heap s) v)) = true /\
                   length (bytes_of (heap s) v) = v_len v) (pool s)
  /\ c20_ok (snd (run ops)) = true.
Proof.
  intros Hok. destruct (inv_run_from ops init inv_init Hok) as [[_ Hp] Hobs].
  split; [|exact Hobs]. eapply Forall_impl; [|exact Hp].
  intros v (_ & H2 & H3). split; [exact H3|now apply bytes_of_length].
Qed.

(* the machine's split_at and slice_ref are the list-level functions of part 2 *)
Lemma step_split_obs s i mid v : inv s -> nth_error (pool s) i = Some v ->
  snd (step s (OSplit i mid)) =
  match split_at (bytes_of (heap s) v) mid with None => Panicked | Some (x, y) => Made [x; y] end.
Proof.
  intros Hi Ei. cbn [step]. rewrite Ei.
  destruct (split_at (bytes_of (heap s) v) mid) as [[x y]|] eqn:E; [|reflexivity].
  pose proof (inv_nth _ _ _ Hi Ei) as (Hv1 & Hv2 & Hv3).
  apply split_at_some in E as (_ & Hle & -> & -> & _). rewrite bytes_of_length in Hle by exact Hv2.
  unfold push; cbn [snd map]. do 2 f_equal.
  - replace (mkview (v_alloc v) (v_start v) mid)
      with (mkview (v_alloc v) (v_start v + 0) (mid - 0)) by (now rewrite Nat.add_0_r, Nat.sub_0_r).
    rewrite <- bytes_of_sub by lia. now rewrite Nat.sub_0_r.
  - f_equal. rewrite <- bytes_of_sub by lia. apply firstn_all2.
    rewrite skipn_length, bytes_of_length by exact Hv2. lia.
Qed.

(* slice_ref either panics or returns exactly the subset it was given — never other bytes *)
Lemma step_slice_ref_obs s i x v loc l : inv s -> src_ok x = true ->
  nth_error (pool s) i = Some v -> eval_src s x = SStr loc l ->
  snd (step s (OSliceRef i x)) = Panicked \/ snd (step s (OSliceRef i x)) = Made [l].
Proof.
  intros Hi Hok Ei E. cbn [step]. rewrite Ei, E.
  destruct (Nat.eqb_spec (length l) 0) as [E0|E0].
  { right. destruct l; [reflexivity|discriminate]. }
  destruct loc as [[al st]|]; [|now left].
  destruct (Nat.eqb_spec al (v_alloc v)) as [Eal|]; [|now left].
  destruct (slice_ref _ _ _) as [y|] eqn:Er; [|now left]. right.
  destruct (eval_src_ok _ _ _ _ Hi Hok E) as [_ Hloc].
  destruct (Hloc _ _ eq_refl) as (w & a & b & Hw & -> & -> & Hab & Hb & Hlen & Hl).
  unfold push; cbn [snd map]. rewrite Hlen, <- bytes_of_sub by assumption. now rewrite <- Hl.
Qed.

(* and it panics exactly when the subset is non-empty and not inside self's window *)
Lemma step_slice_ref_panics s i j a b v w l : inv s ->
  nth_error (pool s) i = Some v -> nth_error (pool s) j = Some w ->
  str_slice (bytes_of (heap s) w) a b = Some l ->
  (snd (step s (OSliceRef i (SSub j a b))) = Panicked <->
   l <> [] /\ (v_alloc w <> v_alloc v \/ (v_start w + a < v_start v)%nat \/
               (v_start v + v_len v < v_start w + b)%nat)).
Proof.
  intros Hi Ei Ej Es. cbn [step eval_src]. rewrite Ei, Ej. unfold deref. rewrite Es.
  pose proof (inv_nth _ _ _ Hi Ei) as (Hv1 & Hv2 & Hv3).
  apply str_slice_some in Es as (Hab & Hb & _ & _ & Hl & Hlen).
  destruct (Nat.eqb_spec (length l) 0) as [E0|E0].
  { destruct l; [|discriminate]. unfold push; cbn [snd]. split; [discriminate|]. intros [H _]; congruence. }
  assert (l <> []) as Hne by (intros ->; now apply E0).
  destruct (Nat.eqb_spec (v_alloc w) (v_alloc v)) as [Eal|Eal]; [|split; auto].
  destruct (slice_ref _ _ _) as [y|] eqn:Er.
  - unfold push; cbn [snd]. split; [discriminate|]. intros [_ [H|H]]; [congruence|].
    apply slice_ref_some in Er as [[Hn _]|(H1 & H2 & _)]; [congruence|].
    rewrite bytes_of_length in H2 by exact Hv2. lia.
  - split; auto. intros _. split; [exact Hne|]. right.
    apply slice_ref_none_iff in Er as [_ Hr]. rewrite bytes_of_length in Hr by exact Hv2. lia.
Qed.

(* ------------------------------------------------------------------ statements used by Props/C20.v *)

(* C20_try_from *)
Theorem try_from_exact k b :
  try_from_k k b = str_from_utf8 b /\
  (forall x, try_from_k k b = Some x <-> valid b = true /\ as_bytes x = b) /\
  (try_from_k k b = None <-> valid b = false).
Proof.
  split; [apply try_from_k_str|]. split; [intros x; apply try_from_k_some|apply try_from_k_none].
Qed.

(* the infallible constructors keep the bytes of the str they are given *)
Theorem from_exact k s : valid s = true ->
  as_bytes (from_k k s) = s /\ valid (deref (from_k k s)) = true /\ valid (deref new) = true.
Proof. intros H. rewrite from_k_id. unfold as_bytes, deref. auto. Qed.

(* C20_split_panics_iff (None = panic), for the ByteString and for the str it derefs to *)
Theorem split_panics_iff x mid :
  (split_at x mid = None <-> (length x < mid)%nat \/ boundary x mid = false) /\
  (split_at x mid = None <-> str_split_at (deref x) mid = None).
Proof. split; [apply split_at_none_iff|now rewrite split_at_str]. Qed.

(* C20_split_agrees: same halves as str::split_at, they concatenate to x, and they are valid *)
Theorem split_agrees x mid a b : valid x = true -> split_at x mid = Some (a, b) ->
  str_split_at (deref x) mid = Some (a, b) /\ a = firstn mid x /\ b = skipn mid x /\ a ++ b = x /\
  valid a = true /\ valid b = true.
Proof.
  intros Hv H. pose proof (split_at_valid _ _ _ _ Hv H) as [Ha Hb].
  pose proof H as H2. rewrite split_at_str in H2.
  apply split_at_some in H as (_ & _ & E1 & E2 & E3). auto 10.
Qed.

(* C20_slice: `&x[a..b]` and `x.slice_ref(&x[a..b])` *)
Theorem slice_agrees x a b : valid x = true ->
  (str_slice (deref x) a b = None <->
     (b < a)%nat \/ boundary x a = false \/ boundary x b = false) /\
  (forall l, str_slice (deref x) a b = Some l ->
     valid l = true /\ l = firstn (b - a) (skipn a x) /\
     slice_ref x (Z.of_nat a) (length l) = Some l).
Proof.
  intros Hv. split; [apply str_slice_none_iff|]. intros l H. split; [eapply str_slice_valid; eauto|].
  split; [|exact (slice_ref_of_slice x a b l H)].
  apply str_slice_some in H. tauto.
Qed.

(* C20_agree *)
Theorem agree x y :
  eq x y = str_eq (deref x) (deref y) /\ (eq x y = true <-> x = y) /\
  cmp x y = str_cmp (deref x) (deref y) /\ (cmp x y = Eq <-> x = y) /\
  cmp y x = CompOpp (cmp x y) /\
  eq x y = match cmp x y with Eq => true | _ => false end /\
  hash_input x = str_hash_input (deref x) /\ (hash_input x = hash_input y -> x = y) /\
  display x = str_display (deref x) /\ to_string x = str_to_string (deref x) /\
  into_string x = deref x /\ from_string (into_string x) = x /\ into_bytes x = as_bytes x.
Proof.
  unfold eq, cmp, str_eq, str_cmp, deref, display, to_string, into_string, from_string,
    str_to_string, str_display, into_bytes, as_bytes.
  repeat split; auto using bytes_cmp_antisym, bytes_cmp_eqb, hash_input_inj;
    try apply bytes_eqb_eq; try apply bytes_cmp_eq.
Qed.

Theorem cmp_trans x y z : cmp x y = Lt -> cmp y z = Lt -> cmp x z = Lt.
Proof. apply bytes_cmp_lt_trans. Qed.

(* ------------------------------------------------------------------ 6. what the order means *)
(* Rust documents `str`'s Ord as "lexicographic by byte values; this orders Unicode code points
   based on their positions in the code charts".  Both halves are the same order: comparing the
   UTF-8 bytes lexicographically = comparing the sequences of scalar values lexicographically. *)
Local Ltac dlia := Z.div_mod_to_equations; lia.

Lemma bytes_cmp_app_same p x y : bytes_cmp (p ++ x) (p ++ y) = bytes_cmp x y.
Proof. induction p as [|a p IH]; cbn [app bytes_cmp]; [reflexivity|]. now rewrite Z.compare_refl. Qed.

Lemma encode_scalar_nonempty c : exists b r, encode_scalar c = b :: r.
Proof.
  unfold encode_scalar. destruct (c <? 128); [eauto|]. destruct (c <? 2048); [eauto|].
  destruct (c <? 65536); eauto.
Qed.

Local Ltac cmp_step :=
  cbn [app bytes_cmp];
  match goal with
  | |- context [Z.compare ?a ?b] =>
      destruct (Z.compare_spec a b); [ try (exfalso; dlia) | reflexivity | exfalso; dlia ]
  end.

Lemma encode_scalar_lt c d x y : scalar c = true -> scalar d = true -> c < d ->
  bytes_cmp (encode_scalar c ++ x) (encode_scalar d ++ y) = Lt.
Proof.
  intros Hc Hd Hlt. apply scalar_true in Hc. apply scalar_true in Hd. unfold encode_scalar.
  destruct (Z.ltb_spec c 128); [|destruct (Z.ltb_spec c 2048); [|destruct (Z.ltb_spec c 65536)]];
  (destruct (Z.ltb_spec d 128); [|destruct (Z.ltb_spec d 2048); [|destruct (Z.ltb_spec d 65536)]]);
  try lia; repeat cmp_step.
Qed.

Theorem lex_encode_scalars cs : forall ds,
  Forall (fun c => scalar c = true) cs -> Forall (fun c => scalar c = true) ds ->
  bytes_cmp (encode_scalars cs) (encode_scalars ds) = bytes_cmp cs ds.
Proof.
  induction cs as [|c cs IH]; intros [|d ds] Hcs Hds; unfold encode_scalars; cbn [map concat bytes_cmp].
  - reflexivity.
  - destruct (encode_scalar_nonempty d) as (b & r & ->). reflexivity.
  - destruct (encode_scalar_nonempty c) as (b & r & ->). reflexivity.
  - inversion Hcs as [|? ? Hc Hcs']; inversion Hds as [|? ? Hd Hds']; subst.
    destruct (Z.compare_spec c d) as [->|Hlt|Hgt].
    + rewrite bytes_cmp_app_same. now apply IH.
    + now apply encode_scalar_lt.
    + rewrite bytes_cmp_antisym, encode_scalar_lt by (auto; lia). reflexivity.
Qed.

(* stated on valid strings: decode both, compare the code point sequences *)
Theorem cmp_code_points x y : valid x = true -> valid y = true ->
  exists cs ds, Forall (fun c => scalar c = true) cs /\ Forall (fun c => scalar c = true) ds /\
                x = encode_scalars cs /\ y = encode_scalars ds /\
                cmp x y = bytes_cmp cs ds /\ str_cmp (deref x) (deref y) = bytes_cmp cs ds.
Proof.
  intros Hx Hy. apply valid_iff_scalars in Hx as (cs & Hcs & ->). apply valid_iff_scalars in Hy as (ds & Hds & ->).
  exists cs, ds. unfold cmp, str_cmp, deref. rewrite lex_encode_scalars by assumption. auto 10.
Qed.

(* the decoding of a valid string is unique *)
Corollary encode_scalars_inj cs ds :
  Forall (fun c => scalar c = true) cs -> Forall (fun c => scalar c = true) ds ->
  encode_scalars cs = encode_scalars ds -> cs = ds.
Proof.
  intros Hcs Hds E. apply bytes_cmp_eq. rewrite <- lex_encode_scalars by assumption.
  now apply bytes_cmp_eq.
Qed.

(* the proof invariant holds in every reachable state (used by the machine-level Examples) *)
Lemma run_inv ops : forallb op_ok ops = true -> inv (fst (run ops)).
Proof. intros H. exact (proj1 (inv_run_from ops init inv_init H)). Qed.
