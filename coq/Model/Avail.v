(* Model/Avail.v — bit-exact model of actix-server/src/availability.rs:
   `struct Availability([u128; 4])`.  Words are N (invariant: < 2^128).  Index arguments are N;
   `None` stands for the panic "Max WorkerHandle count is 512". *)
From Coq Require Export NArith List Bool.
Export ListNotations.
Open Scope N_scope.

Record avail := { w0 : N; w1 : N; w2 : N; w3 : N }.

Definition empty : avail := {| w0 := 0; w1 := 0; w2 := 0; w3 := 0 |}.

(* Availability::offset *)
Definition offset (i : N) : option (N * N) :=
  if i <? 128 then Some (0, i)
  else if i <? 256 then Some (1, i - 128)
  else if i <? 384 then Some (2, i - 256)
  else if i <? 512 then Some (3, i - 384)
  else None.

Definition word (a : avail) (k : N) : N :=
  match k with 0 => w0 a | 1 => w1 a | 2 => w2 a | _ => w3 a end.

Definition set_word (a : avail) (k : N) (w : N) : avail :=
  match k with
  | 0 => {| w0 := w; w1 := w1 a; w2 := w2 a; w3 := w3 a |}
  | 1 => {| w0 := w0 a; w1 := w; w2 := w2 a; w3 := w3 a |}
  | 2 => {| w0 := w0 a; w1 := w1 a; w2 := w; w3 := w3 a |}
  | _ => {| w0 := w0 a; w1 := w1 a; w2 := w2 a; w3 := w |}
  end.

(* `self.0.iter().any(|a| *a != 0)` *)
Definition available (a : avail) : bool :=
  negb (w0 a =? 0) || negb (w1 a =? 0) || negb (w2 a =? 0) || negb (w3 a =? 0).

(* `self.0[offset] & (1 << idx) != 0` *)
Definition get (a : avail) (i : N) : option bool :=
  match offset i with
  | Some (k, b) => Some (negb (N.land (word a k) (N.shiftl 1 b) =? 0))
  | None => None
  end.

(* `self.0[offset] |= off`  /  `self.0[offset] &= !off`  (complement within 128 bits = ldiff) *)
Definition set (a : avail) (i : N) (v : bool) : option avail :=
  match offset i with
  | Some (k, b) =>
      let off := N.shiftl 1 b in
      Some (set_word a k (if v then N.lor (word a k) off else N.ldiff (word a k) off))
  | None => None
  end.

Definition wf (a : avail) : Prop :=
  w0 a < 2 ^ 128 /\ w1 a < 2 ^ 128 /\ w2 a < 2 ^ 128 /\ w3 a < 2 ^ 128.

(* total versions used by the server model (indices there are < 512 by invariant; the
   out-of-range case is made visible as a Panic by the caller through `get`/`set` = None) *)
Definition getb (a : avail) (i : N) : bool := match get a i with Some b => b | None => false end.
Definition setb (a : avail) (i : N) (v : bool) : avail := match set a i v with Some a' => a' | None => a end.
