"""C05 — pause, resume and accept-error back-off never strand a listener."""
import itertools
import re

from common import Stream
from props.srvlib import (COMMON_META, srv_probe, bld_stream, compare, env_ops_of, first_fault_index, gen_scripts, in_progress, parse_case,
                          parse_trace, settled_epilogue, shrink_ops, undispatched, EPILOGUE)

META = dict(COMMON_META)
META.update({
    "id": "C05",
    "design_ref": "§5 C05, §6 D3/D6, Appendix A.4",
    "technique": "Coq proof (two inductive invariants carried through every function of the accept-loop model: the pause log / registration / "
                 "back-off bookkeeping RInv for EVERY script, kills included, and the backlog invariant BInv for fault-free scripts; state "
                 "equations for transient errors and repeated commands) + extracted model vs the real Accept over real TCP and Unix listeners "
                 "with one-shot accept-error injection and virtual time",
    "level_text": "C05_pause_safe (every script: no EvDispatch between EvPauseOn and the next EvPauseOff, the ghost events mirror the flag, paused => "
                  "every listener deregistered and without deadline); C05_registration + C05_wakeup_in_time (every script: path stays linked, each "
                  "listener is registered, or in back-off with deadline <= now+500 and poll timeout armed <= 510 and, after process_timeout, ending "
                  "no later than the deadline, or the server is paused); C05_no_strand (fault-free scripts, limit >= 1: no panic/spin, non-empty "
                  "waker queue => waker edge pending, a waiting connection on an un-paused server with a flagged worker has a registered listener "
                  "with an unreported edge or a back-off with armed timeout) and C05_no_strand_all (the same for EVERY script, worker faults included); "
                  "C05_commands_in_order + C05_last_command_wins (from any state: one handle_waker call leaves the pause flag = the fold of the "
                  "queued Pause/Resume interests, i.e. the last command issued wins); C05_server_forwards_in_order + _all_when_idle (server task, "
                  "Model/SrvStop.v: the pause()/resume() calls reach the accept thread's queue in call order, each exactly once, none lost "
                  "before a stop ends the command loop; tie: bld op Q, calls issued back to back); C05_recovers_resume (Resume + one turn) and C05_recovers_backoff "
                  "(+510 ms + two turns): the listener is registered, linked, deadline-free and its backlog empty whenever a worker is flagged; "
                  "C05_transient (accept with a pending aborted/reset/refused error EQUALS accept without it); C05_idempotent_* (Pause;Pause = "
                  "Pause, Pause while paused / Resume while running / the second of Resume;Resume are pure queue pops). All closed under the "
                  "global context. Tie: the same scripts run on the real accept loop; every snapshot (dispatches, ready tokens, flags, queues, "
                  "back-off marks, X = client could not connect) is compared, and the property predicate is evaluated on the implementation trace.",
    "level_note": "Partial: the kernel/epoll side (accept queue FIFO, edge on arrival while registered and on registration with a non-empty backlog, "
                  "AlreadyExists/NotFound on double (de)registration, accept() never answering WouldBlock while clients are queued — the "
                  "nwb_op hypothesis, whose necessity is witnessed by C05_wouldblock_witness and replayed on the real loop) is the environment "
                  "model, validated only by the correspondence runs on this kernel; the blocking poll itself (that a 510 ms timeout makes the real "
                  "thread come back) is the 10-line poll_with loop, mirrored by the Turn hook (the bld stream runs the real loop and a real EMFILE);  the bounded-time claim is in virtual time. Trusted base as C02.",
    "rule": "stream srv: model-guided random fault-free scripts with commands, injected transient/non-transient errors, direct accept-thread calls, "
            "yield schedules, a minority with Stop, listeners T/U/TU/TT/UT, settling epilogue (R T T +600 T T T); stream scen: every sequence of "
            "up to k building blocks {non-transient error, transient error, connect, Pause, Resume, turn, +250 ms, +510 ms, direct accept} on a "
            "TCP, a Unix and a mixed listener set, followed by a fresh client and the settling epilogue (quick k=3, thorough k=5). Non-trivial = "
            "the run pauses or enters a back-off. Corpus: the D3 (Unix path unlinked) and D6 (stale listener event after Pause) histories.",
})


def cmds_in(op):
    """command letters (P/R/S) an op pushes: itself, or inside its yield schedule"""
    return [e for e in env_ops_of(op) if e in ("P", "R", "S")]


TRE = re.compile(r" t(\d+|-)\s*$")


def poll_timeout(sn):
    """the loop's poll timeout (ms) printed in the diagnostics field: None = not armed"""
    m = TRE.search(sn.raw.rstrip())
    if not m or m.group(1) == "-":
        return None
    return int(m.group(1))


def c05_compare(impl, model):
    """srvlib.compare plus the poll timeout: for this property `Accept.timeout` is not an internal detail, it decides when
    the blocking poll returns and the back-off ends"""
    if not compare(impl, model):
        return False
    ti = [TRE.search(s.rstrip()) for s in impl.split(" ; ")]
    tm = [TRE.search(s.rstrip()) for s in model.split(" ; ")]
    return [m.group(1) if m else None for m in ti] == [m.group(1) if m else None for m in tm]


def c05_pred(case, trace):
    """property predicate on an IMPLEMENTATION trace; None if fine, else the reason"""
    W, L, K, ops = parse_case(case)
    snaps = parse_trace(trace)
    nf = first_fault_index(ops)
    nl = len(K)
    maybe_resume = False      # a Resume may be waiting in the waker queue
    prev_paused = False
    prev_marks = [False] * nl
    now = 0                   # virtual clock, ms
    entered = [None] * nl     # time of the error that started the current back-off episode
    rearm = [False] * nl      # another non-transient error was injected since: the deadline may have moved
    n_other = [0] * nl        # non-transient errors injected so far (top level or in a yield schedule)
    n_back = [0] * nl         # back-off episodes seen
    last_cmd = None           # last Pause/Resume issued (top level), None once that is uncertain (commands inside a yield schedule, Stop)
    certain = True
    for k, sn in enumerate(snaps):
        op = ops[k] if k < len(ops) else "?"
        if sn.bad or sn.err:
            if k < nf:
                return "op %d (%s): %s" % (k, op, sn.bad or sn.err)
            break
        # (f) commands take effect in the order they were issued: once the waker queue is drained the pause flag is that of the
        #     last Pause/Resume issued (repeated and unmatched commands are idempotent)
        if "{" in op and any(c in "PRS" for c in cmds_in(op)):
            certain = False
        elif op in ("P", "R"):
            last_cmd = op
        elif op == "S":
            certain = False
        if certain and last_cmd is not None and sn.wqlen == 0 and not sn.stopped and k < nf:
            if sn.paused != (last_cmd == "P"):
                return ("op %d (%s): the waker queue is drained, the last command issued was %s but the accept loop is %s"
                        % (k, op, "Pause" if last_cmd == "P" else "Resume", "paused" if sn.paused else "not paused"))
        if op[0] == "+":
            now += int(op[1:])
        for e in env_ops_of(op):
            if e[0] == "i" and e.endswith(":o"):
                t = int(e[1:].split(":")[0])
                if t < nl:
                    n_other[t] += 1
                    rearm[t] = True
        ds = [e for e in sn.events if e[0] == "D"]
        # (b) a client could not connect: the Unix listener's path is gone
        for e in sn.events:
            if e[0] == "X":
                return "op %d (%s): client %s could not connect — the listener became unreachable" % (k, op, e[1:])
        # (a) no dispatch while paused
        if "R" in cmds_in(op):
            maybe_resume = True
        if prev_paused and ds:
            if op[0] not in "HT":
                return "op %d (%s): dispatch %s by an operation that cannot resume, while paused" % (k, op, ds)
            if sn.paused and not maybe_resume:
                return "op %d (%s): dispatch %s while paused and no Resume was queued" % (k, op, ds)
        if sn.wqlen == 0:
            maybe_resume = False
        # (e) back-off bookkeeping
        pt = poll_timeout(sn)
        if pt is not None and pt > 510:
            return "op %d (%s): poll timeout %d ms exceeds 510 ms" % (k, op, pt)
        for t in range(min(nl, len(sn.lsts))):
            if sn.lsts[t] and not prev_marks[t]:
                n_back[t] += 1
                entered[t] = now
                rearm[t] = n_other[t] > n_back[t]     # further injected errors may still move the deadline
                if n_back[t] > n_other[t]:
                    return ("op %d (%s): listener %d entered a back-off although no non-transient error was pending "
                            "(a per-connection error delayed later connections)" % (k, op, t))
            if not sn.lsts[t]:
                entered[t] = None
            if sn.lsts[t] and pt is None and not sn.stopped:
                return "op %d (%s): listener %d is in back-off but the poll timeout is not armed: nothing will re-register it" % (k, op, t)
            if (sn.lsts[t] and entered[t] is not None and not rearm[t] and op[0] in "TO" and not sn.stopped and k < nf
                    and pt is not None and now + pt > entered[t] + 500):
                return ("op %d (%s): after process_timeout the poll timeout (%d ms) ends after the deadline of listener %d (error at %d ms, "
                        "now %d ms): the blocking poll would oversleep the back-off" % (k, op, pt, t, entered[t], now))
            if (sn.lsts[t] and entered[t] is not None and not rearm[t] and op[0] in "TO" and not sn.stopped
                    and not prev_paused and not sn.paused and now >= entered[t] + 510 and k < nf):
                return ("op %d (%s): listener %d is still in back-off %d ms after the accept error, after process_timeout ran"
                        % (k, op, t, now - entered[t]))
        prev_marks = list(sn.lsts) + [False] * (nl - len(sn.lsts))
        prev_paused = sn.paused
    # (c) nothing stays stranded: after the settling epilogue every connected client was dispatched
    if nf == len(ops) and len(snaps) == len(ops) and settled_epilogue(ops):
        last = snaps[-1]
        if (not last.bad and not last.paused and not last.stopped and not any(last.lsts)
                and any(in_progress(w) < L for w in last.workers if w["open"])):
            und = undispatched(ops, snaps)
            if und:
                return ("after the settling epilogue the server runs un-paused, no listener is in back-off and a worker has spare capacity, "
                        "but connection(s) %s were never dispatched" % sorted(und))
    return None


def finding_key(case, impl, model):
    r = c05_pred(case, impl) or ""
    if "could not connect" in r:
        return "listener-unreachable"
    if "while paused" in r:
        return "dispatch-while-paused"
    if "last command issued" in r:
        return "command-order"
    if "never dispatched" in r or "still in back-off" in r or "not armed" in r or "oversleep" in r:
        return "stranded"
    if "per-connection error" in r:
        return "transient-delays"
    return "other"


def nontrivial(case, model_trace):
    try:
        return any((not sn.bad) and (sn.paused or any(sn.lsts)) for sn in parse_trace(model_trace))
    except Exception:  # noqa: BLE001
        return False


BLOCKS = ["io", "it", "c", "P", "R", "T", "+250", "+510", "A"]


def scenario_cases(depth):
    """every sequence of <= depth blocks, on three listener sets; connection ids are numbered on the fly"""
    out = []
    for kinds, w, lim in (("T", 1, 2), ("U", 1, 2), ("UT", 2, 1)):
        nl = len(kinds)
        for n in range(1, depth + 1):
            for seq in itertools.product(BLOCKS, repeat=n):
                if not any(b in ("io", "P") for b in seq):
                    continue        # neither a pause nor a back-off: covered by C02/C03
                for tok in range(nl):
                    cid = 0
                    ops = []
                    for b in seq:
                        if b == "io":
                            ops.append("i%d:o" % tok)
                        elif b == "it":
                            ops.append("i%d:t" % tok)
                        elif b == "c":
                            cid += 1
                            ops.append("c%d:%d" % (tok, cid))
                        elif b == "A":
                            ops.append("A%d" % tok)
                        else:
                            ops.append(b)
                    # a fresh client on every listener, then settle
                    for t in range(nl):
                        cid += 1
                        ops.append("c%d:%d" % (t, cid))
                    ops += ["R"] + EPILOGUE
                    out.append("W=%d;L=%d;K=%s;ops=%s" % (w, lim, kinds, " ".join(ops)))
    return out


def mk(name, cases, describe):
    st = Stream(name, "srv", cases, compare=c05_compare,
                monitor=lambda c, i, m: c05_pred(c, i) is None,
                nontrivial=nontrivial, shrink=shrink_ops, finding_key=finding_key, describe=describe, timeout=400)
    st.probe = srv_probe      # when the traces disagree: release everything, fresh clients WITHOUT a Resume, settle
    return st


def streams(ctx):
    quick = ctx.tier == "quick"
    n = 3000 if quick else 60000
    flags = ["ciye", "ciye", "cidye", "cidye", "cidye", "cisdye", "ciy", "cid", "cie", "ie", "ce", "cidy"]
    cases = gen_scripts(ctx, n, flags, ls=(1, 2, 3))
    depth = 3 if quick else 5
    scen = scenario_cases(depth)
    return [mk("srv", cases,
               "%d generated fault-free scripts (commands, injected errors, direct calls, yields, some with Stop; T/U/TU/TT/UT) + corpus; every "
               "snapshot compared; no dispatch while paused, no unreachable listener, nothing stranded after the settling epilogue" % n),
            mk("scen", scen,
               "all %d sequences of <= %d blocks of {error, transient error, connect, Pause, Resume, turn, +250, +510, accept} that pause or back "
               "off, on T / U / UT listeners, then a fresh client per listener and the settling epilogue" % (len(scen), depth)),
            bld_stream(ctx, ("C05",), ["c", "cq", "ciq", "ci", "i", "cq", "cz", "cs"], 80, 1500)]
