//! Correspondence harness for the actix-server worker (C06, C07).
//!
//! `h_worker wrk`  : one case per stdin line -> one trace per stdout line (same text as
//!                   ocaml/worker/driver.ml prints for the Coq model `Model/Wrk.v`).
//!                   The REAL `ServerWorker` future (built by the cfg(actix_net_verif) hook
//!                   `actix_server::verif::in_thread`) is polled by hand inside a `LocalSet` on a
//!                   current-thread Tokio runtime whose clock is paused.
//! `h_worker e2e`  : one end-to-end scenario of the whole public `Server` per line (real time,
//!                   real threads), see e2e.rs.
//!
//! Case  :=  cfg ';' ops
//!   cfg :=  'L=' limit ',T=' shutdown_timeout_ms ',S=' svc ('/' svc)*
//!   svc :=  [POE]* ':' [poe]*            readiness script : create script (of its factory)
//!   ops :=  op (' ' op)*
//!   op  :=  'c' tok '.' cid   PushConn  (accept side: pending inc, send)
//!        |  'i'               AcceptInc (the delayed `inc_counter`)
//!        |  'sg' | 'sf'       PushStop graceful / forced
//!        |  'p'               PollW
//!        |  'f' cid           Finish (the service future of connection cid completes)
//!        |  'a' ms            Advance the (virtual) clock
//!        |  'x'               CloseConn (the accept side drops its handle)
//!        |  'y'               CloseStop (the server side drops its stop handle)
//! Trace :=  seg ('|' seg)*  ' ## ' diag ('|' diag)*      one seg per executed op
//!   seg events, in this order: main events in execution order
//!        r<k><O|P|E> poll_ready of service k      k<svc>.<cid> call      n<f> new_service of factory f
//!        q<f><o|p|e> poll of the create future    D worker future resolved    !<kind> panic
//!   then W<n> (n WorkerAvailable interests pushed), then A<sid><t|f> / X<sid> (stop ack / ack sender
//!   dropped) sorted by sid, then R<cid> (peer saw the connection closed) sorted by cid.
//!   diag (internal values, never part of the verdict): <state>:<raw counter>:<queued>
use std::{
    cell::RefCell,
    collections::{HashMap, VecDeque},
    future::Future,
    io::{self, BufRead, Read, Write},
    net::{TcpListener, TcpStream as StdTcpStream},
    os::fd::{AsRawFd, RawFd},
    panic::{self, AssertUnwindSafe},
    pin::Pin,
    sync::Arc,
    task::{Context, Poll, Wake, Waker},
    time::Duration,
};

use actix_rt::net::TcpStream;
use actix_server::verif::{self, FactoryBox, MioStream, Stepped};
use actix_service::{Service, ServiceFactory};
use futures_core::future::LocalBoxFuture;
use tokio::sync::oneshot;

mod e2e;

// ------------------------------------------------------------------------------------------
// per-case context shared with the scripted services (everything runs on one thread)
// ------------------------------------------------------------------------------------------
#[derive(Default)]
struct CaseCtx {
    started: bool,
    ready: Vec<VecDeque<u8>>,
    create: Vec<VecDeque<u8>>,
    log: Vec<String>,
    port2cid: HashMap<u16, usize>,
    finish: HashMap<usize, oneshot::Sender<()>>,
}

thread_local! {
    static CTX: RefCell<CaseCtx> = RefCell::new(CaseCtx::default());
    static PANIC_MSG: RefCell<Option<String>> = RefCell::new(None);
}

fn logev(s: String) {
    CTX.with(|c| c.borrow_mut().log.push(s));
}

struct ScriptedService {
    idx: usize,
}

impl Service<TcpStream> for ScriptedService {
    type Response = ();
    type Error = ();
    type Future = LocalBoxFuture<'static, Result<(), ()>>;

    fn poll_ready(&self, _: &mut Context<'_>) -> Poll<Result<(), ()>> {
        let a = CTX.with(|c| {
            let mut c = c.borrow_mut();
            let a = c.ready[self.idx].pop_front().unwrap_or(b'O');
            c.log.push(format!("r{}{}", self.idx, a as char));
            a
        });
        match a {
            b'P' => Poll::Pending,
            b'O' => Poll::Ready(Ok(())),
            _ => Poll::Ready(Err(())),
        }
    }

    fn call(&self, stream: TcpStream) -> Self::Future {
        let port = stream.peer_addr().map(|a| a.port()).unwrap_or(0);
        let (tx, rx) = oneshot::channel::<()>();
        let idx = self.idx;
        CTX.with(|c| {
            let mut c = c.borrow_mut();
            match c.port2cid.get(&port).copied() {
                Some(cid) => {
                    c.log.push(format!("k{}.{}", idx, cid));
                    c.finish.insert(cid, tx);
                }
                None => c.log.push(format!("k{}.?", idx)),
            }
        });
        Box::pin(async move {
            // the connection is "in progress" until the script finishes it
            let _ = rx.await;
            drop(stream);
            Ok(())
        })
    }
}

#[derive(Clone)]
struct ScriptedFactory {
    idx: usize,
}

struct CreateFut {
    idx: usize,
    initial: bool,
}

impl Future for CreateFut {
    type Output = Result<ScriptedService, ()>;

    fn poll(self: Pin<&mut Self>, _: &mut Context<'_>) -> Poll<Self::Output> {
        if self.initial {
            return Poll::Ready(Ok(ScriptedService { idx: self.idx }));
        }
        let idx = self.idx;
        let a = CTX.with(|c| {
            let mut c = c.borrow_mut();
            let a = c.create[idx].pop_front().unwrap_or(b'o');
            c.log.push(format!("q{}{}", idx, a as char));
            a
        });
        match a {
            b'p' => Poll::Pending,
            b'o' => Poll::Ready(Ok(ScriptedService { idx })),
            _ => Poll::Ready(Err(())),
        }
    }
}

impl ServiceFactory<TcpStream> for ScriptedFactory {
    type Response = ();
    type Error = ();
    type Config = ();
    type Service = ScriptedService;
    type InitError = ();
    type Future = CreateFut;

    fn new_service(&self, _: ()) -> Self::Future {
        let started = CTX.with(|c| c.borrow().started);
        if started {
            logev(format!("n{}", self.idx));
        }
        CreateFut {
            idx: self.idx,
            initial: !started,
        }
    }
}

// ------------------------------------------------------------------------------------------
// case parsing
// ------------------------------------------------------------------------------------------
enum Op {
    Push(usize, usize),
    Inc,
    Stop(bool),
    PollW,
    Finish(usize),
    Advance(u64),
    Close,
    CloseStop,
}

struct Cfg {
    limit: usize,
    timeout_ms: u64,
    svcs: Vec<(Vec<u8>, Vec<u8>)>,
}

fn parse(line: &str) -> Option<(Cfg, Vec<Op>)> {
    let (c, o) = line.split_once(';')?;
    let mut limit = None;
    let mut timeout = None;
    let mut svcs = None;
    for kv in c.split(',') {
        let (k, v) = kv.split_once('=')?;
        match k {
            "L" => limit = v.parse().ok(),
            "T" => timeout = v.parse().ok(),
            "S" => {
                let mut l = Vec::new();
                for s in v.split('/') {
                    let (r, f) = s.split_once(':')?;
                    if !r.bytes().all(|b| b"POE".contains(&b)) || !f.bytes().all(|b| b"poe".contains(&b)) {
                        return None;
                    }
                    l.push((r.as_bytes().to_vec(), f.as_bytes().to_vec()));
                }
                svcs = Some(l);
            }
            _ => return None,
        }
    }
    let mut ops = Vec::new();
    for t in o.split(' ').filter(|t| !t.is_empty()) {
        let op = match t {
            "i" => Op::Inc,
            "sg" => Op::Stop(true),
            "sf" => Op::Stop(false),
            "p" => Op::PollW,
            "x" => Op::Close,
            "y" => Op::CloseStop,
            _ => match t.as_bytes()[0] {
                b'c' => {
                    let (a, b) = t[1..].split_once('.')?;
                    Op::Push(a.parse().ok()?, b.parse().ok()?)
                }
                b'f' => Op::Finish(t[1..].parse().ok()?),
                b'a' => Op::Advance(t[1..].parse().ok()?),
                _ => return None,
            },
        };
        ops.push(op);
    }
    Some((
        Cfg {
            limit: limit?,
            timeout_ms: timeout?,
            svcs: svcs?,
        },
        ops,
    ))
}

// ------------------------------------------------------------------------------------------
// driving the real worker
// ------------------------------------------------------------------------------------------
struct Noop;
impl Wake for Noop {
    fn wake(self: Arc<Self>) {}
}

struct ConnRec {
    cid: usize,
    client: StdTcpStream,
    fd: RawFd,
    released: bool,
}

/// many thousand short-lived loopback connections per second can exhaust the ephemeral ports for a moment
fn connect_retry(addr: std::net::SocketAddr) -> StdTcpStream {
    let mut tries = 0;
    loop {
        match StdTcpStream::connect(addr) {
            Ok(c) => return c,
            Err(e) if tries < 600 && matches!(e.kind(), io::ErrorKind::AddrNotAvailable | io::ErrorKind::AddrInUse) => {
                tries += 1;
                std::thread::sleep(Duration::from_millis(50));
            }
            Err(e) => panic!("connect: {e}"),
        }
    }
}

fn fd_closed(fd: RawFd) -> bool {
    // SAFETY: F_GETFD has no side effect
    unsafe { libc::fcntl(fd, libc::F_GETFD) == -1 }
}

/// the worker-side socket is closed; confirm that the peer observes it (EOF or reset)
fn peer_sees_close(c: &mut StdTcpStream) -> bool {
    let _ = c.set_nonblocking(false);
    let _ = c.set_read_timeout(Some(Duration::from_secs(20)));
    let mut b = [0u8; 8];
    let r = match c.read(&mut b) {
        Ok(0) => true,
        Ok(_) => false,
        Err(e) => matches!(
            e.kind(),
            io::ErrorKind::ConnectionReset | io::ErrorKind::ConnectionAborted | io::ErrorKind::BrokenPipe
        ),
    };
    let _ = c.set_nonblocking(true);
    r
}

fn panic_kind() -> &'static str {
    let m = PANIC_MSG.with(|m| m.borrow_mut().take()).unwrap_or_default();
    if m.contains("Can not restart") {
        "restart"
    } else if m.contains("subtract with overflow") {
        "overflow"
    } else if m.contains("index out of bounds") {
        "index"
    } else if m.contains("left == right") {
        "assert"
    } else {
        "other"
    }
}

async fn drive(cfg: Cfg, ops: Vec<Op>, listener: &TcpListener) -> String {
    let (_poll, wq) = Stepped::poll_and_queue().expect("mio poll");
    let addr = listener.local_addr().unwrap();
    let n = cfg.svcs.len();
    let factories: Vec<FactoryBox> = (0..n)
        // names as `ServerBuilder::bind(name, several addresses, ..)` gives them: neighbouring services share one name
        .map(|i| FactoryBox::tcp(&format!("s{}", i / 2), i, move || ScriptedFactory { idx: i }, addr))
        .collect();
    let (worker, accept, stop) = match verif::in_thread(
        0,
        factories,
        &wq,
        cfg.limit,
        Duration::from_millis(cfg.timeout_ms),
    )
    .await
    {
        Ok(x) => x,
        Err(i) => return format!("STARTFAIL{i}"),
    };
    CTX.with(|c| c.borrow_mut().started = true);
    let mut worker = Some(worker);
    let mut accept = Some(accept);
    let mut stop = Some(stop);
    let waker = Waker::from(Arc::new(Noop));
    let t0 = tokio::time::Instant::now();
    let mut virt: u64 = 0;
    let mut gap = false;
    let mut conns: Vec<ConnRec> = Vec::new();
    let mut stops: Vec<(usize, oneshot::Receiver<bool>, bool)> = Vec::new();
    let mut segs: Vec<String> = Vec::new();
    let mut diags: Vec<String> = Vec::new();
    let mut finished = false;
    let mut panicked = false;

    for op in ops {
        if finished {
            break;
        }
        match op {
            Op::Push(tok, cid) => {
                if let Some(h) = accept.as_ref() {
                    let client = connect_retry(addr);
                    let (server, _) = listener.accept().expect("accept");
                    client.set_nonblocking(true).unwrap();
                    server.set_nonblocking(true).unwrap();
                    let port = client.local_addr().unwrap().port();
                    CTX.with(|c| c.borrow_mut().port2cid.insert(port, cid));
                    let fd = server.as_raw_fd();
                    let io = MioStream::Tcp(mio::net::TcpStream::from_std(server));
                    // the accept thread is sequential: the previous dispatch's inc comes first
                    if gap {
                        verif::inc_counter(h);
                    }
                    if !verif::send(h, tok, io) {
                        logev("sendfail".into());
                    }
                    gap = true;
                    conns.push(ConnRec {
                        cid,
                        client,
                        fd,
                        released: false,
                    });
                }
            }
            Op::Inc => {
                if gap {
                    if let Some(h) = accept.as_ref() {
                        verif::inc_counter(h);
                    }
                    gap = false;
                }
            }
            Op::Stop(g) => {
                if let Some(h) = stop.as_ref() {
                    let sid = stops.len();
                    stops.push((sid, h.stop(g), false));
                }
            }
            Op::CloseStop => {
                stop = None;
            }
            Op::PollW => {
                let mut cx = Context::from_waker(&waker);
                let w = worker.as_mut().unwrap();
                let r = panic::catch_unwind(AssertUnwindSafe(|| Pin::new(&mut *w).poll(&mut cx)));
                match r {
                    Ok(Poll::Pending) => {}
                    Ok(Poll::Ready(())) => {
                        logev("D".into());
                        finished = true;
                    }
                    Err(_) => {
                        logev(format!("!{}", panic_kind()));
                        finished = true;
                        panicked = true;
                    }
                }
            }
            Op::Finish(cid) => {
                let tx = CTX.with(|c| c.borrow_mut().finish.remove(&cid));
                if let Some(tx) = tx {
                    let _ = tx.send(());
                }
            }
            Op::Advance(ms) => {
                if ms > 0 {
                    tokio::time::advance(Duration::from_millis(ms)).await;
                    virt += ms;
                }
            }
            Op::Close => {
                // the accept thread exits only after its last dispatch is complete
                if gap {
                    if let Some(h) = accept.as_ref() {
                        verif::inc_counter(h);
                    }
                    gap = false;
                }
                accept = None;
            }
        }
        // let spawned connection tasks run
        tokio::task::yield_now().await;
        // diagnostics are read before the finished worker is dropped
        if let Some(w) = worker.as_ref() {
            if panicked {
                diags.push("panicked".into());
            } else {
                let st = if finished { "Done" } else { w.state_name() };
                diags.push(format!("{}:{}:{}", st, w.raw_counter(), w.queued()));
            }
        }
        if finished {
            // the task that owned the worker future ends: the future is dropped
            let w = worker.take();
            let _ = panic::catch_unwind(AssertUnwindSafe(move || drop(w)));
        }

        let mut seg: Vec<String> = CTX.with(|c| std::mem::take(&mut c.borrow_mut().log));
        if tokio::time::Instant::now() - t0 != Duration::from_millis(virt) {
            seg.push("!clock".into());
        }
        let wakes = verif::take_worker_available(&wq).len();
        if !panicked {
            if wakes > 0 {
                seg.push(format!("W{wakes}"));
            }
            for (sid, rx, done) in stops.iter_mut() {
                if *done {
                    continue;
                }
                match rx.try_recv() {
                    Ok(b) => {
                        seg.push(format!("A{}{}", sid, if b { 't' } else { 'f' }));
                        *done = true;
                    }
                    Err(oneshot::error::TryRecvError::Closed) => {
                        seg.push(format!("X{sid}"));
                        *done = true;
                    }
                    Err(oneshot::error::TryRecvError::Empty) => {}
                }
            }
            let mut rel: Vec<(usize, bool)> = Vec::new();
            for c in conns.iter_mut() {
                if !c.released && fd_closed(c.fd) {
                    c.released = true;
                    rel.push((c.cid, peer_sees_close(&mut c.client)));
                }
            }
            rel.sort();
            for (cid, ok) in rel {
                seg.push(if ok { format!("R{cid}") } else { format!("R{cid}?") });
            }
        }
        segs.push(seg.join(" "));
    }
    drop(worker);
    drop(accept);
    drop(stop);
    format!("{} ## {}", segs.join("|"), diags.join("|"))
}

fn run_case(line: &str, listener: &TcpListener) -> String {
    let (cfg, ops) = match parse(line) {
        Some(x) => x,
        None => return "BADCASE".into(),
    };
    if cfg.svcs.len() > 64 {
        return "BADCASE".into();
    }
    CTX.with(|c| {
        let mut c = c.borrow_mut();
        *c = CaseCtx::default();
        c.ready = cfg.svcs.iter().map(|(r, _)| r.iter().copied().collect()).collect();
        c.create = cfg.svcs.iter().map(|(_, f)| f.iter().copied().collect()).collect();
    });
    let rt = tokio::runtime::Builder::new_current_thread()
        .enable_all()
        .start_paused(true)
        .build()
        .unwrap();
    let ls = tokio::task::LocalSet::new();
    let out = ls.block_on(&rt, drive(cfg, ops, listener));
    // "arbiter teardown": the local set and the runtime go away with the tasks still in progress
    drop(ls);
    drop(rt);
    CTX.with(|c| *c.borrow_mut() = CaseCtx::default());
    out
}

// ------------------------------------------------------------------------------------------
// join_all: "n;poll|poll|..." ; poll = "i=v,i=v" = inputs that complete before that poll (v in t,f,x)
// trace: per poll "p<i>+|- ... <result>", result = "-" (Pending) or "=" values in output order
// ------------------------------------------------------------------------------------------
struct ScriptedInput {
    i: usize,
    st: Arc<std::sync::Mutex<(Vec<Option<char>>, Vec<String>)>>,
}

impl Future for ScriptedInput {
    type Output = char;

    fn poll(self: Pin<&mut Self>, _: &mut Context<'_>) -> Poll<char> {
        let mut st = self.st.lock().unwrap();
        match st.0[self.i] {
            Some(v) => {
                st.1.push(format!("p{}+", self.i));
                Poll::Ready(v)
            }
            None => {
                st.1.push(format!("p{}-", self.i));
                Poll::Pending
            }
        }
    }
}

fn join_case(line: &str) -> String {
    let Some((n, polls)) = line.split_once(';') else { return "BADCASE".into() };
    let Ok(n) = n.parse::<usize>() else { return "BADCASE".into() };
    if n > 64 {
        return "BADCASE".into();
    }
    let st = Arc::new(std::sync::Mutex::new((vec![None; n], Vec::new())));
    let futs: Vec<futures_core::future::BoxFuture<'static, char>> = (0..n)
        .map(|i| Box::pin(ScriptedInput { i, st: st.clone() }) as _)
        .collect();
    let mut jf = verif::join_all_boxed(futs);
    let waker = Waker::from(Arc::new(Noop));
    let mut cx = Context::from_waker(&waker);
    let mut segs = Vec::new();
    for p in polls.split('|') {
        for kv in p.split(',').filter(|x| !x.is_empty()) {
            let Some((i, v)) = kv.split_once('=') else { return "BADCASE".into() };
            let (Ok(i), Some(v)) = (i.parse::<usize>(), v.chars().next()) else { return "BADCASE".into() };
            if i >= n || !"tfx".contains(v) {
                return "BADCASE".into();
            }
            st.lock().unwrap().0[i] = Some(v);
        }
        let r = Pin::new(&mut jf).poll(&mut cx);
        let mut seg: Vec<String> = std::mem::take(&mut st.lock().unwrap().1);
        match r {
            Poll::Pending => {
                seg.push("-".into());
                segs.push(seg.join(" "));
            }
            Poll::Ready(v) => {
                seg.push(format!("={}", v.into_iter().collect::<String>()));
                segs.push(seg.join(" "));
                break;
            }
        }
    }
    segs.join("|")
}

fn main() {
    let mode = std::env::args().nth(1).expect("mode");
    let stdin = io::stdin();
    let stdout = io::stdout();
    let mut out = io::BufWriter::new(stdout.lock());
    match mode.as_str() {
        "wrk" => {
            panic::set_hook(Box::new(|info| {
                let s = info.to_string();
                PANIC_MSG.with(|m| *m.borrow_mut() = Some(s));
            }));
            let listener = TcpListener::bind("127.0.0.1:0").expect("bind");
            for line in stdin.lock().lines() {
                let line = line.unwrap();
                let r = panic::catch_unwind(AssertUnwindSafe(|| run_case(&line, &listener)))
                    .unwrap_or_else(|_| format!("HARNESS-PANIC {}", PANIC_MSG.with(|m| m.borrow_mut().take()).unwrap_or_default().replace('\n', " ")));
                writeln!(out, "{}", r).unwrap();
                out.flush().unwrap();
            }
        }
        "join" => {
            for line in stdin.lock().lines() {
                let line = line.unwrap();
                let r = panic::catch_unwind(AssertUnwindSafe(|| join_case(&line))).unwrap_or_else(|_| "HARNESS-PANIC".into());
                writeln!(out, "{}", r).unwrap();
                out.flush().unwrap();
            }
        }
        "e2e_child" => {
            drop(out);
            e2e::child();
        }
        "e2e" => {
            for line in stdin.lock().lines() {
                let line = line.unwrap();
                let r = e2e::run(&line);
                writeln!(out, "{}", r).unwrap();
                out.flush().unwrap();
            }
        }
        m => panic!("unknown mode {m}"),
    }
}
