#!/usr/bin/env python3
"""Confirm an independently written seeded change in its scratch worktree and file it under /verif/seeded/<name>/:
   python3 vp/seed_confirm.py <ID> <name> <crate> [--features f] [--checks C01,C02]
 expects /tmp/seed_<ID> (worktree with the change applied and the demo test in <crate>/tests/seeded_demo.rs) and
 /tmp/seed_<ID>_out/{patch.diff,demo.rs,meta.json}. Confirms (a) the existing tests of the crate pass with the change,
 (b) the demo fails with it, (c) the demo passes without it; then stores patch/demo/meta, removes the worktree and runs the
 named checks against the patch with vp/seeded_eval.py."""
import json
import os
import shutil
import subprocess
import sys

ROOT = os.path.dirname(os.path.dirname(os.path.abspath(__file__)))


def run(cmd, cwd, timeout=1500):
    p = subprocess.run(cmd, cwd=cwd, shell=True, capture_output=True, text=True, timeout=timeout)
    return p.returncode, p.stdout + p.stderr


def summ(out):
    return [l for l in out.split("\n") if l.startswith("test result") or "FAILED" in l or "panicked" in l][:12]


def main():
    a = sys.argv[1:]
    pid, name, crate = a[0], a[1], a[2]
    feats = ""
    checks = [pid]
    if "--features" in a:
        feats = " --features " + a[a.index("--features") + 1]
    if "--checks" in a:
        checks = a[a.index("--checks") + 1].split(",")
    wt = "/tmp/seed_%s" % pid
    out = "/tmp/seed_%s_out" % pid
    demo = os.path.join(wt, crate, "tests", "seeded_demo.rs")
    if not os.path.exists(demo):
        cands = [f for f in os.listdir(os.path.join(wt, crate, "tests")) if "seed" in f or "demo" in f]
        print("demo file not at the default place; candidates:", cands)
        demo = os.path.join(wt, crate, "tests", cands[0])
    demoname = os.path.basename(demo)[:-3]
    run("git diff -- . ':!*/tests/*' > /tmp/seedc_%s.diff" % pid, wt)
    patch = open("/tmp/seedc_%s.diff" % pid).read()
    if not patch.strip():
        print("no library change in worktree")
        return 2
    files = [l[6:] for l in patch.split("\n") if l.startswith("+++ b/")]
    print("changed files:", files)
    res = {}
    shutil.move(demo, "/tmp/seedc_%s_demo.rs" % pid)
    rc, o = run("cargo test -p %s --offline%s" % (crate, feats), wt)
    res["existing_tests_with_change"] = {"rc": rc, "summary": summ(o)}
    shutil.move("/tmp/seedc_%s_demo.rs" % pid, demo)
    rc, o = run("timeout 300 cargo test -p %s --offline%s --test %s" % (crate, feats, demoname), wt)
    res["demo_with_change"] = {"rc": rc, "summary": summ(o)}
    run("git checkout -- " + " ".join(files), wt)
    rc, o = run("timeout 300 cargo test -p %s --offline%s --test %s" % (crate, feats, demoname), wt)
    res["demo_without_change"] = {"rc": rc, "summary": summ(o)}
    run("git apply /tmp/seedc_%s.diff" % pid, wt)
    ok = res["existing_tests_with_change"]["rc"] == 0 and res["demo_with_change"]["rc"] != 0 and res["demo_without_change"]["rc"] == 0
    print(json.dumps(res, indent=1))
    print("CONFIRMED" if ok else "NOT CONFIRMED")
    if not ok:
        return 1
    d = os.path.join(ROOT, "seeded", name)
    os.makedirs(d, exist_ok=True)
    open(os.path.join(d, "patch.diff"), "w").write(patch)
    shutil.copy(demo, os.path.join(d, "demo.rs"))
    meta = {}
    try:
        meta = json.load(open(os.path.join(out, "meta.json")))
    except Exception:  # noqa: BLE001
        pass
    meta["confirmed_by_orchestrator"] = dict(res, where="scratch worktree %s (removed afterwards)" % wt)
    json.dump(meta, open(os.path.join(d, "meta.json"), "w"), indent=1)
    subprocess.run(["git", "-C", "/repo", "worktree", "remove", "--force", wt])
    shutil.rmtree(out, ignore_errors=True)
    subprocess.run([sys.executable, os.path.join(ROOT, "vp", "seeded_eval.py"), d] + checks)
    r = json.load(open(os.path.join(d, "result.json")))
    for c in checks:
        print(c, "exit", r[c]["exit"], [(x.get("kind"), x.get("case"), x.get("no_failing_input_found")) for x in r[c]["replays"]][:3], r[c]["stderr_tail"][:200])
    return 0


if __name__ == "__main__":
    sys.exit(main())
