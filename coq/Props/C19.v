(* Props/C19.v — Connector: resolution precedence, ordered fallback, hostname-verified TLS.
   ONLY statements, each closed by `exact <lemma>`, non-vacuity Examples, Print Assumptions.

   PARTIAL by nature: IP-literal parsing (`str::parse::<IpAddr>`), the resolver's answer, the
   outcome of every TCP connect and the TLS library's verdict are universally quantified
   oracles (`parse_ip`, `lookup`, `dial`, `name_ok`, `handshake_ok`).  What is proved is the
   logic that is actix-tls's own, for every value of the oracles, every request and every
   address list (no bounds).  Pending/Ready interleavings of the futures are abstracted:
   each future of connect/ is modelled run to completion. *)
From AN Require Import Model.Connect Proofs.ConnectFacts.
From Coq Require Import Lia.

(* A request that already carries addresses is never re-resolved: the resolver service returns
   the request unchanged without asking anybody, and every event of the whole connect is a TCP
   connect to one of the request's own addresses (with the request's local bind address). *)
Theorem C19_no_reresolve :
  forall (parse_ip : str -> option ip) (lookup : str -> Z -> lookup_ans)
         (dial : nat -> sockaddr -> option ip -> dial_ans) (c : cinfo),
  ci_addr c <> ANone ->
  resolve parse_ip lookup c = ([], ROk c)
  /\ connect parse_ip lookup dial c = tcp_connect dial c
  /\ (forall e, In e (fst (connect parse_ip lookup dial c)) ->
        exists a, e = EDial a (ci_local c) /\ In a (ci_addrs c)).
Proof. exact no_reresolve. Qed.

(* An IP-literal host is dialled directly at the request's port: no resolver call, exactly one
   connect, to (ip, port()), and its outcome is the outcome of the call. *)
Theorem C19_ip_literal :
  forall (parse_ip : str -> option ip) (lookup : str -> Z -> lookup_ans)
         (dial : nat -> sockaddr -> option ip -> dial_ans) (c : cinfo) (i : ip),
  ci_addr c = ANone -> parse_ip (ci_hostname c) = Some i ->
  let a := (i, ci_get_port c) in
  resolve parse_ip lookup c = ([], ROk (mkci (ci_req c) (ci_port c) (AOne a) (ci_local c)))
  /\ connect parse_ip lookup dial c =
       ([EDial a (ci_local c)],
        match dial 0%nat a (ci_local c) with
        | DOk s => ROk (ci_req c, s)
        | DFail e => RErr (ErrIo e)
        end).
Proof. exact ip_literal. Qed.

(* Any other host goes through the configured resolver, which is asked exactly once, for
   (hostname, port()); failure => Resolver, empty answer => NoRecords, otherwise the answer
   becomes the address list that is dialled. *)
Theorem C19_lookup :
  forall (parse_ip : str -> option ip) (lookup : str -> Z -> lookup_ans)
         (dial : nat -> sockaddr -> option ip -> dial_ans) (c : cinfo),
  ci_addr c = ANone -> parse_ip (ci_hostname c) = None ->
  let q := ELookup (ci_hostname c) (ci_get_port c) in
  connect parse_ip lookup dial c =
    match lookup (ci_hostname c) (ci_get_port c) with
    | LFail => ([q], RErr ErrResolver)
    | LJoin e => ([q], RErr (ErrIo e))
    | LOk [] => ([q], RErr ErrNoRecords)
    | LOk l => let '(e2, r) := tcp_connect dial (set_addrs c l) in (q :: e2, r)
    end.
Proof. exact lookup_once. Qed.

(* ... and the answer is dialled as it is *)
Theorem C19_lookup_addrs : forall c l, ci_addrs (set_addrs c l) = l.
Proof. exact addrs_set_addrs. Qed.

(* number of resolver calls of a connect, in all three cases *)
Theorem C19_lookup_count :
  forall (parse_ip : str -> option ip) (lookup : str -> Z -> lookup_ans)
         (dial : nat -> sockaddr -> option ip -> dial_ans) (c : cinfo),
  filter is_lookup (fst (connect parse_ip lookup dial c)) =
    if is_resolved (ci_addr c) then []
    else match parse_ip (ci_hostname c) with
         | Some _ => []
         | None => [ELookup (ci_hostname c) (ci_get_port c)]
         end.
Proof. exact lookup_count. Qed.

(* unresolved input to the TCP connector *)
Theorem C19_unresolved :
  forall (dial : nat -> sockaddr -> option ip -> dial_ans) (c : cinfo),
  ci_addr c = ANone -> tcp_connect dial c = ([], RErr ErrUnresolved).
Proof. exact tcp_connect_unresolved. Qed.

(* Ordered fallback, complete description: the connector stops at some position k of the
   address list; it has started connects to exactly the first k+1 addresses, in order; all
   before k failed; it returns the k-th connection (with the request), or — only if k is the
   LAST position — the k-th, i.e. last, I/O error.  It never panics. *)
Theorem C19_first_success :
  forall (dial : nat -> sockaddr -> option ip -> dial_ans) (c : cinfo) evs r,
  wf_addrs (ci_addr c) = true -> ci_addr c <> ANone ->
  tcp_connect dial c = (evs, r) ->
  exists k x, nth_error (ci_addrs c) k = Some x
    /\ evs = map (fun a => EDial a (ci_local c)) (firstn (S k) (ci_addrs c))
    /\ (forall j y, (j < k)%nat -> nth_error (ci_addrs c) j = Some y ->
                    exists e, dial j y (ci_local c) = DFail e)
    /\ match r with
       | ROk (req, s) => req = ci_req c /\ dial k x (ci_local c) = DOk s
       | RErr e => S k = length (ci_addrs c)
                   /\ exists e', dial k x (ci_local c) = DFail e' /\ e = ErrIo e'
       | RPanic => False
       end.
Proof. exact tcp_connect_spec. Qed.

(* forward forms of the same fact *)
Theorem C19_first_success_wins :
  forall (dial : nat -> sockaddr -> option ip -> dial_ans) (c : cinfo) pre a post s,
  wf_addrs (ci_addr c) = true ->
  ci_addrs c = pre ++ a :: post ->
  (forall j y, nth_error pre j = Some y -> exists e, dial j y (ci_local c) = DFail e) ->
  dial (length pre) a (ci_local c) = DOk s ->
  tcp_connect dial c = (map (fun a => EDial a (ci_local c)) (pre ++ [a]), ROk (ci_req c, s)).
Proof. exact tcp_connect_first_success. Qed.

Theorem C19_all_fail_last_error :
  forall (dial : nat -> sockaddr -> option ip -> dial_ans) (c : cinfo) e d,
  wf_addrs (ci_addr c) = true -> ci_addrs c <> [] ->
  (forall j y, nth_error (ci_addrs c) j = Some y -> exists e', dial j y (ci_local c) = DFail e') ->
  dial (pred (length (ci_addrs c))) (last (ci_addrs c) d) (ci_local c) = DFail e ->
  tcp_connect dial c = (map (fun a => EDial a (ci_local c)) (ci_addrs c), RErr (ErrIo e)).
Proof. exact tcp_connect_all_fail. Qed.

(* every request built with the public API satisfies wf_addrs, so the `unwrap` in
   TcpConnectorFut::new cannot fail and the whole connector never panics *)
Theorem C19_api_wf : forall req k ops, wf_addrs (ci_addr (build req k ops)) = true.
Proof. exact wf_build. Qed.
Theorem C19_no_panic :
  forall (parse_ip : str -> option ip) (lookup : str -> Z -> lookup_ans)
         (dial : nat -> sockaddr -> option ip -> dial_ans) (c : cinfo) evs,
  wf_addrs (ci_addr c) = true -> connect parse_ip lookup dial c <> (evs, RPanic).
Proof. exact connect_never_panics. Qed.

(* What a builder script leaves in the request: port() is the request's own port if it has one,
   else the last set_port (0 if none — also after with_addr); addresses are those of the last
   set_addr/set_addrs (else the constructor's); local address the last set_local_addr. *)
Theorem C19_info : forall req k ops,
  ci_hostname (build req k ops) = hostname req
  /\ ci_get_port (build req k ops) = match port req with Some p => p | None => last_port ops 0 end
  /\ ci_addrs (build req k ops) = last_addrs ops (ctor_addrs k)
  /\ ci_local (build req k ops) = last_local ops None.
Proof. exact build_fields. Qed.

(* The port that is dialled (IP literal) or handed to the resolver (other hosts) is port(). *)
Theorem C19_port :
  forall (parse_ip : str -> option ip) (lookup : str -> Z -> lookup_ans)
         (dial : nat -> sockaddr -> option ip -> dial_ans) (req : str) (k : ctor) (ops : list bop),
  let c := build req k ops in
  let p := match port req with Some p => p | None => last_port ops 0 end in
  ci_addr c = ANone ->
  (forall i, parse_ip (hostname req) = Some i ->
     fst (connect parse_ip lookup dial c) = [EDial (i, p) (last_local ops None)])
  /\ (parse_ip (hostname req) = None ->
      exists rest, fst (connect parse_ip lookup dial c) = ELookup (hostname req) p :: rest
                   /\ filter is_lookup rest = []).
Proof. exact port_used. Qed.

(* Host parsing: split at the FIRST ':'; reconstruction; the port is the u16 parse of the rest. *)
Theorem C19_host_parse : forall s,
  (~ In 58 s /\ hostname s = s /\ port s = None)
  \/ (exists r, s = hostname s ++ 58 :: r /\ ~ In 58 (hostname s) /\ port s = parse_u16 r).
Proof. exact host_parse. Qed.

(* the u16 grammar of Rust's FromStr: one optional '+', then >= 1 decimal digits (leading zeros
   allowed), value <= 65535; nothing else ('-', blanks, empty, lone sign, overflow are errors) *)
Theorem C19_u16 : forall s n,
  parse_u16 s = Some n <->
  exists ds, (s = ds \/ s = 43 :: ds) /\ ds <> [] /\ Forall (fun c => 48 <= c <= 57) ds
             /\ fold_left (fun a c => a * 10 + (c - 48)) ds 0 = n /\ n <= 65535.
Proof. exact parse_u16_spec. Qed.

(* The TLS connector services: the only name handed to the TLS library is the request's
   hostname (never an address, never with the port); the result is Ok iff the library accepts
   the name and the handshake verifies the peer for that name; a name the library rejects
   gives InvalidInput without any handshake (for OpenSSL since the fix: commit 0777ede in /repo;
   before it `expect` panicked for empty / over-long / NUL names, see notes/tls.md). *)
Theorem C19_tls_name :
  forall (name_ok : tls_backend -> str -> bool) (handshake_ok : tls_backend -> Z -> str -> bool)
         (b : tls_backend) (req : str) (conn : Z) evs r,
  tls_connect name_ok handshake_ok b req conn = (evs, r) ->
  (forall n, In (ETlsName n) evs -> n = hostname req /\ ~ In 58 n)
  /\ (forall s, r = TOk s <->
        s = conn /\ name_ok b (hostname req) = true /\ handshake_ok b conn (hostname req) = true)
  /\ (name_ok b (hostname req) = false -> evs = [] /\ r = TErrInvalidInput).
Proof. exact tls_name. Qed.

(* whole pipeline Connector + TlsConnector, for all oracles *)
Theorem C19_tls_pipeline_name :
  forall parse_ip lookup dial name_ok handshake_ok (b : tls_backend) (c : cinfo) n,
  In (ETlsName n) (fst (connect_tls parse_ip lookup dial name_ok handshake_ok b c)) ->
  n = ci_hostname c /\ ~ In 58 n.
Proof. exact connect_tls_name. Qed.

Theorem C19_tls_pipeline_ok :
  forall parse_ip lookup dial name_ok handshake_ok (b : tls_backend) (c : cinfo) evs s,
  connect_tls parse_ip lookup dial name_ok handshake_ok b c = (evs, FTls (TOk s)) ->
  exists e1, connect parse_ip lookup dial c = (e1, ROk (ci_req c, s))
    /\ evs = e1 ++ [ETlsName (ci_hostname c)]
    /\ name_ok b (ci_hostname c) = true /\ handshake_ok b s (ci_hostname c) = true.
Proof. exact connect_tls_ok. Qed.

(* ------------------------------------------------------------------ non-vacuity *)
Module Ex.
  (* "h:80" / "h" / "1:+0080" ; ':' = 58, '+' = 43 *)
  Definition h80 : str := [104; 58; 56; 48].
  Definition lit : str := [49; 58; 43; 48; 48; 56; 48].
  Definition parse_ip (s : str) : option ip := match s with [49] => Some 7 | _ => None end.
  Definition lookup (h : str) (p : Z) : lookup_ans := LOk [(1, p); (2, p); (3, p); (4, p)].
  (* address 3 accepts, everything else fails with an error naming the address *)
  Definition dial (n : nat) (a : sockaddr) (l : option ip) : dial_ans :=
    if fst a =? 3 then DOk 33 else DFail (100 + fst a).
  Definition nobody (n : nat) (a : sockaddr) (l : option ip) : dial_ans := DFail (100 + fst a).
  Definition name_ok (b : tls_backend) (s : str) := negb (existsb (Z.eqb 32) s).
  Definition hs (b : tls_backend) (conn : Z) (s : str) :=
    match s with [104] => true | _ => false end.
End Ex.

(* lookup with the request's port, dial in order, stop at the first success *)
Example C19_ex_fallback :
  connect Ex.parse_ip Ex.lookup Ex.dial (build Ex.h80 CNew [BLocal 9])
  = ([ELookup [104] 80; EDial (1, 80) (Some 9); EDial (2, 80) (Some 9); EDial (3, 80) (Some 9)],
     ROk (Ex.h80, 33)).
Proof. vm_compute. reflexivity. Qed.
(* all fail: the LAST error (104), not the first (101) *)
Example C19_ex_all_fail :
  connect Ex.parse_ip Ex.lookup Ex.nobody (build Ex.h80 CNew [])
  = ([ELookup [104] 80; EDial (1, 80) None; EDial (2, 80) None; EDial (3, 80) None; EDial (4, 80) None],
     RErr (ErrIo 104)).
Proof. vm_compute. reflexivity. Qed.
(* pre-set addresses: no lookup although the host is not a literal; request port wins over set_port *)
Example C19_ex_preset :
  connect Ex.parse_ip Ex.lookup Ex.dial (build Ex.h80 (CWith (5, 1)) [BAddrs [(2, 7); (3, 8); (1, 9)]; BPort 81])
  = ([EDial (2, 7) None; EDial (3, 8) None], ROk (Ex.h80, 33))
  /\ ci_get_port (build Ex.h80 (CWith (5, 1)) [BPort 81]) = 80
  /\ ci_get_port (build [104] (CWith (5, 1)) [BPort 81]) = 81
  /\ ci_get_port (build [104] (CWith (5, 1)) []) = 0.
Proof. vm_compute. repeat split. Qed.
(* literal host "1:+0080": dialled directly at port 80 *)
Example C19_ex_literal :
  connect Ex.parse_ip Ex.lookup Ex.nobody (build Ex.lit CNew [BPort 1])
  = ([EDial (7, 80) None], RErr (ErrIo 107)).
Proof. vm_compute. reflexivity. Qed.
(* hypotheses of C19_first_success_wins / C19_all_fail_last_error are satisfiable *)
Example C19_ex_hyps :
  let c := build Ex.h80 CNew [BAddrs [(1, 1); (2, 2); (3, 3); (4, 4)]] in
  wf_addrs (ci_addr c) = true /\ ci_addr c <> ANone
  /\ ci_addrs c = [(1, 1); (2, 2)] ++ (3, 3) :: [(4, 4)]
  /\ Ex.dial 2 (3, 3) (ci_local c) = DOk 33
  /\ Ex.nobody 3 (last (ci_addrs c) (0, 0)) (ci_local c) = DFail 104.
Proof. vm_compute. repeat split. discriminate. Qed.
(* u16 grammar *)
Example C19_ex_u16 :
  map parse_u16 [[56; 48]; [43; 56; 48]; [48; 48; 48; 48; 48; 56]; [54; 53; 53; 51; 53]; [54; 53; 53; 51; 54];
                 []; [43]; [45; 49]; [43; 43; 49]; [56; 32]]
  = [Some 80; Some 80; Some 8; Some 65535; None; None; None; None; None; None].
Proof. vm_compute. reflexivity. Qed.
(* TLS: name = hostname; wrong certificate / invalid name *)
Example C19_ex_tls :
  tls_connect Ex.name_ok Ex.hs Rustls Ex.h80 5 = ([ETlsName [104]], TOk 5)
  /\ tls_connect Ex.name_ok Ex.hs Openssl [105; 58; 56] 5 = ([ETlsName [105]], TErrHandshake)
  /\ tls_connect Ex.name_ok Ex.hs Rustls [104; 32; 58; 56] 5 = ([], TErrInvalidInput).
Proof. vm_compute. repeat split. Qed.

(* `http::Uri` as connect address (feature `uri`, uri.rs; http 0.2 and http 1): the hostname is the URI's host ("" if it has none);
   the port is the URI's explicit port if it has one, otherwise exactly the well-known port of its scheme in the table below
   (http ws 80, https wss 443, amqp 5672, amqps 5671, mqtt 1883, mqtts 8883, ftp 21, ftps 990, redis 6379, mysql 3306,
   postgres 5432), otherwise none — and ConnectInfo::new(uri).port() is that port, or 0.  The URI parser itself is the `http`
   crate's (oracle: scheme_str, host, port_u16). *)
Theorem C19_uri_port_explicit : forall p sc, uri_port (Some p) sc = Some p.
Proof. exact uri_port_explicit. Qed.
Theorem C19_uri_port_default : forall sc p, uri_port None (Some sc) = Some p <-> In (sc, p) scheme_ports.
Proof. exact uri_port_default. Qed.
Theorem C19_uri_port_none : uri_port None None = None.
Proof. exact uri_port_none. Qed.
Theorem C19_uri_ci_port : forall e sc, uri_ci_port e sc = match uri_port e sc with Some p => p | None => 0 end.
Proof. exact uri_ci_port_spec. Qed.
(* non-vacuity: "wss" gives 443, "gopher" nothing, an explicit 8080 wins over "https" *)
Example C19_uri_example :
  uri_port None (Some [119; 115; 115]) = Some 443 /\ uri_port None (Some [103; 111; 112; 104; 101; 114]) = None /\
  uri_port (Some 8080) (Some [104; 116; 116; 112; 115]) = Some 8080 /\ uri_ci_port None None = 0.
Proof. vm_compute. repeat split. Qed.

Print Assumptions C19_no_reresolve.
Print Assumptions C19_ip_literal.
Print Assumptions C19_lookup.
Print Assumptions C19_lookup_addrs.
Print Assumptions C19_lookup_count.
Print Assumptions C19_unresolved.
Print Assumptions C19_first_success.
Print Assumptions C19_first_success_wins.
Print Assumptions C19_all_fail_last_error.
Print Assumptions C19_api_wf.
Print Assumptions C19_no_panic.
Print Assumptions C19_info.
Print Assumptions C19_port.
Print Assumptions C19_host_parse.
Print Assumptions C19_u16.
Print Assumptions C19_tls_name.
Print Assumptions C19_tls_pipeline_name.
Print Assumptions C19_tls_pipeline_ok.
Print Assumptions C19_uri_port_explicit.
Print Assumptions C19_uri_port_default.
Print Assumptions C19_uri_port_none.
Print Assumptions C19_uri_ci_port.
