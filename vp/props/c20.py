"""C20 — ByteString is always valid UTF-8 and agrees with str."""
import itertools
from common import Stream, shrink_hex, shrink_tokens

META = {
    "id": "C20",
    "driver": "bstr",
    "harness": "h_bstr",
    "coq_targets": ["Extract/XBstr.vo"],
    "level": "proof",
    "design_ref": "§5 C20",
    "technique": "Coq proof (inductive view of the UTF-8 DFA, split/slice lemmas, invariant over construction sequences on a "
                 "heap-of-buffers machine, characterisation by scalar values) + extracted-model vs real bytestring differential run "
                 "with str parity under catch_unwind",
    "level_text": "Theorems C20_invariant (every ByteString reachable through any sequence of safe-API calls is valid UTF-8 — induction "
                  "over call sequences on a machine with shared buffers), C20_split_valid/_panics_iff/_agrees, C20_try_from/C20_from, "
                  "C20_slice/_converse, C20_slice_ref_* (list level and machine level), C20_agree/C20_cmp_trans/C20_hash_prefix_free, "
                  "C20_valid_app, C20_order_is_code_point_order, C20_decode_unique and C20_utf8_definition (DFA = concatenations of encodings of Unicode scalar values) hold for ALL byte strings, indices and "
                  "call sequences (no bounds) on a Gallina model of bytestring/src/lib.rs. The model is tied to the code by running the "
                  "extracted model and the real crate on every byte string of length <= 5 over a 14-fragment "
                  "alphabet x every constructor x all split indices 0..len+1 x all sub-slices x slice_ref (own window, shifted window, "
                  "foreign memory), on pairs for ==/Ord, and on random construction sequences with shared buffers; each ByteString "
                  "operation is run next to the same str operation under catch_unwind and every produced value is re-validated with "
                  "str::from_utf8, so a divergence from str is a failing input.",
    "level_note": "Trusted: Coq kernel, extraction (ExtrOcamlBasic), OCaml driver, Rust harness; core::str::from_utf8 == Table 3-7 DFA "
                  "(validated exhaustively on the same space and on random strings <= 12 bytes by this run; char::encode_utf8 == "
                  "encode_scalar validated on code points); Bytes is modelled as a window into an immutable buffer (capacity, "
                  "reference counts, vtables not modelled); Hasher::write_str default (bytes then 0xFF); serde impls out of scope.",
    "rule": "stream c20: all byte strings of length <= 5 over {41,c3,a9,e2,82,ac,f0,9f,98,80,ff,c0,ed,a0} (exhaustive, both tiers); "
            "stream c20x (thorough): all strings of length 6 over {41,c3,a9,e2,82,ac,ed,a0}; stream c20r: seeded random strings (length 6..8 over the fragments; scalar-based strings <= 12 bytes, mostly valid, with "
            "targeted damage); non-trivial = contains a byte >= 0x80. stream c20v: seeded random strings <= 12 bytes (valid vs from_utf8). stream c20e: code points around every "
            "encoding-length/surrogate/range boundary + random (thorough: all 0..0x110010). stream c20p: all ordered pairs of valid "
            "strings of length <= 3 over the alphabet + random longer valid pairs (prefix/equal pairs included). stream c20s: seeded "
            "random construction sequences (6..14 ops) generated against a Python simulation so that most indices are meaningful.",
    "trusted_base": ["core::str::from_utf8 / String::from_utf8 == Table 3-7 DFA (Base/Utf8.v valid) — validated by this run (streams c20, c20v)",
                     "char::encode_utf8 == encode_scalar on scalar values — validated by this run (stream c20e)",
                     "bytes::Bytes modelled as (buffer, start, len) windows into immutable buffers; distinct live buffers occupy disjoint "
                     "memory; Bytes::split_to/slice/slice_ref/clone/from/copy_from_slice/freeze keep or copy bytes as documented",
                     "core::hash::Hasher::write_str default (bytes then 0xFF); Display/ToString of str"],
    "assumptions": ["`&str`/String/Box<str> arguments supplied by callers are valid UTF-8 (Rust's type invariant of str)",
                    "unsafe from_bytes_unchecked is outside the safe API; serde impls (feature `serde`) are out of scope"],
}

ALPHA = ["41", "c3", "a9", "e2", "82", "ac", "f0", "9f", "98", "80", "ff", "c0", "ed", "a0"]


def py_valid(b):
    try:
        b.decode("utf-8")
        return True
    except UnicodeDecodeError:
        return False


def py_boundary(b, i):
    return i == 0 or i == len(b) or (i < len(b) and (b[i] & 0xC0) != 0x80)


def fields(tr):
    d = {}
    for f in tr.split("|"):
        if f:
            d[f[0]] = f[1:]
    return d


# ------------------------------------------------------------------------------------------------
# monitors: each returns None when the property holds on the IMPLEMENTATION trace, else a short tag
# ------------------------------------------------------------------------------------------------
def why_c20(case, impl):
    n = len(case) // 2
    for f in impl.split("|"):          # a produced value that is not UTF-8 / does not hold the expected bytes
        if "!" in f:
            return "invalid-utf8-value@" + f[:1]
    for f in impl.split("|"):
        if "?" in f:
            return "wrong-bytes@" + f[:1]
    d = fields(impl)
    v = d.get("V")
    if v not in ("0", "1"):
        return "no-trace"
    t = d.get("T", "")
    if len(t) != 6:
        return "no-trace"
    if v == "0":
        # from_utf8 rejects: every fallible constructor must reject
        if any(c not in "E-" for c in t):
            return "try_from-accepts-invalid"
        return None if set(d) == {"V", "T"} else "no-trace"
    if any(c not in "=-" for c in t):
        return "try_from-rejects-valid"
    need = "FSsBLlRWGHhD"
    if any(k not in d for k in need):
        return "no-trace"
    if d["F"] != "====":
        return "from"
    if len(d["S"]) != n + 2 or d["S"] != d["s"]:
        return "split_at"
    if len(d["L"]) != (n + 2) ** 2 or d["L"] != d["l"]:
        return "index"
    if len(d["R"]) != len(d["l"]):
        return "slice_ref"
    for x, y in zip(d["l"], d["R"]):
        if (x == "=" and y != "=") or (x == "P" and y != "-"):
            return "slice_ref"
    k = 0
    w = d["W"]
    if len(w) != (n + 3) * (n + 4) // 2:
        return "slice_ref-window"
    for a in range(0, n + 3):
        for c in range(a, n + 3):
            ch = w[k]
            k += 1
            if ch == "-":
                continue
            inside = (a == c) or (a >= 1 and c <= n + 1)
            if ch != ("=" if inside else "P"):
                return "slice_ref-window"
    if d["G"] != ("=" if n == 0 else "P"):
        return "slice_ref-foreign"
    if d["H"] != d["h"]:
        return "hash"
    if d["D"] != "=======":
        return "display"
    return None


def why_c20p(case, impl):
    d = fields(impl)
    if impl == "INVALID":
        a, b = case.split(",")
        return None if not (py_valid(bytes.fromhex(a)) and py_valid(bytes.fromhex(b))) else "no-trace"
    if any(k not in d for k in "EeCc"):
        return "no-trace"
    e = d["e"]
    if e not in ("0", "1") or d["E"] != e * 4 + ("0" if e == "1" else "1"):
        return "eq"
    if d["C"] != d["c"]:
        return "ord"
    if (d["c"][0] == "E") != (e == "1"):
        return "ord"
    return None


def parse_src(s):
    if s[0] == "L":
        return ("L", bytes.fromhex(s[1:]))
    j, a, b = (int(x) for x in s[1:].split("."))
    return ("S", j, a, b)


def eval_src(pool, src):
    """-> ('X',) | ('P',) | ('B',) | ('ok', bytes)"""
    if src[0] == "L":
        return ("ok", src[1]) if py_valid(src[1]) else ("B",)
    _, j, a, b = src
    if j >= len(pool):
        return ("X",)
    x = pool[j]
    if a <= b and py_boundary(x, a) and py_boundary(x, b):
        return ("ok", x[a:b])
    return ("P",)


def why_c20s(case, impl):
    """re-simulate the script on the values the implementation itself reported"""
    ops = case.split(";") if case else []
    obs = impl.split(";") if impl else []
    if len(ops) != len(obs):
        return "no-trace"
    pool = []
    for o, ob in zip(ops, obs):
        made = None
        if ob.startswith("M"):
            if "!" in ob:
                return "invalid-utf8-value"
            try:
                made = [bytes.fromhex(h) for h in ob[1:].split(",")]
            except ValueError:
                return "no-trace"
            if not all(py_valid(v) for v in made):
                return "invalid-utf8-value"
        elif ob not in ("E", "P", "X", "BADLIT"):
            return "no-trace"
        c = o[0]
        if c == "N":
            exp = [("M", [b""])]
        elif c == "F":
            r = eval_src(pool, parse_src(o[2:]))
            exp = [{"X": "X", "P": "P", "B": "BADLIT"}.get(r[0])] if r[0] != "ok" else [("M", [r[1]])]
        elif c == "T":
            b = bytes.fromhex(o[3:])
            exp = [("M", [b])] if py_valid(b) else ["E"]
        elif c == "U":
            j, a, b = (int(x) for x in o[1:].split("."))
            if j >= len(pool):
                exp = ["X"]
            elif not (a <= b <= len(pool[j])):
                exp = ["P"]
            else:
                s = pool[j][a:b]
                exp = [("M", [s])] if py_valid(s) else ["E"]
        elif c == "P":
            i, m = (int(x) for x in o[1:].split("."))
            if i >= len(pool):
                exp = ["X"]
            elif m <= len(pool[i]) and py_boundary(pool[i], m):
                exp = [("M", [pool[i][:m], pool[i][m:]])]
            else:
                exp = ["P"]
        elif c == "R":
            k = o.index(":")
            i = int(o[1:k])
            src = parse_src(o[k + 1:])
            r = eval_src(pool, src)
            if r[0] == "B":
                exp = ["BADLIT"]
            elif i >= len(pool):
                exp = ["X"]
            elif r[0] != "ok":
                exp = [r[0]]
            elif len(r[1]) == 0:
                exp = [("M", [b""])]
            elif src[0] == "L":
                exp = ["P"]
            elif src[1] == i:
                exp = [("M", [r[1]])]
            else:
                exp = ["P", ("M", [r[1]])]          # depends on buffer sharing: never other bytes
        elif c == "C":
            i = int(o[1:])
            exp = [("M", [pool[i]])] if i < len(pool) else ["X"]
        else:
            return "no-trace"
        got = ("M", made) if made is not None else ob
        if got not in exp:
            return {"P": "split_at", "R": "slice_ref", "U": "try_from", "T": "try_from", "F": "from", "C": "clone", "N": "new"}[c]
        if made is not None:
            pool.extend(made)
    return None


# ------------------------------------------------------------------------------------------------
# generators
# ------------------------------------------------------------------------------------------------
def enc(c):
    return chr(c).encode("utf-8", "surrogatepass")


SCALARS = [0x41, 0x7A, 0x00, 0x7F, 0x80, 0xE9, 0x7FF, 0x800, 0x20AC, 0xD7FF, 0xE000, 0xFFFD, 0xFFFF,
           0x10000, 0x1F600, 0x3FFFF, 0x40000, 0xFFFFF, 0x100000, 0x10FFFF]
BAD = [b"\xc0\x80", b"\xc1\xbf", b"\xe0\x80\x80", b"\xe0\x9f\xbf", b"\xed\xa0\x80", b"\xed\xbf\xbf", b"\xf0\x80\x80\x80",
       b"\xf0\x8f\xbf\xbf", b"\xf4\x90\x80\x80", b"\xf5\x80\x80\x80", b"\xff", b"\xfe", b"\x80", b"\xbf", b"\xc3", b"\xe2\x82",
       b"\xf0\x9f\x98", b"\xf8\x88\x80\x80\x80"]


def rand_scalar(rng):
    r = rng.random()
    if r < 0.35:
        return rng.choice(SCALARS)
    if r < 0.55:
        return rng.randint(0, 0x7F)
    if r < 0.70:
        return rng.randint(0x80, 0x7FF)
    if r < 0.85:
        c = rng.randint(0x800, 0xFFFF)
        return c if not (0xD800 <= c <= 0xDFFF) else 0xD7FF
    return rng.randint(0x10000, 0x10FFFF)


def rand_valid(rng, maxlen):
    out = b""
    k = rng.choice([0, 1, 1, 2, 2, 3, 3, 4, 5])
    for _ in range(k):
        e = enc(rand_scalar(rng))
        if len(out) + len(e) > maxlen:
            break
        out += e
    return out


def rand_bytes(rng, maxlen, p_valid=0.5):
    """mostly-valid strings with targeted damage; sometimes pure noise"""
    r = rng.random()
    if r < p_valid:
        return rand_valid(rng, maxlen)
    if r < p_valid + 0.1:
        return bytes(rng.randint(0, 255) for _ in range(rng.randint(0, maxlen)))
    b = bytearray(rand_valid(rng, maxlen))
    for _ in range(rng.randint(1, 2)):
        m = rng.random()
        pos = rng.randint(0, len(b))
        if m < 0.25:
            b[pos:pos] = rng.choice(BAD)
        elif m < 0.45 and b:
            del b[min(pos, len(b) - 1)]
        elif m < 0.65 and b:
            p = min(pos, len(b) - 1)
            b[p] = (b[p] + rng.choice([1, -1, 0x40, 0x80, 0x10])) & 0xFF
        elif m < 0.8:
            b[pos:pos] = bytes([rng.choice([0x80, 0xBF, 0xA0, 0x9F, 0x90, 0x8F])])
        else:
            b = b[:pos]
    return bytes(b[:maxlen])


def gen_script(rng, nops):
    """random construction sequence; a Python simulation of the pool (buffer id, start, bytes) keeps most
    indices meaningful (the simulation only steers the generator, it is not the oracle)"""
    pool = []
    nalloc = 1
    ops = []

    def pick_index():
        if rng.random() < 0.02 or not pool:
            return len(pool) + rng.randint(0, 1)
        if rng.random() < 0.8:                      # prefer non-empty, multi-byte values
            ne = [i for i, e in enumerate(pool) if len(e[2]) > 1]
            if ne:
                return rng.choice(ne)
        return rng.randrange(len(pool))

    def pick_bound(x):
        if rng.random() < 0.75:
            bs = [i for i in range(len(x) + 1) if py_boundary(x, i)]
            return rng.choice(bs)
        return rng.randint(0, len(x) + 1)

    def pick_src(prefer=None):
        if not pool or rng.random() < 0.15:
            r = rng.random()
            lit = b"" if r < 0.12 else (rand_valid(rng, 6) if r < 0.97 else rng.choice(BAD))
            return "L" + lit.hex(), ("L", lit)
        if prefer is not None and prefer < len(pool) and rng.random() < 0.8:
            same = [j for j, e in enumerate(pool) if e[0] == pool[prefer][0]]
            j = rng.choice(same)
        else:
            j = pick_index()
        x = pool[j][2] if j < len(pool) else b""
        a, b = pick_bound(x), pick_bound(x)
        if a == b and rng.random() < 0.7:
            a, b = pick_bound(x), pick_bound(x)
        if a > b and rng.random() < 0.85:
            a, b = b, a
        return "S%d.%d.%d" % (j, a, b), ("S", j, a, b)

    for _ in range(nops):
        r = rng.random()
        if not pool:
            r = rng.random() * 0.3
        if r < 0.14:
            b = rand_bytes(rng, 10, 0.7)
            ops.append("T%d:%s" % (rng.randint(0, 5), b.hex()))
            if py_valid(b):
                pool.append((nalloc, 0, b))
                nalloc += 1
        elif r < 0.27:
            txt, src = pick_src()
            ops.append("F%d%s" % (rng.randint(0, 3), txt))
            rr = eval_src([e[2] for e in pool], src)
            if rr[0] == "ok":
                pool.append((nalloc, 0, rr[1]))
                nalloc += 1
        elif r < 0.30:
            ops.append("N")
            pool.append((0, 0, b""))
        elif r < 0.42:
            j = pick_index()
            x = pool[j][2] if j < len(pool) else b""
            hi = len(x) if rng.random() < 0.85 else len(x) + 1
            a, b = rng.randint(0, hi), rng.randint(0, hi)
            if a > b and rng.random() < 0.9:
                a, b = b, a
            ops.append("U%d.%d.%d" % (j, a, b))
            if j < len(pool) and a <= b <= len(x) and py_valid(x[a:b]):
                pool.append((pool[j][0], pool[j][1] + a, x[a:b]))
        elif r < 0.64:
            i = pick_index()
            x = pool[i][2] if i < len(pool) else b""
            m = rng.randint(0, len(x) + 1)
            ops.append("P%d.%d" % (i, m))
            if i < len(pool) and m <= len(x) and py_boundary(x, m):
                pool.append((pool[i][0], pool[i][1], x[:m]))
                pool.append((pool[i][0], pool[i][1] + m, x[m:]))
        elif r < 0.95:
            i = pick_index()
            txt, src = pick_src(prefer=i)
            ops.append("R%d:%s" % (i, txt))
            rr = eval_src([e[2] for e in pool], src)
            if i < len(pool) and rr[0] == "ok":
                sub = rr[1]
                if len(sub) == 0:
                    pool.append((0, 0, b""))
                elif src[0] == "S":
                    w, v = pool[src[1]], pool[i]
                    st = w[1] + src[2]
                    if w[0] == v[0] and st >= v[1] and st + len(sub) <= v[1] + len(v[2]):
                        pool.append((w[0], st, sub))
        else:
            i = pick_index()
            ops.append("C%d" % i)
            if i < len(pool):
                pool.append(pool[i])
    return ";".join(ops)


# ------------------------------------------------------------------------------------------------
# in-Coq cross-check terms (guards the extraction)
# ------------------------------------------------------------------------------------------------
def zl(b):
    return "[" + "; ".join(str(x) for x in b) + "]"


def coq_bool(x):
    return "true" if x else "false"


def to_coq_c20(case, model):
    b = bytes.fromhex(case)
    d = fields(model)
    if d.get("V") == "0":
        return ("valid %s" % zl(b), "false")
    if "S" not in d:
        return None
    return ("(valid %s, map (fun m => match split_at %s m with Some _ => true | None => false end) (seq 0 %d))" % (zl(b), zl(b), len(b) + 2),
            "(true, [%s])" % "; ".join(coq_bool(c != "P") for c in d["S"]))


def to_coq_c20v(case, model):
    return ("valid %s" % zl(bytes.fromhex(case)), coq_bool(model == "1"))


def to_coq_c20e(case, model):
    c = int(case, 16)
    return ("if scalar %d then Some (encode_scalar %d) else None" % (c, c),
            "@None (list Z)" if model == "-" else "Some %s" % zl(bytes.fromhex(model)))


def to_coq_c20p(case, model):
    a, b = case.split(",")
    d = fields(model)
    if "C" not in d:
        return None
    return ("(eq %s %s, cmp %s %s)" % (zl(bytes.fromhex(a)), zl(bytes.fromhex(b)), zl(bytes.fromhex(a)), zl(bytes.fromhex(b))),
            "(%s, %s)" % (coq_bool(d["E"][0] == "1"), {"L": "Lt", "E": "Eq", "G": "Gt"}[d["C"][0]]))


def coq_src(s):
    if s[0] == "L":
        return "(SLit %s)" % zl(bytes.fromhex(s[1:]))
    j, a, b = s[1:].split(".")
    return "(SSub %s %s %s)" % (j, a, b)


def to_coq_c20s(case, model):
    if not case or "BADLIT" in model:
        return None
    fk = ["FStr", "FString", "FBox", "FStatic"]
    tk = ["KSlice", "KVec", "KBytes", "KBytesMut", "KArr", "KArrRef"]
    ops = []
    for o in case.split(";"):
        c = o[0]
        if c == "N":
            ops.append("ONew")
        elif c == "F":
            ops.append("OFrom %s %s" % (fk[int(o[1])], coq_src(o[2:])))
        elif c == "T":
            ops.append("OTry %s %s" % (tk[int(o[1])], zl(bytes.fromhex(o[3:]))))
        elif c == "U":
            ops.append("OTryShared %s %s %s" % tuple(o[1:].split(".")))
        elif c == "P":
            ops.append("OSplit %s %s" % tuple(o[1:].split(".")))
        elif c == "R":
            k = o.index(":")
            ops.append("OSliceRef %s %s" % (o[1:k], coq_src(o[k + 1:])))
        elif c == "C":
            ops.append("OClone %s" % o[1:])
    obs = []
    for ob in model.split(";"):
        if ob.startswith("M"):
            obs.append("Made [%s]" % "; ".join(zl(bytes.fromhex(h)) for h in ob[1:].split(",")))
        else:
            obs.append({"E": "Error", "P": "Panicked", "X": "NoSuch"}[ob])
    return ("snd (run [%s])" % "; ".join(ops), "[%s]" % "; ".join(obs))


COQ_IMPORTS = "From AN Require Import Model.BStr.\nOpen Scope nat_scope.\nOpen Scope Z_scope.\n"


def nonascii(h):
    return any(int(h[i:i + 2], 16) >= 0x80 for i in range(0, len(h), 2))


def shrink_pair(case):
    a, b = case.split(",")
    for x in shrink_hex(a):
        yield x + "," + b
    for y in shrink_hex(b):
        yield a + "," + y


def mk(why):
    return (lambda c, i, m: why(c, i) is None), (lambda c, i, m: why(c, i) or "trace-differs")


def streams(ctx):
    quick = ctx.tier == "quick"
    rng = ctx.rng
    L = 5
    # ---- c20: per-string, exhaustive + random ----
    ex = ["".join(t) for n in range(0, L + 1) for t in itertools.product(ALPHA, repeat=n)]
    nr = 30000 if quick else 600000
    rnd = []
    for _ in range(nr):
        if rng.random() < 0.4:
            rnd.append("".join(rng.choice(ALPHA) for _ in range(rng.randint(L + 1, 8))))
        else:
            rnd.append(rand_bytes(rng, 12, 0.6).hex())
    # code points that text-handling code likes to treat specially (BOM, non-characters, white space and line separators, controls,
    # quotes and backslash, case-mapping oddities, a combining mark, the edges of the encoding): alone, next to ASCII and
    # two-byte neighbours, and in ordered pairs — none of them is special to a ByteString
    specials = ["efbbbf", "efbfbe", "efbfbf", "efbfbd", "00", "20", "09", "0a", "0d", "7f", "c285", "c2a0", "e280a8", "e2808b",
                "ed9fbf", "ee8080", "f0908080", "f48fbfbf", "22", "5c", "c39f", "c4b0", "cc81"]
    sp = []
    for x in specials:
        sp += [x, x + "41", "41" + x, x + x, x + "c3a9", "c3a9" + x, "41" + x + "41", x + "4142", x[:-2], x[:-2] + "41"]
    sp += [x + y for x in specials for y in specials]
    rnd = sp + rnd
    mon, key = mk(why_c20)
    per = ("per string: 6 TryFrom kinds, 4 From kinds, split_at 0..len+1, all (a,b) index pairs, slice_ref (own, shifted window, "
           "foreign), Hash, Display/ToString/String::from/into_bytes/AsRef/Borrow, each with str parity")
    s1 = Stream("c20", "c20", ex, monitor=mon, finding_key=key, nontrivial=lambda c, m: nonascii(c),
                shrink=shrink_hex, to_coq=to_coq_c20, coq_imports=COQ_IMPORTS, exhaustive=True,
                describe="exhaustive: all %d strings of length <= %d over 14 fragments; %s" % (len(ex), L, per))
    s1r = Stream("c20r", "c20", rnd, monitor=mon, finding_key=key, nontrivial=lambda c, m: nonascii(c),
                 shrink=shrink_hex, to_coq=to_coq_c20, coq_imports=COQ_IMPORTS,
                 describe="random: %d strings of length <= 12 (fragment strings of length %d..8; scalar-based strings with targeted damage); %s" % (nr, L + 1, per))
    # ---- c20v: valid vs from_utf8 on random strings ----
    nv = 100000 if quick else 2000000
    vs = [rand_bytes(rng, 12, 0.45).hex() for _ in range(nv)]
    s2 = Stream("c20v", "c20v", vs, monitor=lambda c, i, m: i in ("0", "1"), nontrivial=lambda c, m: nonascii(c),
                shrink=shrink_hex, to_coq=to_coq_c20v, coq_imports=COQ_IMPORTS,
                describe="%d random strings <= 12 bytes: extracted `valid` vs core::str::from_utf8 and String::from_utf8 "
                         "(validates the trusted assumption from_utf8 == Table 3-7 DFA; the exhaustive space is covered by field V of c20)" % nv)
    # ---- c20e: encode_scalar vs char::encode_utf8 ----
    edges = [0, 0x7F, 0x80, 0x7FF, 0x800, 0xFFF, 0x1000, 0xCFFF, 0xD000, 0xD7FF, 0xD800, 0xDFFF, 0xE000, 0xFFFF, 0x10000,
             0x3FFFF, 0x40000, 0xFFFFF, 0x100000, 0x10FFFF, 0x110000]
    if quick:
        cps = sorted({c + d for c in edges for d in range(-3, 4) if c + d >= 0}) + [rng.randint(0, 0x11000F) for _ in range(20000)]
        exh_e = False
    else:
        cps = list(range(0, 0x110010))
        exh_e = True
    s3 = Stream("c20e", "c20e", ["%x" % c for c in cps], monitor=lambda c, i, m: i != "" and "PANIC" not in i and "CRASH" not in i,
                nontrivial=lambda c, m: int(c, 16) >= 0x80, to_coq=to_coq_c20e, coq_imports=COQ_IMPORTS, exhaustive=exh_e,
                describe="%d code points: encode_scalar/scalar vs char::from_u32 + encode_utf8" % len(cps))
    # ---- c20p: pairs ----
    small = [s for s in ("".join(t) for n in range(0, 4) for t in itertools.product(ALPHA, repeat=n)) if py_valid(bytes.fromhex(s))]
    extra = ["f09f9880", "f09f98", "f48fbfbf", "ee8080", "efbfbf", "f0908080", "7f", "c280", "dfbf", "e0a080", "ed9fbf", "00",
             "4100", "410000", "0000", "0041", "c2b500", "41424300", "4142430000", "00000000", "0000000000",
             "efbbbf", "efbbbf41", "41efbbbf", "20", "4120", "2041", "0a", "410a", "c2a0", "e280a8", "22", "5c", "cc81", "41cc81"]
    extra = [e for e in extra if py_valid(bytes.fromhex(e))]
    base = small + extra
    pairs = [a + "," + b for a in base for b in base]
    npair = 20000 if quick else 600000
    for _ in range(npair):
        a = rand_valid(rng, 10)
        r = rng.random()
        if r < 0.2:
            b = a
        elif r < 0.4:
            b = a + rand_valid(rng, 4)
        elif r < 0.6 and a:
            k = rng.choice([i for i in range(len(a) + 1) if py_boundary(a, i)])
            b = a[:k] + rand_valid(rng, 4)
        else:
            b = rand_valid(rng, 10)
        if rng.random() < 0.5:
            a, b = b, a
        pairs.append(a.hex() + "," + b.hex())
    mon, key = mk(why_c20p)
    s4 = Stream("c20p", "c20p", pairs, monitor=mon, finding_key=key, nontrivial=lambda c, m: nonascii(c.replace(",", "")),
                shrink=shrink_pair, to_coq=to_coq_c20p, coq_imports=COQ_IMPORTS,
                describe="all %d ordered pairs of %d valid strings (length <= 3 over the alphabet + boundary scalars) and %d random valid "
                         "pairs (equal / prefix / common-prefix / unrelated): ==, != against &str, str, String, ByteString; cmp, "
                         "partial_cmp, <, <=, >, >= against str" % (len(base) ** 2, len(base), npair))
    # ---- c20q: comparisons among values that share a buffer ----
    def why_c20q(case, impl):
        """== and cmp of the halves of split_at / slice_ref prefixes and suffixes against the whole must be what str gives"""
        b = bytes.fromhex(case)
        if impl == "INVALID":
            return None if not py_valid(b) else "no-trace"
        ents = [e for e in impl.split(",") if e]
        bounds = [m for m in range(len(b) + 1) if py_boundary(b, m)]
        if len(ents) != len(bounds):
            return "no-trace"
        for m, e in zip(bounds, ents):
            l, r = b[:m], b[m:]
            o = lambda u, v: "L" if u < v else ("G" if u > v else "E")
            want = "%d:%d%d%d%d%d%d%d%d%s%s" % (m, l == b, b == l, l == b, r == b, 1, 1, l == b, 1, o(l, b), o(r, b))
            if e != want:
                return "shared-eq"
        return None
    qs = list(small) + extra + [rand_valid(rng, 12).hex() for _ in range(3000 if quick else 100000)]
    mon, key = mk(why_c20q)
    s4q = Stream("c20q", "c20q", qs, monitor=mon, finding_key=key, nontrivial=lambda c, m: len(c) >= 4, shrink=shrink_hex,
                 describe="%d valid strings: for every char boundary, ==/cmp between the halves of split_at, slice_ref prefixes/suffixes "
                          "and the whole (values that share one buffer)" % len(qs))
    # ---- c20s: construction sequences ----
    ns = 30000 if quick else 1000000
    scripts = [gen_script(rng, rng.randint(6, 14)) for _ in range(ns)]
    mon, key = mk(why_c20s)
    s5 = Stream("c20s", "c20s", scripts, monitor=mon, finding_key=key,
                nontrivial=lambda c, m: any(x in c for x in ("P", "R", "U")) and any(nonascii(h) for ob in m.split(";") if ob.startswith("M")
                                                                                      for h in ob[1:].replace("!", "").split(",")),
                shrink=shrink_tokens(";"), to_coq=to_coq_c20s, coq_imports=COQ_IMPORTS,
                describe="%d random construction sequences of 6..14 safe-API calls over a pool of ByteStrings that share buffers "
                         "(try_from on shared Bytes sub-slices, split_at, slice_ref with subsets of the same / a parent / a foreign "
                         "buffer, From kinds on sub-slices, clone)" % ns)
    out = [s1, s1r, s2, s3, s4, s4q, s5]
    if not quick:
        # thorough only: all strings of length 6 over a reduced alphabet (1-, 2-, 3-byte fragments, the surrogate lead)
        a8 = ["41", "c3", "a9", "e2", "82", "ac", "ed", "a0"]
        ex6 = ["".join(t) for t in itertools.product(a8, repeat=6)]
        out.insert(1, Stream("c20x", "c20", ex6, monitor=mk(why_c20)[0], finding_key=mk(why_c20)[1], nontrivial=lambda c, m: nonascii(c),
                             shrink=shrink_hex, exhaustive=True,
                             describe="exhaustive: all %d strings of length 6 over {41,c3,a9,e2,82,ac,ed,a0}; %s" % (len(ex6), per)))
    return out
