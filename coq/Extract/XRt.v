(* Extraction of the actix-rt model and its acceptance predicate (ExtrOcamlBasic only). *)
From Coq Require Import Extraction ExtrOcamlBasic.
From AN Require Import Model.Rt.
Extraction Language OCaml.
Extraction "../ocaml/rt/gen.ml" init step run observable_log quiescent Rt_accepts Rt_accepts_why block_on run_view.
