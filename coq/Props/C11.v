(* Props/C11.v — service combinators compute exactly the documented composition.
   ONLY statements, each closed by `exact <lemma>` / `reflexivity`, non-vacuity Examples, and
   Print Assumptions.   Model: Model/Svc.v; proofs: Proofs/SvcFacts.v.

   Reading guide.  [sexpr] is a combinator tree over scripted leaves (ANY readiness script, ANY
   call behaviour Z -> nat * res); [run_call n w e req] is `e.call(req)` driven by the manual
   executor with fresh wakers w, w+1, ... and fuel n; [denote] is the reference composition,
   [delay] the number of Pending polls of the composition, [sem] the sequential reference log
   (leaf calls, leaf completions, closure applications) and [proj] the projection of an
   execution log onto those events (Pending polls and waker ids dropped). *)
From AN Require Import Model.Svc Proofs.SvcFacts.

(* Value: for every tree, request, start waker and sufficient fuel, the driven future resolves
   to the reference composition, after exactly delay+1 polls (never a panic, never stuck). *)
Theorem C11_value : forall e req w n, (delay e req < n)%nat ->
  fst (run_call n w e req) = (PReady (denote e req), S (delay e req)).
Proof. exact run_call_value. Qed.

(* Order / exactly-once: the calls of leaves, the completions of their futures and the closure
   applications occur in the log exactly as in the sequential reference log. *)
Theorem C11_order : forall e req w n, (delay e req < n)%nat ->
  proj (snd (run_call n w e req)) = sem e req.
Proof. exact run_call_order. Qed.

(* What the reference says, spelled out per combinator (all by definition):
   and_then runs b after a's events and only if a succeeded, with a's response ... *)
Theorem C11_ref_and_then : forall a b req,
  denote (AndThen a b) req = match denote a req with Ok v => denote b v | Err x => Err x end
  /\ sem (AndThen a b) req = sem a req ++ match denote a req with Ok v => sem b v | Err _ => [] end.
Proof. split; reflexivity. Qed.

(* ... map / map_err apply their closure exactly once, after the inner future completed, to the
   matching variant only ... *)
Theorem C11_ref_map : forall m a req,
  denote (Map m a) req = match denote a req with Ok v => Ok (app_m m v) | Err x => Err x end
  /\ sem (Map m a) req = sem a req ++ match denote a req with Ok v => [SMap KOk m v] | Err _ => [] end.
Proof. split; reflexivity. Qed.
Theorem C11_ref_map_err : forall m a req,
  denote (MapErr m a) req = match denote a req with Ok v => Ok v | Err x => Err (app_m m x) end
  /\ sem (MapErr m a) req = sem a req ++ match denote a req with Ok _ => [] | Err x => [SMap KErr m x] end.
Proof. split; reflexivity. Qed.

(* ... apply_fn hands the request and the inner service to the closure; for the harness closure
   "pre-map the request, call the service once, post-map an Ok response" ... *)
Theorem C11_ref_apply_fn : forall pre post a req,
  denote (ApplyFn (WPrePost pre post) a) req
  = match denote a (app_m pre req) with Ok v => Ok (app_m post v) | Err x => Err x end
  /\ sem (ApplyFn (WPrePost pre post) a) req
     = SMap KPre pre req :: sem a (app_m pre req)
       ++ match denote a (app_m pre req) with Ok v => [SMap KPost post v] | Err _ => [] end.
Proof. split; reflexivity. Qed.
Theorem C11_ref_apply_fn_skip : forall r a req,
  denote (ApplyFn (WSkip r) a) req = r /\ sem (ApplyFn (WSkip r) a) req = [].
Proof. split; reflexivity. Qed.

(* ... and Box<dyn>, Rc<dyn>, Rc, Box, &, &mut, RefCell are transparent: same value, same log,
   same readiness. *)
Theorem C11_wrappers_transparent : forall k a,
  (forall n w req, run_call n w (Wrap k a) req = run_call n w a req)
  /\ (forall req, denote (Wrap k a) req = denote a req)
  /\ (forall w, poll_ready (Wrap k a) w = let '(a', r, l) := poll_ready a w in (Wrap k a', r, l)).
Proof. split; [|split]; reflexivity. Qed.

(* non-vacuity: a depth-3 tree with delayed leaves, an erroring second stage and all closure kinds *)
Definition ex_leaf0 := Leaf 0 [RPending; ROk] (fun r => (2%nat, Ok (r + 5))).
Definition ex_leaf1 := Leaf 1 [] (fun r => (1%nat, if r =? 6 then Err 7 else Ok (r * 2))).
Definition ex_tree := MapErr (MTag 1) (AndThen (Wrap WRc ex_leaf0) (ApplyFn (WPrePost (MAdd 1) (MMul 3)) ex_leaf1)).
Example C11_example_ok :
  run_call 10 0 ex_tree 1
  = (PReady (Ok 42), 4%nat,
     [EvCall 0 1; EvPoll 0 0 PPending; EvPoll 0 1 PPending; EvPoll 0 2 (PReady (Ok 6));
      EvMap KPre (MAdd 1) 6; EvCall 1 7; EvPoll 1 2 PPending; EvPoll 1 3 (PReady (Ok 14));
      EvMap KPost (MMul 3) 14])
  /\ denote ex_tree 1 = Ok 42 /\ delay ex_tree 1 = 3%nat.
Proof. vm_compute. repeat split. Qed.
Example C11_example_err :
  run_call 10 0 ex_tree 0
  = (PReady (Err 71), 4%nat,
     [EvCall 0 0; EvPoll 0 0 PPending; EvPoll 0 1 PPending; EvPoll 0 2 (PReady (Ok 5));
      EvMap KPre (MAdd 1) 5; EvCall 1 6; EvPoll 1 2 PPending; EvPoll 1 3 (PReady (Err 7));
      EvMap KErr (MTag 1) 7])
  /\ sem ex_tree 0 = [SCall 0 0; SDone 0 (Ok 5); SMap KPre (MAdd 1) 5; SCall 1 6; SDone 1 (Err 7); SMap KErr (MTag 1) 7].
Proof. vm_compute. repeat split. Qed.

Print Assumptions C11_value.
Print Assumptions C11_order.
Print Assumptions C11_ref_and_then.
Print Assumptions C11_ref_map.
Print Assumptions C11_ref_map_err.
Print Assumptions C11_ref_apply_fn.
Print Assumptions C11_ref_apply_fn_skip.
Print Assumptions C11_wrappers_transparent.
