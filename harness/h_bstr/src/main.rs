//! Correspondence harness for bytestring (C20).
//! One case per stdin line, one trace per stdout line; same text as ocaml/bstr/driver.ml.
//!
//! Every value the crate hands out is checked with `str::from_utf8(x.as_bytes())` *before* anything
//! dereferences it ('!' in the trace), every ByteString operation is run next to the same operation
//! on the equivalent `str` under `catch_unwind`, and both results are printed (upper-case field =
//! ByteString, lower-case field = str) so that the monitor can compare them on this trace alone.
use std::borrow::Borrow;
use std::hash::{Hash, Hasher};
use std::io::{self, BufRead, Write};
use std::panic::{catch_unwind, AssertUnwindSafe};

use bytes::{Bytes, BytesMut};
use bytestring::ByteString;

fn unhex(s: &str) -> Vec<u8> {
    (0..s.len() / 2)
        .map(|i| u8::from_str_radix(&s[2 * i..2 * i + 2], 16).unwrap())
        .collect()
}
fn hex(b: &[u8]) -> String {
    b.iter().map(|x| format!("{:02x}", x)).collect()
}

/// '=' same bytes, '!' not UTF-8, '?hex.' other.  Only `as_bytes()` is used: no Deref on a value
/// that has not been checked.
fn markb(got: &[u8], expect: &[u8]) -> String {
    if std::str::from_utf8(got).is_err() {
        "!".to_string()
    } else if got == expect {
        "=".to_string()
    } else {
        format!("?{}.", hex(got))
    }
}
fn mark(x: &ByteString, expect: &[u8]) -> String {
    markb(x.as_bytes().as_ref(), expect)
}

macro_rules! arr_try {
    ($v:expr, $byref:expr, $($n:literal)+) => {
        match $v.len() {
            $( $n => {
                let a: [u8; $n] = <[u8; $n]>::try_from(&$v[..]).unwrap();
                if $byref { ByteString::try_from(&a) } else { ByteString::try_from(a) }
            } )+
            _ => panic!("no TryFrom<[u8; N]> impl for this N"),
        }
    };
}
fn try_arr(v: &[u8], byref: bool) -> Result<ByteString, std::str::Utf8Error> {
    arr_try!(v, byref, 0 1 2 3 4 5 6 7 8 9 10 11 12 13 14 15 16 17 18 19 20 21 22 23 24 25 26 27 28 29 30 31 32)
}

/// kinds 0..=5: &[u8], Vec<u8>, Bytes, BytesMut, [u8; N], &[u8; N]
fn try_kind(k: usize, b: &[u8]) -> Result<ByteString, std::str::Utf8Error> {
    match k {
        0 => ByteString::try_from(b),
        1 => ByteString::try_from(b.to_vec()),
        2 => ByteString::try_from(Bytes::from(b.to_vec())),
        3 => ByteString::try_from(BytesMut::from(b)),
        4 => try_arr(b, false),
        5 => try_arr(b, true),
        _ => panic!("tkind"),
    }
}

/// kinds 0..=3: &str, String, Box<str>, from_static.  The 'static str is a leaked copy.
fn from_kind(k: usize, s: &str) -> ByteString {
    match k {
        0 => ByteString::from(s),
        1 => ByteString::from(s.to_owned()),
        2 => ByteString::from(s.to_owned().into_boxed_str()),
        3 => ByteString::from_static(Box::leak(s.to_owned().into_boxed_str())),
        _ => panic!("fkind"),
    }
}

#[derive(Default)]
struct Rec(Vec<u8>);
impl Hasher for Rec {
    fn finish(&self) -> u64 {
        0
    }
    fn write(&mut self, bytes: &[u8]) {
        self.0.extend_from_slice(bytes)
    }
}

fn c20(line: &str) -> String {
    let b = unhex(line);
    let n = b.len();
    let mut t = String::new();
    for k in 0..6 {
        if k >= 4 && n > 32 {
            t.push('-');
            continue;
        }
        match try_kind(k, &b) {
            Err(_) => t.push('E'),
            Ok(x) => t.push_str(&mark(&x, &b)),
        }
    }
    let s: &str = match std::str::from_utf8(&b) {
        Err(_) => return format!("V0|T{}", t),
        Ok(s) => s,
    };
    let mut f = String::new();
    for k in 0..4 {
        f.push_str(&mark(&from_kind(k, s), &b));
    }
    let x = ByteString::from(s);
    if std::str::from_utf8(x.as_bytes()).is_err() {
        return format!("V1|T{}|F{}|UNSOUND", t, f);
    }
    let mids: Vec<usize> = (0..=n + 1).collect();
    // split_at on the ByteString and on the str
    let (mut sp, mut ssp, mut bd) = (String::new(), String::new(), String::new());
    for &m in &mids {
        match catch_unwind(AssertUnwindSafe(|| x.split_at(m))) {
            Err(_) => sp.push('P'),
            Ok((l, r)) => {
                let (lb, rb): (&[u8], &[u8]) = (l.as_bytes().as_ref(), r.as_bytes().as_ref());
                if std::str::from_utf8(lb).is_err() || std::str::from_utf8(rb).is_err() {
                    sp.push('!')
                } else if Some(lb) == b.get(..m) && Some(rb) == b.get(m..) {
                    sp.push('=')
                } else {
                    sp.push('?')
                }
            }
        }
        match catch_unwind(AssertUnwindSafe(|| s.split_at(m))) {
            Err(_) => ssp.push('P'),
            Ok((l, r)) => {
                if Some(l.as_bytes()) == b.get(..m) && Some(r.as_bytes()) == b.get(m..) {
                    ssp.push('=')
                } else {
                    ssp.push('?')
                }
            }
        }
        bd.push(if s.is_char_boundary(m) { '1' } else { '0' });
    }
    // &x[a..c] through Deref, &s[a..c], x.slice_ref(&x[a..c])
    let (mut sl, mut ssl, mut rf) = (String::new(), String::new(), String::new());
    for &a in &mids {
        for &c in &mids {
            match catch_unwind(AssertUnwindSafe(|| x[a..c].as_bytes().to_vec())) {
                Err(_) => sl.push('P'),
                Ok(l) => sl.push(if Some(&l[..]) == b.get(a..c) { '=' } else { '?' }),
            }
            match s.get(a..c) {
                None => ssl.push('P'),
                Some(l) => ssl.push(if Some(l.as_bytes()) == b.get(a..c) { '=' } else { '?' }),
            }
            let xs: &str = &x;
            match xs.get(a..c) {
                None => rf.push('-'),
                Some(sub) => match catch_unwind(AssertUnwindSafe(|| x.slice_ref(sub))) {
                    Err(_) => rf.push('P'),
                    Ok(y) => rf.push_str(&mark(&y, sub.as_bytes())),
                },
            }
        }
    }
    // window test
    let big = ByteString::from(format!("x{}y", s));
    let inner = big.slice_ref(&big[1..1 + n]);
    let mut w = String::new();
    for a in 0..=n + 2 {
        for c in a..=n + 2 {
            let bs: &str = &big;
            match bs.get(a..c) {
                None => w.push('-'),
                Some(sub) => match catch_unwind(AssertUnwindSafe(|| inner.slice_ref(sub))) {
                    Err(_) => w.push('P'),
                    Ok(y) => w.push_str(&mark(&y, sub.as_bytes())),
                },
            }
        }
    }
    // an equal str elsewhere in memory
    let copy = s.to_owned();
    let g = match catch_unwind(AssertUnwindSafe(|| x.slice_ref(&copy[..]))) {
        Err(_) => "P".to_string(),
        Ok(y) => mark(&y, s.as_bytes()),
    };
    // Hash
    let (mut h1, mut h2) = (Rec::default(), Rec::default());
    x.hash(&mut h1);
    s.hash(&mut h2);
    // Display / ToString / String::from / into_bytes / as_bytes / Deref, AsRef, Borrow
    let mut d = String::new();
    d.push_str(&markb(format!("{}", x).as_bytes(), s.as_bytes()));
    d.push_str(&markb(x.to_string().as_bytes(), s.as_bytes()));
    d.push_str(&markb(String::from(x.clone()).as_bytes(), s.as_bytes()));
    d.push_str(&markb(&x.clone().into_bytes(), &b));
    d.push_str(&markb(x.as_bytes(), &b));
    {
        let dr: &str = &x;
        let r1: &str = x.as_ref();
        let r2: &[u8] = x.as_ref();
        let r3: &str = x.borrow();
        if r1 == dr && r2 == dr.as_bytes() && r3 == dr {
            d.push_str(&markb(dr.as_bytes(), s.as_bytes()));
        } else {
            d.push('?');
        }
    }
    let pad = |v: &dyn std::fmt::Display| format!("{:>9}|{:<7}|{:^8}|{:.2}|{:6.1}", v, v, v, v, v);
    d.push(if pad(&x) == pad(&s) { '=' } else { '?' });
    format!(
        "V1|T{}|F{}|S{}|s{}|B{}|L{}|l{}|R{}|W{}|G{}|H{}|h{}|D{}",
        t, f, sp, ssp, bd, sl, ssl, rf, w, g, hex(&h1.0), hex(&h2.0), d
    )
}

fn c20v(line: &str) -> String {
    let b = unhex(line);
    let r = core::str::from_utf8(&b).is_ok();
    // String::from_utf8 is the other entry point the crate uses (TryFrom<Vec<u8>>)
    if r != String::from_utf8(b).is_ok() {
        return "DISAGREE".to_string();
    }
    if r { "1" } else { "0" }.to_string()
}

fn c20e(line: &str) -> String {
    let c = u32::from_str_radix(line, 16).unwrap();
    match char::from_u32(c) {
        None => "-".to_string(),
        Some(ch) => {
            let mut buf = [0u8; 4];
            hex(ch.encode_utf8(&mut buf).as_bytes())
        }
    }
}

fn bit(b: bool) -> char {
    if b { '1' } else { '0' }
}
fn ordc(o: std::cmp::Ordering) -> char {
    match o {
        std::cmp::Ordering::Less => 'L',
        std::cmp::Ordering::Equal => 'E',
        std::cmp::Ordering::Greater => 'G',
    }
}
fn pordc(o: Option<std::cmp::Ordering>) -> char {
    o.map(ordc).unwrap_or('N')
}

/// comparisons among values that SHARE a buffer: for every char boundary m of the string, l / r = the halves of
/// x.split_at(m), pl = x.slice_ref(&x[..m]), pr = x.slice_ref(&x[m..]); each entry is
/// `<l==x><x==l><pl==x><r==x><l==pl><pr==r><l==str(x)><pl==&str prefix><cmp(l,x)><cmp(pr,x)>`
fn c20q(line: &str) -> String {
    let b = unhex(line);
    let s = match std::str::from_utf8(&b) {
        Ok(s) => s,
        Err(_) => return "INVALID".to_string(),
    };
    let x = ByteString::from(s);
    let mut out = Vec::new();
    for m in 0..=s.len() {
        if !s.is_char_boundary(m) {
            continue;
        }
        let (l, r) = x.split_at(m);
        let pl = x.slice_ref(&x[..m]);
        let pr = x.slice_ref(&x[m..]);
        let xs: &str = &x;
        out.push(format!(
            "{}:{}{}{}{}{}{}{}{}{}{}",
            m,
            bit(l == x),
            bit(x == l),
            bit(pl == x),
            bit(r == x),
            bit(l == pl),
            bit(pr == r),
            bit(l == *xs),
            bit(pl == &xs[..m]),
            ordc(l.cmp(&x)),
            ordc(pr.cmp(&x))
        ));
    }
    out.join(",")
}

fn c20p(line: &str) -> String {
    let mut it = line.split(',');
    let (ha, hb) = match (it.next(), it.next(), it.next()) {
        (Some(a), Some(b), None) => (a, b),
        _ => return "BADCASE".to_string(),
    };
    let (a, b) = (unhex(ha), unhex(hb));
    let (sa, sb) = match (std::str::from_utf8(&a), std::str::from_utf8(&b)) {
        (Ok(x), Ok(y)) => (x, y),
        _ => return "INVALID".to_string(),
    };
    let x = ByteString::from(sa);
    let y = ByteString::try_from(Bytes::from(b.clone())).unwrap();
    let mut e = String::new();
    e.push(bit(x == y));
    e.push(bit(x == *sb));
    e.push(bit(x == sb.to_owned()));
    e.push(bit(x == sb));
    e.push(bit(x != y));
    let c: String = [
        ordc(x.cmp(&y)),
        pordc(x.partial_cmp(&y)),
        bit(x < y),
        bit(x <= y),
        bit(x > y),
        bit(x >= y),
    ]
    .iter()
    .collect();
    let rc: String = [
        ordc(sa.cmp(sb)),
        pordc(sa.partial_cmp(sb)),
        bit(sa < sb),
        bit(sa <= sb),
        bit(sa > sb),
        bit(sa >= sb),
    ]
    .iter()
    .collect();
    format!("E{}|e{}|C{}|c{}", e, bit(sa == sb), c, rc)
}

// ---- construction sequences ----
enum Src {
    Lit(Vec<u8>),
    Sub(usize, usize, usize),
}
fn ints(s: &str) -> Vec<usize> {
    s.split('.').map(|x| x.parse().unwrap()).collect()
}
fn parse_src(s: &str) -> Src {
    match s.as_bytes()[0] {
        b'L' => Src::Lit(unhex(&s[1..])),
        b'S' => {
            let v = ints(&s[1..]);
            Src::Sub(v[0], v[1], v[2])
        }
        _ => panic!("src"),
    }
}
fn show_val(x: &ByteString) -> String {
    let b: &[u8] = x.as_bytes().as_ref();
    format!("{}{}", if std::str::from_utf8(b).is_err() { "!" } else { "" }, hex(b))
}
fn made(vs: &[ByteString]) -> String {
    format!("M{}", vs.iter().map(show_val).collect::<Vec<_>>().join(","))
}

/// run `f` on the `&str` the source denotes.  Err("X"): no such pool slot, Err("P"): panicked
/// (either the str slicing or `f`), Err("BADLIT"): the literal is not a str.
fn with_src<R>(pool: &[ByteString], src: &Src, f: impl FnOnce(&str) -> R) -> Result<R, &'static str> {
    match src {
        Src::Lit(v) => {
            let s = std::str::from_utf8(v).map_err(|_| "BADLIT")?;
            catch_unwind(AssertUnwindSafe(|| f(s))).map_err(|_| "P")
        }
        Src::Sub(j, a, b) => {
            let x = pool.get(*j).ok_or("X")?;
            catch_unwind(AssertUnwindSafe(|| {
                let sub: &str = &x[*a..*b];
                f(sub)
            }))
            .map_err(|_| "P")
        }
    }
}
fn src_is_badlit(src: &Src) -> bool {
    matches!(src, Src::Lit(v) if std::str::from_utf8(v).is_err())
}

fn c20s(line: &str) -> String {
    let mut pool: Vec<ByteString> = Vec::new();
    let mut out: Vec<String> = Vec::new();
    if line.is_empty() {
        return String::new();
    }
    for o in line.split(';') {
        let res: Result<Vec<ByteString>, &'static str> = match o.as_bytes()[0] {
            b'N' => Ok(vec![ByteString::new()]),
            b'F' => {
                let k = (o.as_bytes()[1] - b'0') as usize;
                let src = parse_src(&o[2..]);
                with_src(&pool, &src, |s| vec![from_kind(k, s)])
            }
            b'T' => {
                let k = (o.as_bytes()[1] - b'0') as usize;
                let b = unhex(&o[3..]);
                try_kind(k, &b).map(|x| vec![x]).map_err(|_| "E")
            }
            b'U' => {
                let v = ints(&o[1..]);
                match pool.get(v[0]) {
                    None => Err("X"),
                    Some(x) => match catch_unwind(AssertUnwindSafe(|| {
                        ByteString::try_from(x.as_bytes().slice(v[1]..v[2]))
                    })) {
                        Err(_) => Err("P"),
                        Ok(Err(_)) => Err("E"),
                        Ok(Ok(y)) => Ok(vec![y]),
                    },
                }
            }
            b'P' => {
                let v = ints(&o[1..]);
                match pool.get(v[0]) {
                    None => Err("X"),
                    Some(x) => catch_unwind(AssertUnwindSafe(|| x.split_at(v[1])))
                        .map(|(l, r)| vec![l, r])
                        .map_err(|_| "P"),
                }
            }
            b'R' => {
                let k = o.find(':').unwrap();
                let i: usize = o[1..k].parse().unwrap();
                let src = parse_src(&o[k + 1..]);
                if src_is_badlit(&src) {
                    Err("BADLIT")
                } else {
                    match pool.get(i) {
                        None => Err("X"),
                        Some(x) => with_src(&pool, &src, |s| vec![x.slice_ref(s)]),
                    }
                }
            }
            b'C' => {
                let i: usize = o[1..].parse().unwrap();
                match pool.get(i) {
                    None => Err("X"),
                    Some(x) => Ok(vec![x.clone()]),
                }
            }
            _ => panic!("op"),
        };
        match res {
            Ok(vs) => {
                out.push(made(&vs));
                pool.extend(vs);
            }
            Err(e) => out.push(e.to_string()),
        }
    }
    out.join(";")
}

fn main() {
    let mode = std::env::args().nth(1).expect("mode");
    let f: fn(&str) -> String = match mode.as_str() {
        "c20" => c20,
        "c20v" => c20v,
        "c20e" => c20e,
        "c20p" => c20p,
        "c20q" => c20q,
        "c20s" => c20s,
        m => panic!("unknown mode {m}"),
    };
    // expected panics (split_at off a boundary, slice_ref of a foreign str) are part of the trace
    std::panic::set_hook(Box::new(|_| {}));
    let stdin = io::stdin();
    let stdout = io::stdout();
    let mut out = io::BufWriter::new(stdout.lock());
    for line in stdin.lock().lines() {
        let line = line.unwrap();
        let r = catch_unwind(|| f(&line)).unwrap_or_else(|_| "PANIC".to_string());
        writeln!(out, "{}", r).unwrap();
    }
}
