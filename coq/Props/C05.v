(* Props/C05.v — pause, resume and accept-error back-off never strand a listener.
   ONLY statements, each closed by `exact <lemma>`, non-vacuity Examples, Print Assumptions.
   Model: Model/Srv.v (the repaired code: D3 05d24f6, D6 ddb90c8).  Proofs: Proofs/SrvPause.v (every script),
   Proofs/SrvPauseB.v (fault-free scripts).
   Vocabulary (defined in the Proofs files, all executable):
     is_dispatch e      e is an EvDispatch event;      pstate tr   the pause flag according to the ghost events
                        EvPauseOn/EvPauseOff of the log tr (newest first);
     nf_op / tok_ok     fault-free script (no Kill/Respawn) / AcceptTok only on existing listeners (SrvInv.v);
     nwb_op             the script never injects a WouldBlock (the kernel does not answer EAGAIN while connections
                        are queued; C05_wouldblock_witness shows what happens otherwise);
     resumed st         the state in which Resume's accept_all runs: paused := false, every listener registered. *)
From Coq Require Import List ZArith NArith Bool.
From AN Require Import Model.Srv Proofs.SrvInv Proofs.SrvPause Proofs.SrvPauseB Proofs.SrvFault Proofs.SrvStrand.
From AN Require Model.SrvStop Proofs.SrvFwdFacts.
Import ListNotations.

(* 1. Once a pause has taken effect no connection is dispatched until resume — in EVERY run (any script of
   accept-thread calls in any order, environment steps, yields, kills): in the chronological log no dispatch
   lies between an EvPauseOn and the next EvPauseOff; the ghost events mirror the `paused` flag; and while
   paused every listener is deregistered and carries no back-off deadline. *)
Theorem C05_pause_safe : forall (L : Z) W kinds os,
  let st := run L (init W kinds) os in
  (forall pre mid d post, is_dispatch d = true ->
     rev (trace st) = pre ++ EvPauseOn :: mid ++ d :: post -> In EvPauseOff mid) /\
  pstate (trace st) = paused st /\
  (paused st = true -> forall l, In l (lsts st) -> l_reg l = false /\ l_to l = None).
Proof. exact pause_safe_all. Qed.

(* 2a. No listener is ever stranded, registration part — EVERY run: a Unix listener's path stays linked; a
   listener with a back-off deadline is deregistered; and while the loop has not exited every listener is
   registered, or in back-off with deadline <= now + 500 ms and the poll timeout armed (<= 510 ms), or the
   server is paused (then the deadline was taken and Resume registers it: C05_recovers_resume). *)
Theorem C05_registration : forall (L : Z) W kinds os,
  let st := run L (init W kinds) os in
  forall l, In l (lsts st) ->
    l_linked l = true /\
    (forall d, l_to l = Some d -> l_reg l = false) /\
    (stopped st = false ->
       l_reg l = true \/
       (exists d t, l_to l = Some d /\ (d <= now st + 500)%N /\ ptimeout st = Some t /\ (t <= 510)%N) \/
       (paused st = true /\ l_to l = None)).
Proof. exact registration_all. Qed.

(* 2b. ... and after process_timeout (the end of every loop iteration) the poll timeout ends no later than every
   pending deadline, so the blocking poll that follows returns in time to re-register — EVERY run. *)
Theorem C05_wakeup_in_time : forall (L : Z) W kinds os,
  let st := run L (init W kinds) os in
  forall l d, In l (lsts (process_timeout st)) -> l_to l = Some d ->
    exists t, ptimeout (process_timeout st) = Some t /\ (now st + t <= d)%N.
Proof. exact wakeup_after_timeout. Qed.

(* 2c. No connection is stranded in a backlog — every fault-free run without spurious WouldBlock, every limit
   >= 1: the loop neither panics nor spins; a non-empty waker queue has its waker edge pending; and whenever
   the server is not paused and some worker is flagged available, a listener with waiting connections and no
   injected error pending is registered with an unreported readiness edge, or is in back-off with the poll
   timeout armed. *)
Theorem C05_no_strand : forall (L : Z) W kinds os,
  (1 <= L)%Z -> 1 <= W <= 512 ->
  forallb nf_op os = true -> forallb (tok_ok (length kinds)) os = true -> forallb nwb_op os = true ->
  let st := run L (init W kinds) os in
  err st = None /\
  (stopped st = false ->
   (wq st <> [] -> wpend st = true) /\
   forall tok l, nth_error (lsts st) tok = Some l ->
     l_linked l = true /\
     (l_reg l = true \/
      (exists d t, l_to l = Some d /\ (d <= now st + 500)%N /\ ptimeout st = Some t /\ (t <= 510)%N) \/
      (paused st = true /\ l_to l = None)) /\
     (paused st = false -> available (av st) = true -> l_backlog l <> [] -> l_inject l = [] ->
        (l_reg l = true /\ l_edge l = true) \/
        (exists d t, l_to l = Some d /\ (d <= now st + 500)%N /\ ptimeout st = Some t /\ (t <= 510)%N))).
Proof. exact no_strand. Qed.

(* 3a. After Resume every listener accepts again, including connections that arrived in the meantime: from any
   reachable state (fault-free script) whose queue holds no Stop, the command Resume and ONE turn leave the
   server running and not paused, and every listener T that had no injected error pending and no back-off
   deadline (automatic when the server was paused) registered, reachable, and — if a worker is flagged
   available — with an empty backlog. *)
Theorem C05_recovers_resume : forall (L : Z) W kinds os T l,
  (1 <= L)%Z -> 1 <= W <= 512 ->
  forallb nf_op os = true -> forallb (tok_ok (length kinds)) os = true -> forallb nwb_op os = true ->
  let st := run L (init W kinds) os in
  stopped st = false -> ~ In IStop (wq st) ->
  nth_error (lsts st) T = Some l -> l_inject l = [] -> (l_to l = None \/ paused st = true) ->
  let st' := run L st [E (Command CResume); Turn []] in
  stopped st' = false /\ paused st' = false /\
  exists l', nth_error (lsts st') T = Some l' /\ l_reg l' = true /\ l_to l' = None /\ l_inject l' = [] /\
             l_linked l' = true /\ (available (av st') = true -> l_backlog l' = []).
Proof. exact recovers_resume_run. Qed.

(* 3b. After the back-off that follows a non-transient accept error: from any reachable, running, un-paused state
   with no Pause/Stop queued, 510 ms and TWO turns later (the first re-registers at process_timeout, the second
   reports the registration edge) every listener T without a pending injected error — in particular one in
   back-off, TCP or Unix — is registered, has no deadline, is reachable and has an empty backlog whenever a
   worker is flagged available. *)
Theorem C05_recovers_backoff : forall (L : Z) W kinds os T l,
  (1 <= L)%Z -> 1 <= W <= 512 ->
  forallb nf_op os = true -> forallb (tok_ok (length kinds)) os = true -> forallb nwb_op os = true ->
  let st := run L (init W kinds) os in
  stopped st = false -> paused st = false -> ~ In IStop (wq st) -> ~ In IPause (wq st) ->
  nth_error (lsts st) T = Some l -> l_inject l = [] ->
  let st' := run L st [Advance 510; Turn []; Turn []] in
  stopped st' = false /\ paused st' = false /\
  exists l', nth_error (lsts st') T = Some l' /\ l_reg l' = true /\ l_to l' = None /\ l_inject l' = [] /\
             l_linked l' = true /\ (available (av st') = true -> l_backlog l' = []).
Proof. exact recovers_backoff_run. Qed.

(* 4. A per-connection accept error (aborted/reset/refused) does not delay later connections: in ANY state in
   which accept() gets as far as calling the listener, the call on a listener whose next injected result is
   ETransient is EQUAL to the call with that error removed — no deregistration, no deadline, no timeout, the
   same call goes on with the next connection. *)
Theorem C05_transient : forall (L : Z) st tok ys l rest,
  err st = None -> paused st = false -> available (av st) = true ->
  nth_error (lsts st) tok = Some l -> l_inject l = ETransient :: rest ->
  accept L st tok ys = accept L (upd_lst st tok (set_l_inject l rest)) tok ys.
Proof. exact transient_eq. Qed.

(* 5. Repeated or unmatched pause/resume commands are idempotent — state equalities about handle_waker, for ALL
   states (fuel is the model's loop bound; it is spent one unit per processed interest):
   Pause;Pause is processed exactly as a single Pause; *)
Theorem C05_idempotent_pause : forall (L : Z) f st ys rest,
  err st = None -> wq st = IPause :: IPause :: rest ->
  handle_waker L (S (S f)) st ys = handle_waker L (S f) (set_wq st (IPause :: rest) (wpend st)) ys.
Proof. exact pause_pause_eq. Qed.

(* a Pause while paused changes nothing but the queue; *)
Theorem C05_idempotent_pause_when_paused : forall (L : Z) f st ys rest,
  err st = None -> paused st = true -> wq st = IPause :: rest ->
  handle_waker L (S f) st ys = handle_waker L f (set_wq st rest (wpend st)) ys.
Proof. exact pause_when_paused_eq. Qed.

(* an unmatched Resume (not paused) changes nothing but the queue; *)
Theorem C05_idempotent_resume_unmatched : forall (L : Z) f st ys rest,
  err st = None -> paused st = false -> wq st = IResume :: rest ->
  handle_waker L (S f) st ys = handle_waker L f (set_wq st rest (wpend st)) ys.
Proof. exact resume_unmatched_eq. Qed.

(* and Resume;Resume in a reachable state of ANY script: once the first Resume has run its accept_all (state
   st2, whatever was scheduled at its yield points) the server is not paused and the second Resume is still at
   the head of the queue; processing it is a pure pop. *)
Theorem C05_idempotent_resume : forall (L : Z) W kinds os f ys rest,
  let st := run L (init W kinds) os in
  err st = None -> paused st = true -> wq st = IResume :: IResume :: rest ->
  let '(st2, ys2) := accept_all L (resumed (set_wq st (IResume :: rest) (wpend st))) ys in
  paused st2 = false /\
  exists ext, wq st2 = IResume :: rest ++ ext /\
    (err st2 = None ->
     handle_waker L (S (S f)) st ys = handle_waker L f (set_wq st2 (rest ++ ext) (wpend st2)) ys2).
Proof. exact resume_resume_run. Qed.

(* ---------- the server task between ServerHandle and the accept thread (server.rs: ServerInner::run / handle_cmd; model
   Model/SrvStop.v): every pause()/resume() call reaches the accept thread's queue in call order and exactly once —
   issued = forwarded ++ still in the command channel ++ lost, and nothing is lost before a stop has ended the command loop;
   with the loop idle and the channel empty everything issued has been forwarded.  Together with C05_commands_in_order /
   C05_last_command_wins (what the accept thread does with its queue) this is "commands take effect in the order issued". *)
Theorem C05_server_forwards_in_order : forall cf ops,
  exists lost, SrvFwdFacts.issued ops
               = SrvFwdFacts.forwarded (SrvStop.srv_trace cf ops) ++ SrvFwdFacts.pending (SrvStop.cmdq (SrvStop.srv_final cf ops)) ++ lost /\
               (SrvStop.is_done (SrvStop.ctl (SrvStop.srv_final cf ops)) = false -> lost = []).
Proof. exact SrvFwdFacts.server_forwards_in_order. Qed.
Theorem C05_server_forwards_all_when_idle : forall cf ops,
  SrvStop.ctl (SrvStop.srv_final cf ops) = SrvStop.SIdle -> SrvStop.cmdq (SrvStop.srv_final cf ops) = [] ->
  SrvFwdFacts.forwarded (SrvStop.srv_trace cf ops) = SrvFwdFacts.issued ops.
Proof. exact SrvFwdFacts.server_forwards_all_when_idle. Qed.

(* ---------- non-vacuity ---------- *)
(* C05_pause_safe: limit 1, a Unix and a TCP listener.  Connection 2 arrives during the pause; a turn, a direct
   accept() call, the worker's availability notice, process_timeout, a second Pause and two Resumes follow: the
   dispatch of 2 is logged only after EvPauseOff. *)
Example C05_pause_example :
  let os := [E (Connect 0 1); Turn []; E (Command CPause); E (Connect 1 2); Turn []; AcceptTok 1 [];
             E (Pick 0); E (Finish 0 1); HandleWaker []; ProcessTimeout;
             E (Command CPause); E (Command CResume); E (Command CResume); Turn []] in
  let st := run 1 (init 1 [true; false]) os in
  filter (fun e => match e with EvPauseOn | EvPauseOff | EvDispatch _ _ _ _ _ => true | _ => false end) (rev (trace st))
  = [EvDispatch 1 0 0 0 0; EvPauseOn; EvPauseOff; EvDispatch 2 1 0 0 0].
Proof. vm_compute. reflexivity. Qed.

(* C05_no_strand / C05_registration / C05_recovers_backoff: a non-transient error on the Unix listener 0 (two
   clients waiting) puts it in back-off: deregistered, deadline 500, poll timeout 500, path linked; the TCP
   listener keeps working.  The state satisfies every hypothesis of C05_recovers_backoff; 510 ms and two turns
   later both listeners are registered with empty backlogs and clients 1 and 2 have been dispatched. *)
Example C05_backoff_example :
  let os := [E (Inject 0 EOther); E (Connect 0 1); Turn []; E (Connect 0 2); E (Connect 1 3); Turn []] in
  let st := run 2 (init 2 [true; false]) os in
  let st' := run 2 st [Advance 510; Turn []; Turn []] in
  let sum := fun l => (l_reg l, l_to l, l_backlog l, l_linked l) in
  let ds := fun s => filter is_dispatch (rev (trace s)) in
  (forallb nf_op os && forallb (tok_ok 2) os && forallb nwb_op os = true) /\
  (map sum (lsts st), ptimeout st, paused st, stopped st, wq st, available (av st))
    = ([(false, Some 500%N, [1%N; 2%N], true); (true, None, [], true)], Some 500%N, false, false, [], true) /\
  ds st = [EvDispatch 3 1 0 0 0] /\
  (map sum (lsts st'), ptimeout st') = ([(true, None, [], true); (true, None, [], true)], None) /\
  ds st' = [EvDispatch 3 1 0 0 0; EvDispatch 1 0 1 1 0; EvDispatch 2 0 0 0 1].
Proof. vm_compute. repeat split; reflexivity. Qed.

(* C05_recovers_resume, pause during a back-off window and resume before the 500 ms are over: the pause takes
   the deadline; 100 ms later Resume + one turn register both listeners and dispatch the waiting clients. *)
Example C05_resume_example :
  let os := [E (Inject 0 EOther); E (Connect 0 1); Turn []; E (Connect 0 2); E (Connect 1 3); Turn [];
             E (Command CPause); Turn []; Advance 100] in
  let st := run 2 (init 2 [true; false]) os in
  let st' := run 2 st [E (Command CResume); Turn []] in
  let sum := fun l => (l_reg l, l_to l, l_backlog l, l_inject l, l_linked l) in
  (forallb nf_op os && forallb (tok_ok 2) os && forallb nwb_op os = true) /\
  (map sum (lsts st), paused st, stopped st, wq st, now st)
    = ([(false, None, [1%N; 2%N], [], true); (false, None, [], [], true)], true, false, [], 100%N) /\
  (map sum (lsts st'), paused st') = ([(true, None, [], [], true); (true, None, [], [], true)], false) /\
  filter is_dispatch (rev (trace st')) = [EvDispatch 3 1 0 0 0; EvDispatch 1 0 1 1 0; EvDispatch 2 0 0 0 1].
Proof. vm_compute. repeat split; reflexivity. Qed.

(* C05_wakeup_in_time: two listeners in back-off with deadlines 500 and 600; at 350 ms process_timeout arms the
   poll for 150 ms = the earlier deadline *)
Example C05_wakeup_example :
  let os := [E (Inject 0 EOther); E (Connect 0 1); AcceptTok 0 []; Advance 100;
             E (Inject 1 EOther); E (Connect 1 2); AcceptTok 1 []; Advance 250] in
  let st := run 2 (init 2 [true; false]) os in
  (map l_to (lsts st), ptimeout st, now st) = ([Some 500%N; Some 600%N], Some 510%N, 350%N) /\
  ptimeout (process_timeout st) = Some 150%N.
Proof. vm_compute. split; reflexivity. Qed.

(* C05_transient: two aborted connections ahead of two real ones; one accept() call dispatches both clients *)
Example C05_transient_example :
  let st := run 2 (init 2 [false]) [E (Inject 0 ETransient); E (Inject 0 ETransient); E (Connect 0 1); E (Connect 0 2)] in
  (err st, paused st, available (av st), map l_inject (lsts st)) = (None, false, true, [[ETransient; ETransient]]) /\
  let st' := fst (accept 2 st 0 []) in
  (map (fun l => (l_reg l, l_to l, l_backlog l, l_inject l)) (lsts st'), ptimeout st') = ([(true, None, [], [])], None) /\
  filter is_dispatch (rev (trace st')) = [EvDispatch 1 0 0 0 0; EvDispatch 2 0 1 1 0].
Proof. vm_compute. repeat split; reflexivity. Qed.

(* C05_idempotent: hypotheses of the four statements are met in states produced by repeated commands *)
Example C05_idempotent_example :
  let s1 := run 2 (init 1 [true; false]) [E (Command CPause); E (Command CPause); E (Command CResume); E (Command CResume)] in
  let s2 := run 2 (init 1 [true; false]) [E (Command CPause); Turn []; E (Connect 0 1); E (Command CResume); E (Command CResume)] in
  (err s1, paused s1, wq s1) = (None, false, [IPause; IPause; IResume; IResume]) /\
  (err s2, paused s2, wq s2) = (None, true, [IResume; IResume]) /\
  (* both runs end un-paused with every listener registered; the client that arrived during the pause is dispatched *)
  (let e := run 2 s1 [Turn []] in (paused e, map l_reg (lsts e), wq e)) = (false, [true; true], []) /\
  (let e := run 2 s2 [Turn []] in (paused e, map l_reg (lsts e), map l_backlog (lsts e), wq e)) = (false, [true; true], [[]; []], []).
Proof. vm_compute. repeat split; reflexivity. Qed.

(* Why C05_no_strand and C05_recovers_* exclude injected WouldBlock: a (kernel-impossible) WouldBlock while a client
   is queued makes accept() return with the backlog non-empty; the edge is consumed, nothing re-arms it, and
   the client waits forever although a worker is available — in the model and, replayed, in the real loop. *)
Example C05_wouldblock_witness :
  let st := run 2 (init 1 [false]) [E (Connect 0 1); E (Inject 0 EWouldBlock); Turn []; Turn []; Advance 600; Turn []; Turn []] in
  (map (fun l => (l_reg l, l_edge l, l_to l, l_backlog l, l_inject l)) (lsts st), paused st, available (av st))
  = ([(true, false, None, [1%N], [])], false, true).
Proof. vm_compute. reflexivity. Qed.

(* Commands take effect in the order they were issued, however many of them are drained by one handle_waker call: from ANY
   state, after a handle_waker call (no Stop queued, nothing else running) the pause flag is what folding the queued
   Pause/Resume interests over the old flag gives, the queue is empty — and the last command issued wins whatever came before
   it (repeated and unmatched commands are idempotent). *)
Theorem C05_commands_in_order : forall (L : Z) fuel st st' ys',
  handle_waker L fuel st [] = (st', ys') -> ~ In IStop (wq st) -> err st' = None ->
  paused st' = final_paused (paused st) (wq st) /\ wq st' = [].
Proof. exact commands_in_order. Qed.

Theorem C05_last_command_wins : forall p q,
  final_paused p (q ++ [IPause]) = true /\ final_paused p (q ++ [IResume]) = false.
Proof. exact last_command_wins. Qed.

(* C05_no_strand without the fault-free hypothesis: EVERY script (worker deaths and replacements included, anything scheduled
   at the yield point), only the spurious WouldBlock excluded. *)
Theorem C05_no_strand_all : forall (L : Z) W kinds os,
  1 <= W <= 512 -> forallb wf_op os = true -> forallb (tok_ok (length kinds)) os = true -> forallb nwb_op os = true ->
  let st := run L (init W kinds) os in
  err st = None /\
  (stopped st = false ->
   (wq st <> [] -> wpend st = true) /\
   forall tok l, nth_error (lsts st) tok = Some l ->
     paused st = false -> available (av st) = true -> l_backlog l <> [] -> l_inject l = [] ->
       (l_reg l = true /\ l_edge l = true) \/
       (exists d t, l_to l = Some d /\ (d <= now st + 500)%N /\ ptimeout st = Some t /\ (t <= 510)%N)).
Proof. exact no_strand_all. Qed.

(* non-vacuity: Pause, Resume, Pause drained by one call on a running loop leave it paused *)
Example C05_order_example :
  let st := run 2 (init 1 [false]) [E (Command CPause); E (Command CResume); E (Command CPause)] in
  let st' := step 2 st (HandleWaker []) in
  wq st = [IPause; IResume; IPause] /\ paused st = false /\ err st' = None /\ paused st' = true /\ wq st' = [].
Proof. vm_compute. repeat split. Qed.

(* non-vacuity: a redundant pause followed at once by resume, both queued before the server task runs: both are forwarded, in order *)
Example C05_forward_example :
  let cf := SrvStop.mkSCfg 1 false in
  let ops := [SrvStop.UOther false; SrvStop.SPoll; SrvStop.UOther false; SrvStop.UOther true; SrvStop.SPoll; SrvStop.SPoll] in
  SrvStop.ctl (SrvStop.srv_final cf ops) = SrvStop.SIdle /\ SrvStop.cmdq (SrvStop.srv_final cf ops) = [] /\
  SrvFwdFacts.forwarded (SrvStop.srv_trace cf ops) = [false; false; true].
Proof. vm_compute. repeat split. Qed.

Print Assumptions C05_pause_safe.
Print Assumptions C05_registration.
Print Assumptions C05_wakeup_in_time.
Print Assumptions C05_no_strand.
Print Assumptions C05_recovers_resume.
Print Assumptions C05_recovers_backoff.
Print Assumptions C05_transient.
Print Assumptions C05_idempotent_pause.
Print Assumptions C05_idempotent_pause_when_paused.
Print Assumptions C05_idempotent_resume_unmatched.
Print Assumptions C05_idempotent_resume.
Print Assumptions C05_commands_in_order.
Print Assumptions C05_last_command_wins.
Print Assumptions C05_no_strand_all.
Print Assumptions C05_server_forwards_in_order.
Print Assumptions C05_server_forwards_all_when_idle.
