use std::{
    sync::{mpsc, Arc, Condvar, Mutex},
    thread::{self, ThreadId},
    time::Duration,
};

use actix_rt::{Arbiter, ArbiterHandle, System};

#[derive(Clone, Copy, PartialEq, Debug)]
pub enum Kind {
    Done,
    Busy,
    Pend,
    /// pends for ever and owns a guard whose destructor signals "teardown has begun" and takes 300 ms (in the model: Pend)
    PendSlow,
    Panic,
    StopSys(i32),
    StopSelf,
    /// blocks its arbiter's thread and executes closures the coordinator hands it (sends "from a task running on the
    /// arbiter itself", through Arbiter::current()) until it is released; in the model: a task that completes
    Gate,
}

#[derive(Clone, Debug)]
pub enum Op {
    New(char),
    Spawn { k: usize, kind: Kind, via: char, is_fn: bool },
    Stop { k: usize, via: char },
    SysStop { code: i32, via: char },
    WaitRun,
    Join(usize),
    /// wait until the teardown of arbiter k has begun (its `q` task is being dropped): the command loop has ended and its
    /// receiver is gone, the thread is still alive; in the model: Join
    JoinDrop(usize),
    Drop(usize),
    Await { k: usize, tid: usize },
}

fn parse_kind(s: &str) -> Kind {
    match s.as_bytes()[0] {
        b'c' => Kind::Done,
        b'b' => Kind::Busy,
        b'p' => Kind::Pend,
        b'q' => Kind::PendSlow,
        b'x' => Kind::Panic,
        b'e' => Kind::StopSys(s[1..].parse().unwrap()),
        b's' => Kind::StopSelf,
        b'g' => Kind::Gate,
        _ => panic!("kind {s}"),
    }
}

pub fn parse_op(t: &str) -> Op {
    let p: Vec<&str> = t.split(':').collect();
    let ch = |s: &str| s.chars().next().unwrap();
    match p[0] {
        "n" => Op::New(ch(p[1])),
        "sp" | "sf" => Op::Spawn { k: p[1].parse().unwrap(), kind: parse_kind(p[2]), via: ch(p[3]), is_fn: p[0] == "sf" },
        "st" => Op::Stop { k: p[1].parse().unwrap(), via: ch(p[2]) },
        "ss" => Op::SysStop { code: p[1].parse().unwrap(), via: ch(p[2]) },
        "wr" => Op::WaitRun,
        "j" => Op::Join(p[1].parse().unwrap()),
        "jd" => Op::JoinDrop(p[1].parse().unwrap()),
        "d" => Op::Drop(p[1].parse().unwrap()),
        "aw" => Op::Await { k: p[1].parse().unwrap(), tid: p[2].parse().unwrap() },
        _ => panic!("op {t}"),
    }
}

/// xorshift64*: timing only
pub struct Rng(u64);
impl Rng {
    pub fn new(seed: u64) -> Self {
        Rng(seed.wrapping_mul(0x9E3779B97F4A7C15) | 1)
    }
    pub fn next(&mut self) -> u64 {
        let mut x = self.0;
        x ^= x >> 12;
        x ^= x << 25;
        x ^= x >> 27;
        self.0 = x;
        x.wrapping_mul(0x2545F4914F6CDD1D)
    }
    pub fn below(&mut self, n: u64) -> u64 {
        (self.next() >> 33) % n
    }
}

/// what a task records when it starts
#[derive(Clone, Debug)]
pub struct Ev {
    pub k: usize,
    pub tid: usize,
    pub thread: ThreadId,
    pub sys: Option<usize>,
}

#[derive(Default)]
pub struct Shared {
    pub log: Mutex<Vec<Ev>>,
    pub cv: Condvar,
    /// arbiters whose teardown has begun: a `q` task (pending, with a destructor that takes 300 ms) of theirs is being dropped,
    /// which happens after the command loop has ended and its receiver is gone, and before the thread exits
    pub teardown: Mutex<Vec<usize>>,
}

/// owned by a `q` task: dropped with the task when the arbiter's runtime is torn down (or with the unread command)
struct SlowGuard(Arc<Shared>, usize);
impl Drop for SlowGuard {
    fn drop(&mut self) {
        self.0.teardown.lock().unwrap().push(self.1);
        self.0.cv.notify_all();
        thread::sleep(Duration::from_millis(300));
    }
}

/// Arbiter::current() on a system thread did not accept a task for its own system's arbiter (set by start_system)
static IDENT_BAD: std::sync::atomic::AtomicBool = std::sync::atomic::AtomicBool::new(false);
static STALLED: std::sync::atomic::AtomicBool = std::sync::atomic::AtomicBool::new(false);

/// number of watchdog time-outs in this process so far
static HANGS: std::sync::atomic::AtomicUsize = std::sync::atomic::AtomicUsize::new(0);

/// "never": RT_WATCHDOG_MS (default 10 s) for the first two time-outs of a process; after that the process is known
/// to run against a tree on which things hang and RT_WATCHDOG_SHORT_MS (default 1.5 s) keeps the run short
fn watchdog() -> Duration {
    let get = |k: &str, d: u64| std::env::var(k).ok().and_then(|s| s.parse().ok()).unwrap_or(d);
    let ms = if HANGS.load(std::sync::atomic::Ordering::Relaxed) >= 2 {
        get("RT_WATCHDOG_SHORT_MS", 800).min(get("RT_WATCHDOG_MS", 6_000))
    } else {
        get("RT_WATCHDOG_MS", 6_000)
    };
    Duration::from_millis(ms)
}
fn hung() {
    HANGS.fetch_add(1, std::sync::atomic::Ordering::Relaxed);
}

fn record(sh: &Shared, k: usize, tid: usize) {
    let ev = Ev { k, tid, thread: thread::current().id(), sys: System::try_current().map(|s| s.id()) };
    sh.log.lock().unwrap().push(ev);
    sh.cv.notify_all();
}

/// the body of a spawned task, after it has logged its start
fn effect(kind: Kind, busy_us: u64) {
    match kind {
        Kind::Done | Kind::Pend | Kind::PendSlow | Kind::Gate => {}
        Kind::Busy => thread::sleep(Duration::from_micros(busy_us)),
        Kind::Panic => panic!("task panics (scripted)"),
        Kind::StopSys(c) => System::current().stop_with_code(c),
        Kind::StopSelf => {
            Arbiter::current().stop();
        }
    }
}

/// A task starts: it logs its start and has its effect.  For a task that stops the System or its arbiter the command is sent
/// BEFORE the start is logged: the model takes "the task started" and "its stop was issued" for one step, and a coordinator that
/// waits for the start (`aw`) must not be able to slip its own stop in between (seen once in 4 000 scripts on a loaded machine).
fn start(sh: &Shared, k: usize, tid: usize, kind: Kind, busy_us: u64) {
    if matches!(kind, Kind::StopSys(_) | Kind::StopSelf) {
        effect(kind, busy_us);
        record(sh, k, tid);
    } else {
        record(sh, k, tid);
        effect(kind, busy_us);
    }
}

/// send one task through `spawn` or `spawn_fn` of an ArbiterHandle-like sender
fn send_task(
    spawn: &dyn Fn(std::pin::Pin<Box<dyn std::future::Future<Output = ()> + Send>>) -> bool,
    spawn_fn: &dyn Fn(Box<dyn FnOnce() + Send>) -> bool,
    sh: Arc<Shared>,
    k: usize,
    tid: usize,
    kind: Kind,
    is_fn: bool,
    busy_us: u64,
) -> bool {
    if is_fn && kind != Kind::Pend && kind != Kind::PendSlow {
        spawn_fn(Box::new(move || {
            start(&sh, k, tid, kind, busy_us);
        }))
    } else {
        let guard = if kind == Kind::PendSlow { Some(SlowGuard(sh.clone(), k)) } else { None };
        spawn(Box::pin(async move {
            let _guard = guard;
            start(&sh, k, tid, kind, busy_us);
            if kind == Kind::Pend || kind == Kind::PendSlow {
                std::future::pending::<()>().await;
            }
        }))
    }
}

pub fn send_via_handle(h: &ArbiterHandle, sh: Arc<Shared>, k: usize, tid: usize, kind: Kind, is_fn: bool, busy_us: u64) -> bool {
    send_task(&|f| h.spawn(f), &|f| h.spawn_fn(f), sh, k, tid, kind, is_fn, busy_us)
}
pub fn send_via_owner(a: &Arbiter, sh: Arc<Shared>, k: usize, tid: usize, kind: Kind, is_fn: bool, busy_us: u64) -> bool {
    send_task(&|f| a.spawn(f), &|f| a.spawn_fn(f), sh, k, tid, kind, is_fn, busy_us)
}

type Job = Box<dyn FnOnce() + Send>;

/// a thread that executes closures sent to it, one at a time, and acknowledges each
pub struct Helper {
    tx: Option<mpsc::Sender<(Job, mpsc::Sender<()>)>>,
    jh: Option<thread::JoinHandle<()>>,
}
impl Helper {
    pub fn new() -> Self {
        let (tx, rx) = mpsc::channel::<(Job, mpsc::Sender<()>)>();
        let jh = thread::spawn(move || {
            while let Ok((job, ack)) = rx.recv() {
                job();
                let _ = ack.send(());
            }
        });
        Helper { tx: Some(tx), jh: Some(jh) }
    }
    pub fn id(&self) -> ThreadId {
        self.jh.as_ref().unwrap().thread().id()
    }
    pub fn run(&self, job: Job) {
        let (atx, arx) = mpsc::channel();
        self.tx.as_ref().unwrap().send((job, atx)).unwrap();
        arx.recv().unwrap();
    }
}
impl Drop for Helper {
    fn drop(&mut self) {
        self.tx.take();
        if let Some(j) = self.jh.take() {
            let _ = j.join();
        }
    }
}

type AgentMsg = (Job, mpsc::Sender<()>);

struct SysSide {
    sys: System,
    /// while Some: the system thread is kept busy inside the agent task (it drains neither the system's command queue nor
    /// anything else) until the sender is dropped
    sys_gate: std::cell::RefCell<Option<mpsc::Sender<()>>>,
    agent: tokio::sync::mpsc::UnboundedSender<AgentMsg>,
    ret_rx: mpsc::Receiver<String>,
    thread: ThreadId,
}

/// a fresh System on a fresh thread; an agent task on that thread executes closures for the coordinator
fn start_system(userun: bool, reuse: bool, stop_in_block_on: bool) -> Result<SysSide, String> {
    let (info_tx, info_rx) = mpsc::channel();
    let (ret_tx, ret_rx) = mpsc::channel();
    thread::spawn(move || {
        if reuse {
            // the thread has already hosted a System (run to completion and dropped): nothing of it may leak into the next one
            let first = System::new();
            if stop_in_block_on {
                // the stop is issued AND handled while the thread is still inside `SystemRunner::block_on`: `run_with_code`, entered
                // afterwards, must return its code at once
                first.block_on(async {
                    actix_rt::spawn(async {});
                    System::current().stop_with_code(9);
                    tokio::time::sleep(Duration::from_millis(5)).await;
                });
            } else {
                first.block_on(async {
                    actix_rt::spawn(async {});
                });
                System::current().stop_with_code(9);
            }
            if !matches!(first.run_with_code(), Ok(9)) {
                IDENT_BAD.store(true, std::sync::atomic::Ordering::SeqCst);
            }
        }
        let runner = System::new();
        let sys = System::current();
        let (atx, mut arx) = tokio::sync::mpsc::unbounded_channel::<AgentMsg>();
        // the agent task is started through Arbiter::current(): on the system thread that must be THIS system's arbiter
        let ident = std::sync::Arc::new(std::sync::atomic::AtomicBool::new(false));
        let ident2 = ident.clone();
        runner.block_on(async move {
            let ok = Arbiter::current().spawn(async move {
                while let Some((job, ack)) = arx.recv().await {
                    job();
                    let _ = ack.send(());
                }
            });
            ident2.store(ok, std::sync::atomic::Ordering::SeqCst);
        });
        if !ident.load(std::sync::atomic::Ordering::SeqCst) {
            IDENT_BAD.store(true, std::sync::atomic::Ordering::SeqCst);
        }
        info_tx.send((sys, atx, thread::current().id())).unwrap();
        let r = if userun {
            match runner.run() {
                Ok(()) => "ok".to_string(),
                Err(_) => "err".to_string(),
            }
        } else {
            match runner.run_with_code() {
                Ok(c) => c.to_string(),
                Err(_) => "rxerr".to_string(),
            }
        };
        let _ = ret_tx.send(r);
    });
    // (a System that was run before on that thread must have come to its end by now)
    let (sys, agent, thread) = info_rx
        .recv_timeout(Duration::from_secs(10))
        .map_err(|_| "PRE-RUN-HANG the System run earlier on the system's thread never returned from run_with_code".to_string())?;
    Ok(SysSide { sys, sys_gate: std::cell::RefCell::new(None), agent, ret_rx, thread })
}

impl SysSide {
    /// keep the system thread busy until `release_gate` (or the end of the case)
    fn hold_gate(&self) {
        if self.sys_gate.borrow().is_some() {
            return;
        }
        let (gtx, grx) = mpsc::channel::<()>();
        let (atx, _arx) = mpsc::channel();
        if self.agent.send((Box::new(move || { let _ = grx.recv(); }), atx)).is_ok() {
            *self.sys_gate.borrow_mut() = Some(gtx);
        }
    }
    fn release_gate(&self) {
        self.sys_gate.borrow_mut().take();
    }
    /// run `job` on the system thread; false if that thread no longer runs its loop (job not executed)
    fn on_sys_thread(&self, job: Job) -> bool {
        if self.sys_gate.borrow().is_some() {
            return false; // the system thread is being kept busy: the caller falls back to its own thread
        }
        let (atx, arx) = mpsc::channel();
        if self.agent.send((job, atx)).is_err() {
            return false;
        }
        // The agent answers within microseconds.  Seen (rarely, on a loaded machine, cause not found): no answer at all and no
        // system thread left to give one — the coordinator would wait for ever and the whole process with it.  Such a run says
        // nothing about the code: it is given up after 10 s and reported as HANG, which the engine runs again (a case that
        // stalls every time keeps the verdict).
        match arx.recv_timeout(Duration::from_secs(10)) {
            Ok(()) => true,
            Err(mpsc::RecvTimeoutError::Disconnected) => false,
            Err(mpsc::RecvTimeoutError::Timeout) => {
                STALLED.store(true, std::sync::atomic::Ordering::SeqCst);
                false
            }
        }
    }
}

struct Slot {
    owner: Option<Arbiter>,
    handle: ArbiterHandle,
    joined: bool,
    /// sender side of the active gate task's job channel (dropping it releases the gate)
    gate: Option<mpsc::Sender<AgentMsg>>,
    /// tid of the active gate task
    gate_tid: usize,
}

/// run `job` inside the gate task of this slot (on the arbiter's own thread, which the gate keeps blocked);
/// false if there is no gate or it does not answer
fn on_gate(slot: &Slot, job: Job) -> bool {
    match &slot.gate {
        None => false,
        Some(tx) => {
            let (atx, arx) = mpsc::channel();
            if tx.send((job, atx)).is_err() {
                return false;
            }
            arx.recv_timeout(watchdog()).is_ok()
        }
    }
}

fn pause(rng: &mut Rng, profile: u64) {
    let r = rng.below(100);
    let us = match profile {
        0 => 0,
        1 => match r { 0..=69 => 0, 70..=89 => 1, _ => 2 + rng.below(150) },
        2 => match r { 0..=29 => 0, 30..=49 => 1, 50..=89 => 2 + rng.below(300), 90..=97 => 300 + rng.below(1500), _ => 2000 + rng.below(2000) },
        _ => 300 + rng.below(1700),
    };
    match us {
        0 => {}
        1 => thread::yield_now(),
        n => thread::sleep(Duration::from_micros(n)),
    }
}

pub fn run_line(line: &str) -> String {
    let mut it = line.split_whitespace();
    let userun = it.next().expect("R|W") == "R";
    let seed: u64 = it.next().expect("seed").parse().unwrap();
    let ops: Vec<Op> = it.map(parse_op).collect();
    run_case(userun, seed, &ops)
}

fn run_case(userun: bool, seed: u64, ops: &[Op]) -> String {
    let mut rng = Rng::new(seed);
    let profile = seed % 4; // 0 tight, 1 fast, 2 mixed, 3 slow
    let sh = Arc::new(Shared::default());
    IDENT_BAD.store(false, std::sync::atomic::Ordering::SeqCst);
    STALLED.store(false, std::sync::atomic::Ordering::SeqCst);
    let side = match start_system(userun, seed % 3 == 0, seed % 2 == 0) {
        Ok(s) => s,
        Err(e) => return e,
    };
    // Arbiter::new only needs a System registered on the calling thread
    System::set_current(side.sys.clone());
    let helper = Helper::new();
    let mut slots: Vec<Slot> = Vec::new();
    let mut res = String::new();
    let mut ret: Option<String> = None;

    for (pos, op) in ops.iter().enumerate() {
        pause(&mut rng, profile);
        let busy_us = 100 + rng.below(1200);
        let c = match op.clone() {
            Op::New(via) => {
                let cell: Arc<Mutex<Option<Arbiter>>> = Arc::new(Mutex::new(None));
                let c2 = cell.clone();
                let made = via == 's' && side.on_sys_thread(Box::new(move || *c2.lock().unwrap() = Some(Arbiter::new())));
                let arb = if made {
                    cell.lock().unwrap().take().unwrap()
                } else if (seed as usize + pos) % 3 == 0 {
                    // The other public constructor, with a runtime factory that takes its time, called by a thread that
                    // holds a stale unpark token (any park-based primitive whose wake-up raced its consumer leaves one;
                    // `thread::park` may always return spuriously).  The constructor must still return only after the
                    // new arbiter is registered with the System.
                    thread::current().unpark();
                    Arbiter::with_tokio_rt(|| {
                        thread::sleep(Duration::from_millis(15));
                        tokio::runtime::Builder::new_current_thread().enable_all().build().unwrap()
                    })
                } else {
                    Arbiter::new()
                };
                slots.push(Slot { handle: arb.handle(), owner: Some(arb), joined: false, gate: None, gate_tid: 0 });
                'u'
            }
            Op::Spawn { k, kind: Kind::Gate, via, .. } if k < slots.len() => {
                // the gate task: logs its start, then serves the coordinator's closures on the arbiter thread
                let (gtx, grx) = mpsc::channel::<AgentMsg>();
                let sh2 = sh.clone();
                let sys_thread = side.thread;
                let fut = async move {
                    record(&sh2, k, pos);
                    // identity: seen from a worker arbiter's thread, `System::current().arbiter()` is the System's own (initial)
                    // arbiter — what is sent through it runs on the system thread (if that arbiter is gone, nothing runs)
                    let _ = System::current().arbiter().spawn_fn(move || {
                        if thread::current().id() != sys_thread {
                            IDENT_BAD.store(true, std::sync::atomic::Ordering::SeqCst);
                        }
                    });
                    while let Ok((job, ack)) = grx.recv() {
                        job();
                        let _ = ack.send(());
                    }
                };
                let slot = &mut slots[k];
                let ok = match (via, &slot.owner) {
                    ('o', Some(a)) => a.spawn(fut),
                    _ => slot.handle.spawn(fut),
                };
                slot.gate = Some(gtx); // replaces (= releases) an earlier gate
                slot.gate_tid = pos;
                if ok { 't' } else { 'f' }
            }
            Op::Spawn { k, kind, via: 'g', is_fn } if k < slots.len() && slots[k].gate.is_some() => {
                // sent by the gate task itself, through Arbiter::current()
                let sh2 = sh.clone();
                let out = Arc::new(Mutex::new(None));
                let o2 = out.clone();
                let ran = on_gate(&slots[k], Box::new(move || {
                    let h = Arbiter::current();
                    *o2.lock().unwrap() = Some(send_via_handle(&h, sh2, k, pos, kind, is_fn, busy_us));
                }));
                let v = *out.lock().unwrap();
                match (ran, v) {
                    (true, Some(true)) => 't',
                    (true, Some(false)) => 'f',
                    _ => { hung(); 'h' }
                }
            }
            Op::Spawn { k, kind, via: 'x', is_fn } if k < slots.len() => {
                // sent through arbiter k's handle by a task that runs on ANOTHER arbiter (the first other one with an active gate):
                // the sender's thread has a current arbiter of its own, which is not the target
                let other = (0..slots.len()).find(|&j| j != k && slots[j].gate.is_some());
                match other {
                    Some(j) => {
                        let (h, sh2) = (slots[k].handle.clone(), sh.clone());
                        let out = Arc::new(Mutex::new(None));
                        let o2 = out.clone();
                        let ran = on_gate(&slots[j], Box::new(move || {
                            *o2.lock().unwrap() = Some(send_via_handle(&h, sh2, k, pos, kind, is_fn, busy_us));
                        }));
                        let v = *out.lock().unwrap();
                        match (ran, v) {
                            (true, Some(true)) => 't',
                            (true, Some(false)) => 'f',
                            _ => { hung(); 'h' }
                        }
                    }
                    None => {
                        if send_via_handle(&slots[k].handle, sh.clone(), k, pos, kind, is_fn, busy_us) { 't' } else { 'f' }
                    }
                }
            }
            Op::Stop { k, via: 'g' } if k < slots.len() && slots[k].gate.is_some() => {
                let out = Arc::new(Mutex::new(None));
                let o2 = out.clone();
                let ran = on_gate(&slots[k], Box::new(move || {
                    *o2.lock().unwrap() = Some(Arbiter::current().stop());
                }));
                let v = *out.lock().unwrap();
                match (ran, v) {
                    (true, Some(true)) => 't',
                    (true, Some(false)) => 'f',
                    _ => { hung(); 'h' }
                }
            }
            Op::Spawn { k, kind, via, is_fn } => match slots.get(k) {
                None => 'f',
                Some(slot) => {
                    let ok = match (via, &slot.owner) {
                        ('o', Some(a)) => send_via_owner(a, sh.clone(), k, pos, kind, is_fn, busy_us),
                        ('t', _) => {
                            let (h, sh2) = (slot.handle.clone(), sh.clone());
                            let out = Arc::new(Mutex::new(false));
                            let o2 = out.clone();
                            helper.run(Box::new(move || *o2.lock().unwrap() = send_via_handle(&h, sh2, k, pos, kind, is_fn, busy_us)));
                            let v = *out.lock().unwrap();
                            v
                        }
                        _ => send_via_handle(&slot.handle, sh.clone(), k, pos, kind, is_fn, busy_us),
                    };
                    if ok { 't' } else { 'f' }
                }
            },
            Op::Stop { k, via } => match slots.get(k) {
                None => 'f',
                Some(slot) => {
                    let ok = match (via, &slot.owner) {
                        ('o', Some(a)) => a.stop(),
                        ('t', _) => {
                            let h = slot.handle.clone();
                            let out = Arc::new(Mutex::new(false));
                            let o2 = out.clone();
                            helper.run(Box::new(move || *o2.lock().unwrap() = h.stop()));
                            let v = *out.lock().unwrap();
                            v
                        }
                        _ => slot.handle.stop(),
                    };
                    if ok { 't' } else { 'f' }
                }
            },
            Op::SysStop { code, via } => {
                let sys = side.sys.clone();
                match via {
                    's' => {
                        if !side.on_sys_thread(Box::new(move || System::current().stop_with_code(code))) {
                            side.sys.stop_with_code(code);
                        }
                    }
                    't' => helper.run(Box::new(move || sys.stop_with_code(code))),
                    _ => sys.stop_with_code(code),
                }
                'u'
            }
            Op::WaitRun => {
                side.release_gate();
                for sl in slots.iter_mut() {
                    sl.gate = None;
                }
                if ret.is_none() {
                    ret = side.ret_rx.recv_timeout(watchdog()).ok();
                }
                if ret.is_some() { 'r' } else { hung(); 'h' }
            }
            Op::JoinDrop(k) => {
                if let Some(sl) = slots.get_mut(k) {
                    sl.gate = None;
                }
                let g = sh.teardown.lock().unwrap();
                let (g, res) = sh.cv.wait_timeout_while(g, watchdog(), |t| !t.contains(&k)).unwrap();
                drop(g);
                if res.timed_out() { hung(); 'h' } else { 'j' }
            }
            Op::Join(k) => match slots.get_mut(k) {
                None => 'j',
                Some(slot) if slot.joined => 'j',
                Some(slot) => {
                    side.release_gate();
                    slot.gate = None; // release the gate task, if any
                    let arb = slot.owner.take().expect("script joins an arbiter it has dropped");
                    let (tx, rx) = mpsc::channel();
                    thread::spawn(move || {
                        let _ = tx.send(arb.join().is_ok());
                    });
                    match rx.recv_timeout(watchdog()) {
                        Ok(true) => {
                            slot.joined = true;
                            'j'
                        }
                        Ok(false) => 'x',
                        Err(_) => {
                            hung();
                            'h'
                        }
                    }
                }
            },
            Op::Drop(90) => {
                side.hold_gate();
                'u'
            }
            Op::Drop(91) => {
                side.release_gate();
                'u'
            }
            Op::Drop(92) => {
                // stop the System's own (initial) arbiter: System::stop must not depend on it
                side.sys.arbiter().stop();
                'u'
            }
            Op::Drop(k) => {
                if let Some(slot) = slots.get_mut(k) {
                    slot.owner.take();
                }
                'u'
            }
            Op::Await { k, tid } => {
                // waiting for another task of a gated arbiter: the gate task ends first (its thread is blocked until then)
                if let Some(sl) = slots.get_mut(k) {
                    if sl.gate.is_some() && sl.gate_tid != tid {
                        sl.gate = None;
                    }
                }
                let g = sh.log.lock().unwrap();
                let (_g, to) = sh.cv.wait_timeout_while(g, watchdog(), |l| !l.iter().any(|e| e.k == k && e.tid == tid)).unwrap();
                if to.timed_out() {
                    hung();
                    'h'
                } else {
                    's'
                }
            }
        };
        res.push(c);
    }
    side.release_gate();
    if ret.is_none() {
        // the loop may have ended through a task-issued stop nobody waited for
        thread::sleep(Duration::from_micros(200));
        ret = side.ret_rx.try_recv().ok();
    }
    let ret_s = ret.clone().unwrap_or_else(|| "none".to_string());

    // ---- clean-up, not part of the observation ----
    if ret.is_none() {
        side.sys.stop_with_code(0);
        let _ = side.ret_rx.recv_timeout(Duration::from_millis(2000));
    }
    for slot in slots.iter_mut() {
        slot.gate = None;
        slot.handle.stop();
        if let Some(arb) = slot.owner.take() {
            let (tx, rx) = mpsc::channel();
            thread::spawn(move || {
                let _ = tx.send(arb.join().is_ok());
            });
            let _ = rx.recv_timeout(Duration::from_millis(2000));
        }
    }
    let helper_id = helper.id();
    drop(helper);

    // ---- canonical log ----
    let log = sh.log.lock().unwrap().clone();
    let me = thread::current().id();
    let n = slots.len();
    let mut per: Vec<Vec<&Ev>> = vec![Vec::new(); n];
    for e in &log {
        if e.k < n {
            per[e.k].push(e);
        }
    }
    // thread token: 0 system thread, 1 coordinator/helper, 2+k for the thread on which arbiter k's first
    // task ran (smallest such k), 100+ for any other thread
    let mut others: Vec<ThreadId> = Vec::new();
    let mut token = |t: ThreadId| -> usize {
        if t == side.thread {
            return 0;
        }
        if t == me || t == helper_id {
            return 1;
        }
        for (k, l) in per.iter().enumerate() {
            if let Some(e) = l.first() {
                if e.thread == t {
                    return 2 + k;
                }
            }
        }
        match others.iter().position(|x| *x == t) {
            Some(i) => 100 + i,
            None => {
                others.push(t);
                100 + others.len() - 1
            }
        }
    };
    if STALLED.swap(false, std::sync::atomic::Ordering::SeqCst) {
        return "HANG".to_string();
    }
    if IDENT_BAD.load(std::sync::atomic::Ordering::SeqCst) {
        // reported instead of a log: the monitor's language has no word for it
        return "IDENT Arbiter::current() on the system thread is not the arbiter of System::current(), or System::current().arbiter() seen from a worker arbiter is not the System's own arbiter".to_string();
    }
    let mut out = format!("ret={};ops={}", ret_s, res);
    for (k, l) in per.iter().enumerate() {
        let items: Vec<String> = l
            .iter()
            .map(|e| {
                let sys = match e.sys {
                    Some(id) if id == side.sys.id() => 0,
                    Some(_) => 1,
                    None => 2,
                };
                format!("{}:{}:{}", e.tid, token(e.thread), sys)
            })
            .collect();
        out.push_str(&format!(";a{}={}", k, items.join(",")));
    }
    out
}
